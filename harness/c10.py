"""C10 — sequence numbers count exactly the messages that consume them.

Real sessions (soup server, soup client, FIX) are driven without sockets on the virtual-time loop with a FakeTransport.
A *history* is a list of operations (sends of every kind incl. failing ones, explicit heartbeats, closes, virtual time passing
so that the heartbeat monitors fire).  Every write the library makes on its own while time passes (automatic heartbeats, the
server's login reply) is turned into a model operation at the place where it happened, so the model sees the same interleaving.

  correspondence  Model/Seq.lean through drv_C10: per operation the exception class and `session.sequence`, and the exact
                  list of writes (soup); per operation outcome (written n / rejected / encode error), the counter, tag 34 of
                  every frame (FIX)
  oracle          the statement, on the implementation alone: counter == initial + number of 'S' packets written after every
                  operation; client adopts the stated number; k-th FIX frame carries logon+k; a send rejected by validation
                  writes nothing and leaves the counter alone
  several sessions  histories over 2-4 sessions alive in one process, operations interleaved (section "several sessions" below):
                  the oracle is evaluated per session, the model is the product of the per-session models (Model/SeqMulti.lean,
                  Props/C10Multi.lean: a session's state is a function of its own sub-history; Witness/C10Multi.lean: a counter shared
                  between sessions is not)
"""
import asyncio
import importlib.util
import json
import os
import re

import common
from common import sx, cps, err_name

import vloop

DRIVER = 'drv_C10'
HB = 0.004            # heartbeat interval used in scripts (virtual seconds)
SOH = b'\x01'

KNOWN_LOCAL = []      # C10-encode-failure-gap is repaired in /repo 9c458df (recorded as `fixed`, suppresses nothing)


class Runaway(Exception):
    """a history did not finish within the iteration budget (would be a hang / an endless virtual wait)"""


class GuardedLoop(vloop.VirtualLoop):
    LIMIT = 400_000          # loop iterations per history (a normal history needs a few thousand)

    def _run_once(self):
        if self.iterations > self.LIMIT:
            raise Runaway(f'more than {self.LIMIT} loop iterations (virtual time {self._vt:.3f}s)')
        super()._run_once()


def run_guarded(loop, coro):
    """loop.run(coro); anything escaping (CancelledError included) is returned as a name, never raised"""
    try:
        loop.run(coro)
        return None
    except (KeyboardInterrupt, SystemExit):
        raise
    except BaseException as e:  # noqa
        return 'runaway' if isinstance(e, Runaway) else err_name(e)
    finally:
        try:
            loop.LIMIT = loop.iterations + 50_000
            loop.shutdown()
        except BaseException:  # noqa
            pass


def report(ctx, what, replay):
    """ctx.violation, after the locally known findings (until the coordinator has registered them)"""
    for k in KNOWN_LOCAL:
        if common.matches_known(k, replay):
            if k['id'] not in [x[0] for x in ctx.known_hits]:
                ctx.known_hits.append((k['id'], k['what']))
            return
    ctx.violation(what, replay)


# =====================================================================================================================
# soup
# =====================================================================================================================
def soup():
    from nasdaq_protocols import soup as s
    return s


def c12():
    import c12 as m
    return m


def soup_pkt(t):
    return c12().sx_to_pkt(t)


def gen_soup_pkt(rng, big=False):
    """packet (c12 s-expression form) for a send; includes packets whose encoding fails"""
    c = rng.random()
    data = lambda: bytes(rng.randrange(256) for _ in range(rng.choice([0, 1, 1, 2, 3, 8])))
    if c < 0.36:
        if big and rng.random() < 0.3:
            return ['seqData', bytes(rng.choice([32766, 32767, 32768, 40000]))]
        d = data()
        if rng.random() < 0.25:      # payload that looks like another packet
            d = bytes([0, 1, rng.choice(b'SHRZ+')]) + d
        return ['seqData', d]
    if c < 0.48:
        return ['unseqData', data() if rng.random() < 0.7 else b'\x00\x02S' + data()]
    if c < 0.60:
        txt = rng.choice(['', 'S', 'hello', 'SSS', 'hé', '€', 'a b'])
        return ['debug', cps(txt)]
    if c < 0.66:
        return ['loginAcc', cps(rng.choice(['', 'sess', 'S'])), rng.choice([0, 1, 7, 10 ** 19, -2])]
    if c < 0.72:
        return ['loginRej', rng.choice([65, 83])]
    if c < 0.76:
        return ['loginReq', cps(rng.choice(['u', 'S', 'usé'])), cps('p'), cps(''), cps(str(rng.randint(0, 50)))]
    return rng.choice(['clientHb', 'serverHb', 'endOfSession', 'logoutReq', 'serverHb', 'clientHb'])


def gen_init(rng):
    c = rng.random()
    if c < 0.35:
        return rng.choice([0, 1, 1, 2, 9, 10 ** 19, 10 ** 20 - 1, 2 ** 63 - 1, 2 ** 64, -1, -5])
    return rng.randint(0, 10 ** rng.randint(1, 18))


def gen_soup_ops(rng, role, n, big):
    ops = []
    for _ in range(n):
        c = rng.random()
        if c < 0.30:
            ops.append(['send', gen_soup_pkt(rng, big)])
        elif c < 0.42 and role == 'server':
            d = bytes(rng.randrange(256) for _ in range(rng.choice([0, 1, 2, 5])))
            if big and rng.random() < 0.1:
                d = bytes(rng.choice([32766, 32767]))
            ops.append([rng.choice(['seq_bytes', 'seq_obj']), d])
        elif c < 0.42:
            ops.append(['unseq', bytes(rng.randrange(256) for _ in range(rng.choice([0, 1, 4])))])
        elif c < 0.50:
            ops.append(['debug', cps(rng.choice(['x', '', 'S', 'débug', 'ok ok']))])
        elif c < 0.62:
            ops.append(['hb'])
        elif c < 0.80:
            ops.append(['advance', rng.choice([1, 1, 2, 3, 5])])       # in units of HB/2
        elif c < 0.86 and role == 'server':
            ops.append(['feed_login', rng.choice(['acc', 'acc', 'rej']), rng.choice([0, 1, 5, 10 ** 10])])
        elif c < 0.90:
            ops.append([rng.choice(['end', 'logout'])] if role == 'server' else ['logout'])
        elif c < 0.95:
            ops.append(['close'])
        else:
            ops.append(['lost'])
    return ops


def obs_to_model_op(role, w):
    """a write the library made on its own -> the model operation that produces it"""
    t = w[2:3]
    if (role == 'server' and w == b'\x00\x01H') or (role == 'client' and w == b'\x00\x01R'):
        return 'hb'
    try:
        return ['send', c12().pkt_to_sx(soup().SoupMessage.from_bytes(w)[1])]
    except Exception:  # noqa
        return ['send', ['unseqData', b'?' + t]]      # cannot happen with a sane library; forces a visible disagreement


async def apply_soup_op(session, tr, role, op, state):
    """run one operation on the real session; returns (exception name or 'none', model ops it corresponds to)"""
    s = soup()
    k = op[0]
    before = len(tr.writes)
    err = 'none'
    explicit = None
    try:
        if k == 'send':
            explicit = ['send', op[1]]
            session.send_msg(soup_pkt(op[1]))
        elif k == 'seq_bytes':
            explicit = ['send', ['seqData', op[1]]]
            session.send_seq_msg(op[1])
        elif k == 'seq_obj':
            explicit = ['send', ['seqData', op[1]]]
            session.send_seq_msg(s.SequencedData(op[1]))
        elif k == 'unseq':
            explicit = ['send', ['unseqData', op[1]]]
            session.send_unseq_data(op[1])
        elif k == 'debug':
            explicit = ['send', ['debug', op[1]]]
            session.send_debug(''.join(chr(c) for c in op[1]))
        elif k == 'hb':
            explicit = 'hb'
            await session.send_heartbeat()
        elif k == 'end':
            explicit = 'end'
            session.end_session()
        elif k == 'logout':
            explicit = 'logout'
            session.logout()
        elif k == 'close':
            explicit = 'close'
            await session.close()
        elif k == 'lost':
            explicit = 'close'
            session.connection_lost(None)
        elif k == 'advance':
            await asyncio.sleep(op[1] * HB / 2)
        elif k == 'feed_login':
            state['reply'] = (op[1], op[2])
            session.data_received(s.LoginRequest('u', 'p', '', '1').to_bytes()[1])
            await asyncio.sleep(HB / 8)
        else:
            raise ValueError(k)
    except Exception as e:  # noqa
        err = err_name(e)
    if explicit == 'close':
        err = 'none'          # what close() raises is not a C10 observable (C05/C07)
    new = [w for _, w in tr.writes[before:]]
    mops = []
    if explicit is not None:
        mops.append(explicit)
        if explicit not in ('close',) and err == 'none':
            new = new[1:]                      # the explicit operation's own write
    mops += [obs_to_model_op(role, w) for w in new]
    return err, mops


def soup_model_request(role, connected, init, login, mops):
    ops = [m if isinstance(m, str) else ['send', m[1]] for m in mops]
    if login is None:
        return f'seq.soup {role} {sx(connected)} {init} {sx(ops)}'
    req, replies = login
    return f'seq.client {sx(connected)} {init} {sx(req)} {sx(list(replies))} {sx(ops)}'


def make_server_cls():
    s = soup()

    class Srv(s.SoupServerSession):
        reply_state = None

        async def on_login(self, msg):
            kind, q = self.reply_state['reply']
            return s.LoginAccepted('sess', q) if kind == 'acc' else s.LoginRejected('A')

        async def on_unsequenced(self, msg):
            return None
    return Srv


def run_soup_history(h):
    """h = {'role','init','connected','ops', 'login'?: {'req':pkt,'replies':[hex...]}}
    returns dict(trace=[(err, seq, n_model_ops)], mops=[...], writes=[bytes], login=(err, accepted, seq))"""
    role = h['role']
    loop = GuardedLoop()
    out = {'trace': [], 'mops': [], 'writes': [], 'login': None, 'seq_after': []}

    async def main():
        s = soup()
        tr = vloop.FakeTransport(loop)
        state = {'reply': ('acc', 1)}
        kw = dict(sequence=h['init'], client_heartbeat_interval=HB, server_heartbeat_interval=HB)
        if role == 'server':
            cls = make_server_cls()
            session = cls(**kw)
            session.reply_state = state
        else:
            session = s.SoupClientSession(**kw)
        if h.get('connected', True):
            session.connection_made(tr)
        out['initial_seq'] = session.sequence
        if h.get('login') is not None:
            lg = h['login']
            err, acc = 'none', False
            task = asyncio.ensure_future(session.login(soup_pkt(lg['req'])))
            await vloop.turns(2)
            if not task.done():
                for fr in lg['replies']:
                    session.data_received(bytes.fromhex(fr))
                    await asyncio.sleep(0.0003)
            try:
                await asyncio.wait_for(task, HB / 4)
                acc = True
            except Exception as e:  # noqa
                err = err_name(e)
            out['login'] = (err, acc, session.sequence)
            out['login_writes'] = len(tr.writes)
        for op in h['ops']:
            err, mops = await apply_soup_op(session, tr, role, op, state)
            out['trace'].append((err, session.sequence, len(mops)))
            out['mops'] += mops
            out['seq_after'].append((session.sequence, len(tr.writes)))
        out['writes'] = [w for _, w in tr.writes]
        try:
            await session.close()
        except BaseException:  # noqa
            pass

    out['escaped'] = run_guarded(loop, main())
    return out


def count_s(writes):
    return sum(1 for w in writes if w[2:3] == b'S')


def soup_oracle(h, out):
    """the statement on the implementation alone; returns a description of the first failure or None"""
    init = h['init']
    base_writes = 0
    if h.get('login') is not None:
        err, acc, seq = out['login']
        stated = h['login'].get('stated')
        if stated is not None:
            if not acc:
                return f'login acceptance stating sequence {stated} was not accepted ({err})'
            if seq != stated:
                return f'client adopted sequence {seq!r}, the login acceptance states {stated}'
        if acc:
            init = seq
            base_writes = out['login_writes']
        elif seq != h['init']:
            return f'login was not accepted but the counter moved from {h["init"]} to {seq!r}'
    for i, (seq, nw) in enumerate(out['seq_after']):
        exp = init + count_s(out['writes'][base_writes:nw])
        if seq != exp:
            return (f'after operation {i} {h["ops"][i][0]}: counter {seq!r}, expected {init} + '
                    f'{count_s(out["writes"][base_writes:nw])} sequenced packets written = {exp}')
    return None


def soup_compare(h, out, ans):
    """correspondence: model answer vs implementation; returns description or None"""
    p = common.parse_sx(ans)
    if p[0] != 'ok':
        return f'model answered {ans[:80]}'
    if h.get('login') is not None:
        merr, macc, mseq, mtrace, mwrites = p[1], p[2], p[3], p[4], p[5]
        err, acc, seq = out['login']
        if (macc == 'true') != acc or str(seq) != mseq:
            return f'login: model (accepted={macc}, seq={mseq}) vs implementation (accepted={acc}, seq={seq}, {err})'
        if merr != 'none' and merr != err:
            return f'login send: model raises {merr}, implementation {err}'
    else:
        mtrace, mwrites = p[1], p[2]
    i = 0
    for n, (err, seq, k) in enumerate(out['trace']):
        if k == 0:
            continue
        grp = mtrace[i:i + k]
        i += k
        if len(grp) != k:
            return 'model trace shorter than the implementation trace'
        if grp[0][0] != err:
            return f'operation {n} {h["ops"][n][0]}: model raises {grp[0][0]}, implementation {err}'
        if grp[-1][1] != str(seq):
            return f'operation {n} {h["ops"][n][0]}: model counter {grp[-1][1]}, implementation {seq}'
    got = ['x' + w.hex() for w in out['writes']]
    if got != mwrites:
        return f'writes differ: model {len(mwrites)} packets, implementation {len(got)}'
    return None


def h_json(h):
    """JSON-able form of a soup history"""
    def enc(x):
        if isinstance(x, (bytes, bytearray)):
            return {'hex': bytes(x).hex()}
        if isinstance(x, (list, tuple)):
            return [enc(e) for e in x]
        if isinstance(x, dict):
            return {k: enc(v) for k, v in x.items()}
        return x
    return enc(h)


def h_unjson(x):
    if isinstance(x, dict) and set(x) == {'hex'}:
        return bytes.fromhex(x['hex'])
    if isinstance(x, list):
        return [h_unjson(e) for e in x]
    if isinstance(x, dict):
        return {k: h_unjson(v) for k, v in x.items()}
    return x


def shrink_soup(h, failing):
    """remove operations while `failing(history)` stays true"""
    h = dict(h)
    ops = list(h['ops'])
    i = 0
    while i < len(ops):
        cand = dict(h, ops=ops[:i] + ops[i + 1:])
        try:
            bad = failing(cand)
        except Exception:  # noqa
            bad = False
        if bad:
            ops = cand['ops']
        else:
            i += 1
    return dict(h, ops=ops)


def check_soup_history(ctx, h, ans_for=None):
    """run, oracle, correspondence.  `ans_for(request)` asks the model (None when unavailable)"""
    try:
        out = run_soup_history(h)
    except Exception as e:  # noqa
        report(ctx, f'soup history crashed the harness driver of the library: {err_name(e)}: {e}',
               {'kind': 'soup-history', 'history': h_json(h)})
        return
    if out.get('escaped'):
        ctx.count('history-did-not-complete:' + out['escaped'])
        ctx.disagree(f'soup {h["role"]}: the history did not run to its end on the implementation ({out["escaped"]})',
                     {'kind': 'soup-history', 'history': h_json(h)})
    bad = soup_oracle(h, out)
    if bad and len(ctx.violations) >= 3:
        report(ctx, f'soup {h["role"]}: {bad}', {'kind': 'soup-history', 'history': h_json(h)})      # not shrunk
    elif bad:
        def failing(c):
            return soup_oracle(c, run_soup_history(c)) is not None
        m = shrink_soup(h, failing)
        bad = soup_oracle(m, run_soup_history(m)) or bad
        report(ctx, f'soup {h["role"]}: {bad}', {'kind': 'soup-history', 'history': h_json(m)})
    if ans_for is not None:
        lg = h.get('login')
        req = soup_model_request(h['role'], h.get('connected', True), h['init'],
                                 None if lg is None else (lg['req'], [bytes.fromhex(x) for x in lg['replies']]),
                                 out['mops'])
        ans = ans_for(req)
        d = soup_compare(h, out, ans)
        if d:
            ctx.disagree(f'soup {h["role"]}: {d}', {'kind': 'soup-history', 'history': h_json(h)})
    return out


# ---- login acceptance frames, written from the protocol description
def login_accepted_frame(session, field20):
    assert len(field20) == 20 and len(session) == 10
    return b'\x00\x1fA' + session + field20


def gen_login(rng):
    """returns dict(req=pkt, replies=[hex], stated=int or None)"""
    req = ['loginReq', cps(rng.choice(['u', 'user', 'S'])), cps('pw'), cps(rng.choice(['', 'sess'])),
           cps(str(rng.choice([0, 1, 1, 5, 10 ** 9])))]
    if rng.random() < 0.04:
        req[1] = cps('usér')                 # request cannot be encoded: login raises, nothing adopted
    replies = [b'\x00\x01H'] * rng.choice([0, 0, 0, 1, 2])
    stated = None
    sess = rng.choice([b'sess      ', b'          ', b'S S S     ', b'ABCDEFGHIJ'])
    c = rng.random()
    if c < 0.62:
        q = rng.choice([0, 1, 2, 9, 10, 99, 12345, 10 ** 19, 10 ** 20 - 1, 2 ** 63, 2 ** 64 - 1]) if rng.random() < 0.5 \
            else rng.randint(0, 10 ** rng.randint(1, 20) - 1)
        d = str(q).encode()
        form = rng.choice(['ljust', 'rjust', 'zero', 'nul-right', 'nul-left', 'mid'])
        if form == 'ljust':
            f = d.ljust(20)
        elif form == 'rjust':
            f = d.rjust(20)
        elif form == 'zero':
            f = d.rjust(20, b'0')
        elif form == 'nul-right':
            f = d.ljust(20, b'\x00')
        elif form == 'nul-left':
            f = d.rjust(20, b'\x00')
        else:
            k = rng.randint(0, 20 - len(d))
            f = (b' ' * k + d).ljust(20)
        replies.append(login_accepted_frame(sess, f))
        stated = q
    elif c < 0.74:      # unusual spellings int() accepts or rejects: agreement model/implementation only
        f = rng.choice([b'+5', b'-3', b'1_0', b'1__0', b'_1', b' 1 2', b'0x10', b'', b'12a', b'1.0', b'\t7', b'7\n',
                        b'\x1f8', b'1 ' + b'\x00' * 3 + b'2'])
        replies.append(login_accepted_frame(sess, f.ljust(20)))
    elif c < 0.82:
        replies.append(b'\x00\x02J' + rng.choice([b'A', b'S']))
    elif c < 0.88:
        replies.append(rng.choice([b'\x00\x03+hi', b'\x00\x02S\x00', b'\x00\x02U\x00', b'\x00\x01Z', b'\x00\x01O']))
    elif c < 0.93:
        replies.append(b'\x00\x1eA' + sess + b'7'.ljust(19))        # acceptance of the wrong length
    elif c < 0.97:
        pass                                                            # no reply at all
    else:
        replies.append(b'\x00\x02?' + b'x')
    if rng.random() < 0.3 and (c < 0.62 or 0.74 <= c < 0.88 or 0.93 <= c < 0.97):
        # a later acceptance does not matter, unless it is the first real reply
        # (not added after an undecodable frame: what the reader does then is C07's subject)
        replies.append(login_accepted_frame(b'late      ', b'424242'.ljust(20)))
        if c >= 0.93:
            stated = 424242
    if not all(ch < 128 for ch in req[1]):
        stated = None                         # the request itself cannot be sent: outside the quantifier
    return {'req': req, 'replies': [r.hex() for r in replies], 'stated': stated}


# =====================================================================================================================
# FIX
# =====================================================================================================================
_FIX = {}


def fixenv():
    """the test-suite dictionary of the repository under test + two application messages built from its parts"""
    if _FIX:
        return _FIX
    from nasdaq_protocols import fix
    path = os.path.join(common.REPO, 'tests', 'fix_messages.py')
    spec = importlib.util.spec_from_file_location('c10_fix_messages', path)
    fm = importlib.util.module_from_spec(spec)
    spec.loader.exec_module(fm)

    class C10Order(fix.Message, Name='C10Order', Type='D', Category='app',
                   HeaderCls=fm.Header, BodyCls=fm.DataSegment_1, TrailerCls=fm.Trailer):
        ...

    # a message whose header and trailer carry application-set text too (optional fields and a repeating group in the header, an
    # optional text field in the trailer): every segment can be the one that cannot be serialised
    class C10OnBehalfOfCompID(fix.Field, Tag=115, Name='C10OnBehalfOfCompID', Type=fix.FixString):
        ...

    class C10NoHops(fix.Field, Tag=627, Name='C10NoHops', Type=fix.FixInt):
        ...

    class C10HopRefID(fix.Field, Tag=630, Name='C10HopRefID', Type=fix.FixInt):
        ...

    class C10HopCompID(fix.Field, Tag=628, Name='C10HopCompID', Type=fix.FixString):
        ...

    class C10SignatureText(fix.Field, Tag=89, Name='C10SignatureText', Type=fix.FixString):
        ...

    class C10Hop(fix.Group):
        Entries = [fix.Entry(C10HopRefID, True), fix.Entry(C10HopCompID, False)]

    class C10Hops(fix.GroupContainer, CountCls=C10NoHops, GroupCls=C10Hop):
        ...

    class C10Header(fix.DataSegment):
        Entries = list(fm.Header.Entries) + [fix.Entry(C10OnBehalfOfCompID, False), fix.Entry(C10Hops, False)]

    class C10Trailer(fix.DataSegment):
        Entries = list(fm.Trailer.Entries) + [fix.Entry(C10SignatureText, False)]

    class C10Wide(fix.Message, Name='C10Wide', Type='W', Category='app',
                  HeaderCls=C10Header, BodyCls=fm.DataSegment_1, TrailerCls=C10Trailer):
        ...

    _FIX.update(fix=fix, fm=fm, Order=C10Order, Wide=C10Wide)
    return _FIX


def fix_build(spec, comp_ascii=True):
    """message spec -> (message object, valid, encodable)   [valid / encodable computed here, not by the library]
    spec = {'cls': 'Login'|'Nope'|'Order'|'Wide'|'Heartbeat', 'user': str|None, 'f1': int|None, 'f2': str|None, 'group': [..]|None,
            'hdr': {field name: value} (application-set header fields; every class has the optional TargetSubID, Wide also
            C10OnBehalfOfCompID), 'hops': [[ref, comp|None]..] (Wide: repeating group in the header), 'trl': {C10SignatureText: text}}"""
    msg, valid, segs = fix_build_segments(spec, comp_ascii)
    return msg, valid, all(segs)


def fix_build_segments(spec, comp_ascii=True):
    """-> (message object, body valid, (header encodable, body encodable, trailer encodable))"""
    env = fixenv()
    fix, fm = env['fix'], env['fm']
    seg = fix.MessageSegments
    cls = {'Login': fm.Login, 'Nope': fm.Nope, 'Heartbeat': fm.Heartbeat, 'Order': env['Order'], 'Wide': env['Wide']}[spec['cls']]
    body = {}
    texts = {'hdr': [], 'body': [], 'trl': []}
    if spec['cls'] in ('Order', 'Wide'):
        if spec.get('f1') is not None:
            body['Field_1_Int'] = spec['f1']
        if spec.get('f2') is not None:
            body['Field_2_Str'] = spec['f2']
            texts['body'].append(spec['f2'])
        if spec.get('group') is not None:
            body['Field_22_Int'] = [dict(Field_1_Int=g[0], **({'Field_2_Str': g[1]} if g[1] is not None else {}))
                                    for g in spec['group']]
            texts['body'] += [g[1] for g in spec['group'] if g[1] is not None]
        valid = spec.get('f1') is not None and spec.get('f2') is not None
    else:
        if spec.get('user') is not None:
            body['Username'] = spec['user']
            texts['body'].append(spec['user'])
        valid = True
    hdr, trl = {}, {}
    if spec.get('hdr'):
        hdr = dict(spec['hdr'])
        texts['hdr'] += [v for v in hdr.values() if isinstance(v, str)]
    if spec.get('hops') is not None:
        hdr['C10NoHops'] = [dict(C10HopRefID=g[0], **({'C10HopCompID': g[1]} if g[1] is not None else {})) for g in spec['hops']]
        texts['hdr'] += [g[1] for g in spec['hops'] if g[1] is not None]
    if spec.get('trl'):
        trl = dict(spec['trl'])
        texts['trl'] += [v for v in trl.values() if isinstance(v, str)]
    msg = cls({seg.HEADER: hdr, seg.BODY: body, seg.TRAILER: trl} if trl else {seg.HEADER: hdr, seg.BODY: body})
    enc = tuple(all(t.isascii() for t in texts[k]) for k in ('hdr', 'body', 'trl'))
    return msg, valid, (enc[0] and comp_ascii, enc[1], enc[2])


def tag34(frame):
    for f in frame.split(SOH):
        if f.startswith(b'34='):
            try:
                return int(f[3:])
            except ValueError:
                return f[3:].decode('latin-1')
    return None


def msgtype(frame):
    for f in frame.split(SOH):
        if f.startswith(b'35='):
            return f[3:]
    return None


def peek_counter(session):
    q = session.sequence
    m = re.fullmatch(r'count\((-?\d+)\)', repr(q))
    if m:
        return int(m.group(1))
    if isinstance(q, int):
        return ('int', q)
    return ('?', repr(q)[:30])


def logon_reply_frame(begin=b'FIX.4.4', mtype=b'L'):
    body = b'35=' + mtype + SOH + b'34=1' + SOH + b'49=SERVER' + SOH + b'56=CLIENT' + SOH + b'52=20240101-00:00:00' + SOH
    head = b'8=' + begin + SOH + b'9=' + str(len(body)).encode() + SOH
    data = head + body
    return data + b'10=' + str(sum(data) % 256).rjust(3, '0').encode() + SOH


def gen_fix_msg(rng):
    """a message for send_msg: accepted / rejected by validation (a required body field missing) / valid but not serialisable —
    and then the text that cannot be encoded sits in the body, in a body group instance, in an application-set HEADER field, in
    a header group instance or in the TRAILER (each alone and combined; also together with a body that fails validation)"""
    c = rng.random()
    bad_txt = lambda: rng.choice(['café', '€', 'naïve', '中'])
    good_hdr = lambda: rng.choice([None, None, {'TargetSubID': 'DESK'}])
    if c < 0.22:
        m = {'cls': rng.choice(['Login', 'Nope']), 'user': rng.choice([None, 'user', 'x y'])}
    elif c < 0.29:
        m = {'cls': rng.choice(['Login', 'Nope']), 'user': bad_txt()}
    elif c < 0.43:
        m = {'cls': rng.choice(['Order', 'Wide']), 'f1': rng.randint(-5, 99), 'f2': rng.choice(['abc', '', 'x=y'])}
    elif c < 0.50:
        g = [[rng.randint(0, 9), rng.choice([None, 'g'])] for _ in range(rng.randint(0, 2))]
        m = {'cls': rng.choice(['Order', 'Wide']), 'f1': 1, 'f2': 'grp', 'group': g}
    elif c < 0.64:     # rejected by validation (a required body field missing)
        m = {'cls': rng.choice(['Order', 'Wide']), 'f1': rng.choice([None, 7]), 'f2': None if rng.random() < 0.6 else 'z'} \
            if rng.random() < 0.5 else {'cls': rng.choice(['Order', 'Wide']), 'f1': None, 'f2': rng.choice([None, 'only2', bad_txt()])}
        if rng.random() < 0.25:      # …and a header / trailer that could not be serialised either: still "rejected", nothing consumed
            m['hdr'] = {'TargetSubID': bad_txt()}
    elif c < 0.71:     # valid, body cannot be encoded
        m = {'cls': rng.choice(['Order', 'Wide']), 'f1': 3, 'f2': bad_txt()}
    elif c < 0.76:     # … inside a body group instance
        m = {'cls': rng.choice(['Order', 'Wide']), 'f1': 4, 'f2': 'ok', 'group': [[1, 'g']] * rng.randint(0, 1) + [[1, bad_txt()]]}
    elif c < 0.86:     # valid body, an application-set header field cannot be encoded (every message class has TargetSubID)
        m = rng.choice([{'cls': rng.choice(['Login', 'Nope']), 'user': rng.choice([None, 'user'])},
                        {'cls': rng.choice(['Order', 'Wide']), 'f1': 5, 'f2': 'hdr'}])
        m['hdr'] = {'TargetSubID': bad_txt()}
    else:              # the wide message: header field / header group instance / trailer
        m = {'cls': 'Wide', 'f1': 6, 'f2': 'wide'}
        where = rng.choice(['hdr', 'hops', 'trl', 'trl', 'hdr+trl', 'none'])
        if 'hdr' in where:
            m['hdr'] = {'C10OnBehalfOfCompID': bad_txt()}
        if where == 'hops':
            m['hops'] = [[1, 'HOP']] * rng.randint(0, 1) + [[2, bad_txt()]]
        if 'trl' in where:
            m['trl'] = {'C10SignatureText': bad_txt()}
        if where == 'none':
            m.update(hdr={'C10OnBehalfOfCompID': 'FIRM'}, hops=[[1, 'HOP'], [2, None]], trl={'C10SignatureText': 'sig'})
    if 'hdr' not in m and good_hdr():
        m['hdr'] = {'TargetSubID': 'DESK'}
    return m


def gen_fix_history(rng, n):
    q = rng.choice([0, 1, 1, 2, 5, 100, 10 ** 9, 10 ** 18, -4]) if rng.random() < 0.6 else rng.randint(0, 10 ** 6)
    h = {'ver': rng.choice(['44', '50']), 'logon_seq': q,
         'logon': {'cls': 'Login', 'user': rng.choice(['user', None, 'u2']),
                   'hdr': {'SenderCompID': 'CLIENT', 'TargetCompID': 'SERVER', 'MsgSeqNum': q}},
         'pre': [], 'ops': []}
    if rng.random() < 0.5:
        h['logon']['hdr']['SenderSubID'] = 'SUB'
    if rng.random() < 0.05:
        h['logon']['user'] = 'café'            # the logon itself cannot be encoded
    elif rng.random() < 0.03:
        h['logon']['hdr']['TargetSubID'] = 'café'      # … because of an application-set header field
    if rng.random() < 0.25:
        h['pre'] = [gen_fix_msg(rng) for _ in range(rng.randint(1, 2))]
    resend = None
    for _ in range(n):
        c = rng.random()
        if c < 0.52:
            m = gen_fix_msg(rng)
            h['ops'].append(['send', m])
            resend = m
        elif c < 0.58 and resend is not None:
            h['ops'].append(['send', resend])
        elif c < 0.72:
            h['ops'].append(['hb'])
        elif c < 0.94:
            h['ops'].append(['advance', rng.choice([1, 1, 2, 3, 5])])
        else:
            h['ops'].append(['close'])
    return h


def run_fix_history(h):
    """returns dict(events=[...]) where an event is
         ('op', index|'pre i'|'logon', outcome, counter_after, valid, encodable)   for explicit sends / heartbeats
         ('auto', outcome, counter_after)                                         for frames the monitor wrote
       outcome = 'w <tag34>' | 'rej' | 'type' | 'enc' | other error name"""
    env = fixenv()
    fix = env['fix']
    loop = GuardedLoop()
    out = {'events': [], 'frames': []}

    def outcome(err, new):
        if new:
            return 'w ' + str(tag34(new[0]))
        return {'value': 'rej', 'type': 'type', 'unicode': 'enc', 'none': 'nothing'}.get(err, err)

    async def main():
        tr = vloop.FakeTransport(loop)
        cls = fix.Fix44Session if h['ver'] == '44' else fix.Fix50Session
        session = cls(client_heartbeat_interval=HB, server_heartbeat_interval=1.0)
        session.connection_made(tr)

        def do_send(label, spec, comp_ascii=True, via_hb=False):
            before = len(tr.writes)
            err = 'none'
            try:
                msg, valid, segs = fix_build_segments(spec, comp_ascii)
                enc = all(segs)
            except Exception as e:  # noqa
                out['events'].append(('op', label, 'build:' + err_name(e), peek_counter(session), True, True, 'send', (True, True, True)))
                return
            try:
                session.send_msg(msg)
            except Exception as e:  # noqa
                err = err_name(e)
            new = [w for _, w in tr.writes[before:]]
            out['events'].append(('op', label, outcome(err, new), peek_counter(session), valid, enc, 'send', segs))

        for i, spec in enumerate(h['pre']):
            do_send(f'pre {i}', spec)
        # ---- login (the statement's "logon"): the reply is fed once the request is out
        before = len(tr.writes)
        lmsg, lvalid, lsegs = fix_build_segments(h['logon'])
        lenc = all(lsegs)
        task = asyncio.ensure_future(session.login(lmsg))
        await vloop.turns(2)
        new = [w for _, w in tr.writes[before:]]
        lerr = 'none'
        if task.done():
            try:
                task.result()
            except Exception as e:  # noqa
                lerr = err_name(e)
        else:
            session.data_received(logon_reply_frame(b'FIX.4.4' if h['ver'] == '44' else b'FIXT.1.1'))
            try:
                await asyncio.wait_for(task, HB / 4)
            except Exception as e:  # noqa
                lerr = 'login:' + err_name(e)
        out['events'].append(('op', 'logon', outcome(lerr, new), peek_counter(session), lvalid, lenc, 'login', lsegs))
        out['login_error'] = lerr
        for i, op in enumerate(h['ops']):
            before = len(tr.writes)
            if op[0] == 'send':
                do_send(i, op[1])
            elif op[0] == 'hb':
                err = 'none'
                try:
                    await session.send_heartbeat()
                except Exception as e:  # noqa
                    err = err_name(e)
                new = [w for _, w in tr.writes[before:]]
                out['events'].append(('op', i, outcome(err, new), peek_counter(session), True, True, 'hb', (True, True, True)))
            elif op[0] == 'advance':
                await asyncio.sleep(op[1] * HB / 2)
                for w in [w for _, w in tr.writes[before:]]:
                    out['events'].append(('auto', 'w ' + str(tag34(w)), None, msgtype(w) == b'0'))
                if out['events'] and out['events'][-1][0] == 'auto':
                    e = out['events'][-1]
                    out['events'][-1] = (e[0], e[1], peek_counter(session), e[3])
            elif op[0] == 'close':
                try:
                    await session.close()
                except Exception:  # noqa
                    pass
        out['frames'] = [w for _, w in tr.writes]
        try:
            await session.close()
        except BaseException:  # noqa
            pass

    out['escaped'] = run_guarded(loop, main())
    return out


def fix_oracle(h, out):
    """the statement on the implementation alone -> (description, involves_encode_failure) or None"""
    q = h['logon_seq']
    counter = None
    k = 0                 # frames written since (and including) the logon
    started = False
    enc_failed = False
    for ev in out['events']:
        if ev[0] == 'op':
            _, label, outc, cnt, valid, enc, kind = ev[:7]
            if kind == 'login':
                started = True
                counter = q
            if not valid:
                # "a send rejected by validation writes nothing and consumes no number"
                if outc.startswith('w '):
                    return (f'send {label}: the body misses a required field but a frame was written ({outc})', False)
                if started and cnt != counter:
                    return (f'send {label}: rejected by validation but the counter moved {counter} -> {cnt}', False)
                continue
            if not started:
                if outc.startswith('w '):
                    return (f'send {label} before the logon wrote a frame', False)
                continue
            if outc.startswith('w '):
                exp = q + k
                if outc != f'w {exp}':
                    return (f'send {label}: frame number {k} after the logon carries MsgSeqNum {outc[2:]}, expected '
                            f'{q} + {k} = {exp}', enc_failed)
                k += 1
            else:
                enc_failed = True            # valid, nothing written: an exception after validation
            counter = cnt
        else:
            _, outc, cnt, _is_hb = ev
            exp = q + k
            if outc != f'w {exp}':
                return (f'automatic heartbeat: frame number {k} after the logon carries MsgSeqNum {outc[2:]}, expected {exp}',
                        enc_failed)
            k += 1
            if cnt is not None:
                counter = cnt
    return None


def fix_compare(h, out, ans):
    p = common.parse_sx(ans)
    if p[0] != 'ok':
        return f'model answered {ans[:80]}'
    mtrace, mframes = p[1], p[2]
    if len(mtrace) != len(out['events']):
        return 'trace lengths differ'
    for ev, m in zip(out['events'], mtrace):
        mout = ' '.join(m[:-1])
        mnext = m[-1]
        if ev[0] == 'op':
            _, label, outc, cnt, valid, enc, kind = ev[:7]
        else:
            _, outc, cnt, _hb = ev
            label = 'auto-heartbeat'
        if outc != mout:
            return f'{label}: model outcome "{mout}", implementation "{outc}"'
        if cnt is not None:
            cn = 'none' if isinstance(cnt, tuple) and cnt[0] == 'int' else str(cnt)
            if cn != mnext:
                return f'{label}: model counter {mnext}, implementation {cn}'
    got = [str(tag34(f)) for f in out['frames']]
    if got != mframes:
        return f'tag 34 of the frames written: model {mframes[:12]}, implementation {got[:12]}'
    return None


def shrink_fix(h, failing):
    h = json.loads(json.dumps(h))
    for key in ('pre', 'ops'):
        i = 0
        while i < len(h[key]):
            cand = json.loads(json.dumps(h))
            del cand[key][i]
            try:
                bad = failing(cand)
            except Exception:  # noqa
                bad = False
            if bad:
                h = cand
            else:
                i += 1
    return h


def spec_unencodable(spec):
    texts = [spec.get('user'), spec.get('f2')] + [g[1] for g in (spec.get('group') or [])] + [g[1] for g in (spec.get('hops') or [])]
    texts += list((spec.get('hdr') or {}).values()) + list((spec.get('trl') or {}).values())
    return any(isinstance(t, str) and not t.isascii() for t in texts)


def strip_unencodable(h):
    h = json.loads(json.dumps(h))
    h['pre'] = [m for m in h['pre'] if not spec_unencodable(m)]
    h['ops'] = [op for op in h['ops'] if not (op[0] == 'send' and spec_unencodable(op[1]))]
    if spec_unencodable(h['logon']):
        h['logon']['user'] = 'user'
        h['logon']['hdr'] = {k: v for k, v in h['logon']['hdr'].items() if not (isinstance(v, str) and not v.isascii())}
    return h


def check_fix_history(ctx, h, ans_for=None):
    try:
        out = run_fix_history(h)
    except Exception as e:  # noqa
        report(ctx, f'FIX history could not be driven: {err_name(e)}: {e}', {'kind': 'fix-history', 'history': h})
        return None
    if out.get('escaped'):
        ctx.count('history-did-not-complete:' + out['escaped'])
        ctx.disagree(f'FIX: the history did not run to its end on the implementation ({out["escaped"]})',
                     {'kind': 'fix-history', 'history': h})
    bad = fix_oracle(h, out)
    if bad and len(ctx.violations) >= 3 and not bad[1]:
        report(ctx, 'FIX: ' + bad[0], {'kind': 'fix-history', 'history': h})                          # not shrunk
    elif bad:
        def failing(c):
            return fix_oracle(c, run_fix_history(c)) is not None
        m = shrink_fix(h, failing)
        bad2 = fix_oracle(m, run_fix_history(m)) or bad
        kind = 'fix-encode-failure-gap' if bad2[1] else 'fix-history'
        report(ctx, 'FIX: ' + bad2[0], {'kind': kind, 'history': m})
        if bad2[1] or bad[1]:
            # the known gap must not hide anything else: same history without the sends that cannot be serialised
            h2 = strip_unencodable(h)
            bad3 = fix_oracle(h2, run_fix_history(h2))
            if bad3:
                m3 = shrink_fix(h2, failing)
                bad4 = fix_oracle(m3, run_fix_history(m3)) or bad3
                report(ctx, 'FIX: ' + bad4[0], {'kind': 'fix-encode-failure-gap' if bad4[1] else 'fix-history', 'history': m3})
    if ans_for is not None:
        ops = []
        for ev in out['events']:
            if ev[0] == 'op':
                kind, valid, enc = ev[6], ev[4], ev[5]
                ops.append(['login', h['logon_seq'], valid, enc] if kind == 'login' else [kind, valid, enc])
            else:
                ops.append(['hb', True, True])
        ans = ans_for(f'seq.fix {VARIANT[0]} {sx(ops)}')
        d = fix_compare(h, out, ans)
        if d:
            ctx.disagree('FIX: ' + d, {'kind': 'fix-history', 'history': h})
        # the same history with every message given segment by segment (Model/SeqSeg.lean: header / body / trailer serialisable)
        sops = []
        for ev in out['events']:
            if ev[0] == 'op':
                kind, valid, segs = ev[6], ev[4], ev[7]
                sops.append((['login', h['logon_seq']] if kind == 'login' else [kind]) + [valid] + [bool(x) for x in segs])
                for name, okay in zip(('header', 'body', 'trailer'), segs):
                    if not okay:
                        ctx.count(f'fix-unencodable-{name}' + ('' if valid else '(+rejected)'))
            else:
                sops.append(['hb', True, True, True, True])
        d = fix_compare(h, out, ans_for(f'seq.fixseg {sx(sops)}'))
        if d:
            ctx.disagree('FIX (segment-wise model): ' + d, {'kind': 'fix-history', 'history': h})
    return out


VARIANT = ['repaired']       # the model variant the code is compared with (pinned: the fix 9c458df is in /repo)


def probe_variant(ctx):
    """replay the Lean witness history on the implementation: tag 34 = 5, 7 -> unchanged code; 5, 6 -> repaired code"""
    try:
        out = run_fix_history(witness_history())
        tags = [tag34(f) for f in out['frames']]
    except Exception as e:  # noqa
        tags = 'error ' + err_name(e)
    # The model is PINNED to the repaired send_msg (/repo 9c458df): a tree that behaves like the old code is not followed,
    # it disagrees with the model (and the oracle reports the gap).  The probe result is only recorded.
    VARIANT[0] = 'repaired'
    ctx.notes.append(f'FIX send_msg model: repaired semantics (C10_fix_kth_repaired, full statement); the witness history of the '
                     f'former defect wrote tag 34 = {tags} on this tree')
    ctx.count('fix-witness-tags:' + str(tags))


def witness_history():
    """the history of Witness/C10.lean ((login 5 ok) (send valid, not encodable) (send ok)) as a harness history"""
    return {'ver': '44', 'logon_seq': 5,
            'logon': {'cls': 'Login', 'user': 'user', 'hdr': {'SenderCompID': 'CLIENT', 'TargetCompID': 'SERVER', 'MsgSeqNum': 5}},
            'pre': [], 'ops': [['send', {'cls': 'Login', 'user': 'café'}], ['send', {'cls': 'Login', 'user': 'user'}]]}


def segment_witness_histories():
    """the histories of Witness/C10Seg.lean (`witnessHeaderGap`, `witnessTrailerGap`) as harness histories"""
    logon = {'cls': 'Login', 'user': 'user', 'hdr': {'SenderCompID': 'CLIENT', 'TargetCompID': 'SERVER', 'MsgSeqNum': 5}}
    good = {'cls': 'Wide', 'f1': 1, 'f2': 'ok'}
    return [{'ver': '44', 'logon_seq': 5, 'logon': logon, 'pre': [],
             'ops': [['send', {'cls': 'Wide', 'f1': 1, 'f2': 'ok', 'hdr': {'C10OnBehalfOfCompID': 'café'}}], ['send', good]]},
            {'ver': '44', 'logon_seq': 5, 'logon': logon, 'pre': [],
             'ops': [['send', {'cls': 'Wide', 'f1': 1, 'f2': 'ok', 'trl': {'C10SignatureText': 'café'}}], ['send', good]]}]


# =====================================================================================================================
# several sessions alive in one process (FIX sessions of any version, soup servers and clients), operations interleaved
# =====================================================================================================================
# A multi-session history:
#   {'sessions': [S0, S1, ...], 'events': [[sid | None, op], ...]}          (session id = position; JSON form through h_json)
#   S (FIX)  = {'proto': 'fix', 'ver': '42'|'44'|'50', 'seq_arg': None | ['int', n] | ['count', n], 'hb': bool}
#              seq_arg: FixSession(sequence=…) not given / an int / an itertools.count;  hb: the local heartbeat monitor fires (HB) or not
#   S (soup) = {'proto': 'soup', 'role': 'server'|'client', 'init': int | None (no sequence= argument), 'connected': bool}
#   op (FIX)  = ['logon', spec] (spec['hdr'] with or without 'MsgSeqNum') | ['send', spec] | ['hb'] | ['close']
#   op (soup) = an operation of gen_soup_ops (except 'advance') | ['login', gen_login(..)] (client)
#   [None, ['advance', n]] = n * HB/2 of virtual time pass for the whole process (timer-driven heartbeats of every session)
# Every write goes through one global log, so the order of the frames ALL sessions wrote (the explicit operation's own frame and
# everything the monitors wrote meanwhile) is known; each write becomes a model event of its session at that place.
FIX_VERSIONS = {'42': 'Fix42Session', '44': 'Fix44Session', '50': 'Fix50Session'}
FIX_BEGIN = {'42': b'FIX.4.2', '44': b'FIX.4.4', '50': b'FIXT.1.1'}
NO_HB = 100.0


def _is_fix(sp):
    return sp['proto'] == 'fix'


def logon_stated(spec):
    return (spec.get('hdr') or {}).get('MsgSeqNum')


def describe_session(sid, sp):
    if _is_fix(sp):
        a = sp.get('seq_arg')
        arg = 'no sequence= argument' if not a else (f'sequence={a[1]}' if a[0] == 'int' else f'sequence=itertools.count({a[1]})')
        return f'FIX session {sid} (version {sp["ver"]}, {arg})'
    return f'soup {sp["role"]} session {sid} (' + ('no sequence= argument' if sp.get('init') is None else f'sequence={sp["init"]}') + ')'


def run_multi_history(h):
    """-> {'events': [record], 'initial': [counter of every session before the first event], 'writes': [[bytes] per session]}
    record = {'idx': position in h['events'], 'sid', 'proto', 'kind', …, 'snap': counters of ALL sessions after the harness event (on its
    last record only)};  FIX kinds: logon / send / hb / close / auto (a frame the session wrote on its own);  soup kinds: the op name /
    login / auto"""
    import itertools
    env = fixenv()
    fix = env['fix']
    s = soup()
    loop = GuardedLoop()
    out = {'events': [], 'initial': None, 'writes': []}
    log = []                                                  # (sid, bytes) in the order of the writes of the whole process

    class LoggedTransport(vloop.FakeTransport):
        sid = None

        def write(self, data):
            log.append((self.sid, bytes(data)))
            super().write(data)

    def fix_outcome(err, own):
        if own is not None:
            return 'w ' + str(tag34(own))
        return {'value': 'rej', 'type': 'type', 'unicode': 'enc', 'none': 'nothing'}.get(err, err)

    async def main():
        S = h['sessions']
        sessions, trs, states = [], [], []
        for sid, sp in enumerate(S):
            tr = LoggedTransport(loop)
            tr.sid = sid
            state = {'reply': ('acc', 1)}
            if _is_fix(sp):
                kw = dict(client_heartbeat_interval=HB if sp.get('hb', True) else NO_HB, server_heartbeat_interval=1.0)
                if sp.get('seq_arg'):
                    kw['sequence'] = sp['seq_arg'][1] if sp['seq_arg'][0] == 'int' else itertools.count(sp['seq_arg'][1])
                session = getattr(fix, FIX_VERSIONS[sp['ver']])(**kw)
                session.connection_made(tr)
            else:
                kw = dict(client_heartbeat_interval=HB, server_heartbeat_interval=HB)
                if sp.get('init') is not None:
                    kw['sequence'] = sp['init']
                if sp['role'] == 'server':
                    session = make_server_cls()(**kw)
                    session.reply_state = state
                else:
                    session = s.SoupClientSession(**kw)
                if sp.get('connected', True):
                    session.connection_made(tr)
            sessions.append(session)
            trs.append(tr)
            states.append(state)

        def snapshot():
            return [peek_counter(x) if _is_fix(sp) else x.sequence for x, sp in zip(sessions, S)]

        out['initial'] = snapshot()
        for idx, (sid, op) in enumerate(h['events']):
            n0 = len(log)
            rec = None
            take_own = False
            if sid is None:
                await asyncio.sleep(op[1] * HB / 2)
            elif _is_fix(S[sid]):
                session = sessions[sid]
                rec = {'idx': idx, 'sid': sid, 'proto': 'fix', 'kind': op[0], 'valid': True, 'enc': True, 'segs': (True, True, True)}
                err = 'none'
                take_own = op[0] != 'close'
                if op[0] in ('send', 'logon'):
                    try:
                        msg, rec['valid'], rec['segs'] = fix_build_segments(op[1])
                        rec['enc'] = all(rec['segs'])
                    except Exception as e:  # noqa
                        msg, err = None, 'build:' + err_name(e)
                if op[0] == 'send' and msg is not None:
                    try:
                        session.send_msg(msg)
                    except Exception as e:  # noqa
                        err = err_name(e)
                elif op[0] == 'logon' and msg is not None:
                    rec['stated'] = logon_stated(op[1])
                    task = asyncio.ensure_future(session.login(msg))
                    await vloop.turns(2)
                    if task.done():
                        try:
                            task.result()
                        except Exception as e:  # noqa
                            err = err_name(e)
                    else:
                        session.data_received(logon_reply_frame(FIX_BEGIN[S[sid]['ver']]))
                        try:
                            await asyncio.wait_for(task, HB / 4)
                        except Exception as e:  # noqa
                            err = 'login:' + err_name(e)
                elif op[0] == 'hb':
                    try:
                        await session.send_heartbeat()
                    except Exception as e:  # noqa
                        err = err_name(e)
                elif op[0] == 'close':
                    try:
                        await session.close()
                    except Exception:  # noqa
                        pass
                rec['err'] = err
            else:
                session, role = sessions[sid], S[sid]['role']
                rec = {'idx': idx, 'sid': sid, 'proto': 'soup', 'kind': op[0]}
                if op[0] == 'login':
                    lg = op[1]
                    err, acc = 'none', False
                    task = asyncio.ensure_future(session.login(soup_pkt(lg['req'])))
                    await vloop.turns(2)
                    if not task.done():
                        for fr in lg['replies']:
                            session.data_received(bytes.fromhex(fr))
                            await asyncio.sleep(0.0003)
                    try:
                        await asyncio.wait_for(task, HB / 4)
                        acc = True
                    except Exception as e:  # noqa
                        err = err_name(e)
                    rec.update(err=err, accepted=acc, seq=session.sequence, stated=lg.get('stated'), req=lg['req'],
                               replies=[bytes.fromhex(x) for x in lg['replies']])
                    take_own = True
                else:
                    err, mops = await apply_soup_op(session, trs[sid], role, op, states[sid])
                    explicit = mops[0] if (mops and op[0] != 'feed_login') else None
                    rec.update(err=err, mop=explicit)
                    take_own = explicit is not None and explicit != 'close' and err == 'none'
            new = log[n0:]
            recs = []
            if rec is not None:
                rec['own'] = None
                if take_own:
                    for i, (a, w) in enumerate(new):
                        if a == sid:
                            rec['own'] = w
                            del new[i]
                            break
                if rec['proto'] == 'fix' and rec['kind'] != 'close':
                    rec['outcome'] = fix_outcome(rec['err'], rec['own'])
                recs.append(rec)
            for a, w in new:
                if _is_fix(S[a]):
                    recs.append({'idx': idx, 'sid': a, 'proto': 'fix', 'kind': 'auto', 'own': w, 'outcome': 'w ' + str(tag34(w)),
                                 'valid': True, 'enc': True, 'is_hb': msgtype(w) == b'0'})
                else:
                    recs.append({'idx': idx, 'sid': a, 'proto': 'soup', 'kind': 'auto', 'own': w, 'err': 'none',
                                 'mop': obs_to_model_op(S[a]['role'], w)})
            for r in recs:
                r['snap'] = None
            if recs:
                recs[-1]['snap'] = snapshot()
            else:
                recs.append({'idx': idx, 'sid': None, 'proto': None, 'kind': 'advance', 'own': None, 'snap': snapshot()})
            out['events'] += recs
        out['writes'] = [[w for _, w in tr.writes] for tr in trs]
        for session in sessions:
            try:
                await session.close()
            except BaseException:  # noqa
                pass

    out['escaped'] = run_guarded(loop, main())
    return out


def multi_oracle(h, out):
    """the statement, per session, on the implementation alone -> description of the first failure or None.
    FIX: the k-th frame a session writes after its logon carries logon MsgSeqNum + k (the number the logon states; when the logon
    states none, the number its frame carries); a send rejected by validation writes nothing and leaves the session's counter alone;
    nothing is written before the logon.  Soup: after every event of the process, EVERY soup session's counter equals its initial
    (or adopted) value + the sequenced packets that session has written; a client adopts exactly the stated number."""
    S = h['sessions']
    fx = {sid: {'started': False, 'base': None, 'k': 0, 'others': 0} for sid, sp in enumerate(S) if _is_fix(sp)}
    sp_init = {sid: (1 if sp.get('init') is None else sp['init']) for sid, sp in enumerate(S) if not _is_fix(sp)}
    sp_n = {sid: 0 for sid in sp_init}
    prev = out['initial']
    for sid in sp_init:
        if prev is not None and prev[sid] != sp_init[sid]:
            return f'{describe_session(sid, S[sid])}: counter {prev[sid]!r} before any operation'
    for rec in out['events']:
        sid = rec['sid']
        if rec['proto'] == 'fix':
            x = fx[sid]
            who = describe_session(sid, S[sid])
            outc = rec.get('outcome', '')
            if rec['kind'] == 'close':
                pass
            elif rec['kind'] != 'auto' and not rec['valid']:
                if outc.startswith('w '):
                    return f'{who}: event {rec["idx"]}: the body misses a required field but a frame was written ({outc})'
                if rec['snap'] is not None and prev is not None and rec['snap'][sid] != prev[sid]:
                    return (f'{who}: event {rec["idx"]}: the send was rejected by validation but the session\'s counter moved '
                            f'{prev[sid]!r} -> {rec["snap"][sid]!r}')
            else:
                if rec['kind'] == 'logon':
                    x['started'] = True
                    x['base'] = rec.get('stated')
                    x['k'] = 0
                    x['how'] = (f'logon stating MsgSeqNum {x["base"]}' if x['base'] is not None else 'logon without MsgSeqNum')
                if outc.startswith('w '):
                    if not x['started']:
                        return f'{who}: event {rec["idx"]}: a frame ({outc}) was written before the logon'
                    n = tag34(rec['own'])
                    if x['base'] is None and isinstance(n, int):
                        x['base'] = n - x['k']              # the logon states no number: the number its frame carries
                        x['how'] += f' (its frame carries {n})' if x['k'] == 0 else ''
                    exp = x['base'] + x['k'] if isinstance(x['base'], int) else None
                    if n != exp:
                        what = 'automatic heartbeat' if rec['kind'] == 'auto' else rec['kind']
                        return (f'{who}, {x["how"]}: frame number {x["k"]} after the logon ({what}, event {rec["idx"]}) carries '
                                f'MsgSeqNum {n}, expected {x["base"]} + {x["k"]} = {exp}'
                                + (f'; other sessions of the process wrote {x["others"]} frame(s) since this session\'s logon'
                                   if x['others'] else ''))
                    x['k'] += 1
            if rec.get('own') is not None:
                for b, y in fx.items():
                    if b != sid and y['started']:
                        y['others'] += 1
        elif rec['proto'] == 'soup':
            who = describe_session(sid, S[sid])
            if rec['kind'] == 'login':
                if rec['stated'] is not None:
                    if not rec['accepted']:
                        return f'{who}: login acceptance stating sequence {rec["stated"]} was not accepted ({rec["err"]})'
                    if rec['seq'] != rec['stated']:
                        return f'{who}: client adopted sequence {rec["seq"]!r}, the login acceptance states {rec["stated"]}'
                if rec['accepted']:
                    sp_init[sid], sp_n[sid] = rec['seq'], 0
                elif rec['own'] is not None and rec['own'][2:3] == b'S':
                    sp_n[sid] += 1
            elif rec.get('own') is not None and rec['own'][2:3] == b'S':
                sp_n[sid] += 1
        if rec['snap'] is not None:
            for b in sp_init:
                exp = sp_init[b] + sp_n[b]
                if rec['snap'][b] != exp:
                    return (f'{describe_session(b, S[b])}: after event {rec["idx"]} (on session {sid}): counter {rec["snap"][b]!r}, expected '
                            f'{sp_init[b]} + {sp_n[b]} sequenced packets written by this session = {exp}')
            prev = rec['snap']
    return None


def multi_model_request(h, out):
    """-> (request line, the records that have a model event, in order)"""
    S = h['sessions']
    sess = [['fix'] if _is_fix(sp) else ['soup', sp['role'], bool(sp.get('connected', True)), 1 if sp.get('init') is None else sp['init']]
            for sp in S]
    evs, recs = [], []
    for rec in out['events']:
        if rec['proto'] == 'fix':
            if rec['kind'] == 'close':
                continue
            if rec['kind'] == 'logon':
                q = rec.get('stated')
                mop = ['login', 'none' if q is None else q, rec['valid'], rec['enc']]
            elif rec['kind'] == 'auto':
                mop = ['hb', True, True]
            else:
                mop = [rec['kind'], rec['valid'], rec['enc']]
            evs.append([rec['sid'], ['fix', mop]])
        elif rec['proto'] == 'soup':
            if rec['kind'] == 'login':
                evs.append([rec['sid'], ['login', rec['req'], rec['replies']]])
            elif rec.get('mop') is None:
                continue
            else:
                m = rec['mop']
                evs.append([rec['sid'], ['soup', m if isinstance(m, str) else ['send', m[1]]]])
        else:
            continue
        recs.append(rec)
    return f'seq.multi {sx(sess)} {sx(evs)}', recs


def multi_compare(h, out, ans, recs):
    """correspondence with Model/SeqMulti.lean (the product of the per-session models): per event the outcome and the counter of EVERY
    session, at the end what every session wrote"""
    S = h['sessions']
    p = common.parse_sx(ans)
    if p[0] != 'ok':
        return f'model answered {ans[:80]}'
    mtrace, mfinal = p[1], p[2]
    if len(mtrace) != len(recs):
        return 'trace lengths differ'
    for rec, m in zip(recs, mtrace):
        mo, mc = m[0], m[1]
        where = f'event {rec["idx"]} ({rec["kind"]} on session {rec["sid"]})'
        if rec['proto'] == 'fix':
            mout = ' '.join(mo[1:]) if isinstance(mo, list) else mo
            if rec['outcome'] != mout:
                return f'{where}: model outcome "{mout}", implementation "{rec["outcome"]}"'
        elif rec['kind'] == 'login':
            if not isinstance(mo, list) or mo[0] != 'login':
                return f'{where}: model answered {mo}'
            if (mo[2] == 'true') != rec['accepted']:
                return f'{where}: model accepted={mo[2]}, implementation accepted={rec["accepted"]} ({rec["err"]})'
            if mo[1] != 'none' and mo[1] != rec['err']:
                return f'{where}: login send: model raises {mo[1]}, implementation {rec["err"]}'
        else:
            merr = mo[1] if isinstance(mo, list) else mo
            if merr != rec['err']:
                return f'{where}: model raises {merr}, implementation {rec["err"]}'
        if rec['snap'] is not None:
            for b, (mv, iv) in enumerate(zip(mc, rec['snap'])):
                if _is_fix(S[b]) and mv == 'none':
                    same = iv == out['initial'][b]            # not logged on: still what the session was created with
                else:
                    same = str(iv) == mv
                if not same:
                    return (f'{where}: counter of session {b}: model {mv}, implementation {iv!r}'
                            + ('' if b == rec['sid'] else ' — a session the event did not touch'))
    for b, (sp, mf) in enumerate(zip(S, mfinal)):
        if _is_fix(sp):
            got = [str(tag34(f)) for f in out['writes'][b]]
        else:
            got = ['x' + w.hex() for w in out['writes'][b]]
        if got != mf[1:]:
            return f'what session {b} wrote: model {mf[1:][:10]}, implementation {got[:10]}'
    return None


def drop_session(h, sid):
    evs = []
    for a, op in h['events']:
        if a == sid:
            continue
        evs.append([a - 1 if (a is not None and a > sid) else a, op])
    return {'sessions': h['sessions'][:sid] + h['sessions'][sid + 1:], 'events': evs}


def shrink_multi(h, failing, budget=25.0):
    """fewer sessions, fewer events, plainer sessions — while `failing(history)` stays true"""
    import time
    deadline = time.time() + budget

    def bad(c):
        if time.time() > deadline:
            return False
        try:
            return bool(failing(c))
        except Exception:  # noqa
            return False
    h = h_unjson(h_json(h))
    sid = 0
    while sid < len(h['sessions']) and len(h['sessions']) > 1:
        cand = drop_session(h, sid)
        if bad(cand):
            h = cand
        else:
            sid += 1
    i = 0
    while i < len(h['events']):
        cand = dict(h, events=h['events'][:i] + h['events'][i + 1:])
        if bad(cand):
            h = cand
        else:
            i += 1
    for sid, sp in enumerate(h['sessions']):            # plainer sessions: no monitor, version 4.4
        for key, val in (('hb', False), ('ver', '44')):
            if _is_fix(sp) and sp.get(key) != val:
                cand = dict(h, sessions=[dict(x, **{key: val}) if j == sid else x for j, x in enumerate(h['sessions'])])
                if bad(cand):
                    h = cand
    for i, (a, op) in enumerate(h['events']):            # plainer messages
        if op[0] == 'send' and a is not None and _is_fix(h['sessions'][a]):
            cand = dict(h, events=[[a, ['send', {'cls': 'Order', 'f1': 1, 'f2': 'a'}]] if j == i else e for j, e in enumerate(h['events'])])
            if cand != h and bad(cand):
                h = cand
    return h


def check_multi_history(ctx, h, ans_for=None):
    replay = lambda x: {'kind': 'multi-history', 'history': h_json(x)}
    try:
        out = run_multi_history(h)
    except Exception as e:  # noqa
        report(ctx, f'multi-session history could not be driven: {err_name(e)}: {e}', replay(h))
        return None
    if out.get('escaped'):
        ctx.count('history-did-not-complete:' + out['escaped'])
        ctx.disagree(f'several sessions: the history did not run to its end on the implementation ({out["escaped"]})', replay(h))
        if out['initial'] is None:
            return None
    try:
        bad = multi_oracle(h, out)
    except Exception as e:  # noqa
        ctx.disagree(f'several sessions: the oracle could not be evaluated on what the implementation did: {err_name(e)}: {e}', replay(h))
        bad = None
    if bad and len(ctx.violations) >= 3:
        report(ctx, 'several sessions: ' + bad, replay(h))                          # not shrunk
    elif bad:
        def failing(c):
            return multi_oracle(c, run_multi_history(c)) is not None
        m = shrink_multi(h, failing)
        try:
            bad = multi_oracle(m, run_multi_history(m)) or bad
        except Exception:  # noqa
            m = h
        report(ctx, 'several sessions: ' + bad, replay(m))
    if ans_for is not None and not out.get('escaped'):
        req, recs = multi_model_request(h, out)
        d = multi_compare(h, out, ans_for(req), recs)
        if d:
            ctx.disagree('several sessions: ' + d, replay(h))
    return out


def gen_fix_session_ops(rng, n):
    """one FIX session's own operations: [sends before the logon] logon [sends of every kind / resends / heartbeats / close]"""
    ops = []
    if rng.random() < 0.25:
        ops += [['send', gen_fix_msg(rng)] for _ in range(rng.randint(1, 2))]
    if rng.random() < 0.06:
        return ops + [['send', gen_fix_msg(rng)] for _ in range(rng.randint(0, 2))]       # never logs on
    logon = {'cls': 'Login', 'user': rng.choice(['user', None, 'u2']), 'hdr': {'SenderCompID': 'CLIENT', 'TargetCompID': 'SERVER'}}
    if rng.random() < 0.5:        # the logon states its number — or not (the session then numbers the logon itself)
        logon['hdr']['MsgSeqNum'] = rng.choice([0, 1, 1, 2, 5, 100, 10 ** 9, 10 ** 18, -4]) if rng.random() < 0.6 else rng.randint(0, 10 ** 6)
    if rng.random() < 0.5:
        logon['hdr']['SenderSubID'] = 'SUB'
    if rng.random() < 0.04:
        logon['user'] = 'café'                       # the logon itself cannot be encoded
    ops.append(['logon', logon])
    resend = None
    for _ in range(n):
        c = rng.random()
        if c < 0.62:
            resend = gen_fix_msg(rng)
            ops.append(['send', resend])
        elif c < 0.68 and resend is not None:
            ops.append(['send', resend])
        elif c < 0.95:
            ops.append(['hb'])
        else:
            ops.append(['close'])
    return ops


def gen_multi_history(rng, thorough=False):
    """2–3 (thorough: up to 4) sessions alive at once: FIX sessions of the same or different versions created with / without
    `sequence=` whose logons state a MsgSeqNum or not, soup servers and clients created with / without `sequence=`; every session's own
    operations are generated as for a single-session history and then merged in a random interleaving (each session keeps its
    order), with virtual time passing for the whole process in between"""
    n_sess = rng.choice([2, 2, 2, 3, 3, 4] if thorough else [2, 2, 2, 3, 3])
    c = rng.random()
    protos = ['fix'] * n_sess if c < 0.55 else (['soup'] * n_sess if c < 0.65 else
                                                 ['fix', rng.choice(['fix', 'soup'])] + [rng.choice(['fix', 'soup']) for _ in range(n_sess - 2)])
    rng.shuffle(protos)
    same_ver = rng.random() < 0.4
    ver0 = rng.choice(['42', '44', '50'])
    sessions, own = [], []
    for proto in protos:
        if proto == 'fix':
            a = rng.random()
            seq_arg = None if a < 0.55 else (['int', rng.choice([1, 1, 7, 1000])] if a < 0.8 else ['count', rng.choice([1, 5, 1000])])
            sessions.append({'proto': 'fix', 'ver': ver0 if same_ver else rng.choice(['42', '44', '50']), 'seq_arg': seq_arg,
                             'hb': rng.random() < 0.6})
            own.append(gen_fix_session_ops(rng, rng.randint(1, 8)))
        else:
            role = rng.choice(['server', 'client'])
            sessions.append({'proto': 'soup', 'role': role, 'init': None if rng.random() < 0.3 else gen_init(rng),
                             'connected': rng.random() > 0.04})
            ops = [op for op in gen_soup_ops(rng, role, rng.randint(2, 10), False) if op[0] != 'advance']
            if role == 'client' and sessions[-1]['connected'] and rng.random() < 0.7:
                ops.insert(0, ['login', gen_login(rng)])
            own.append(ops)
    # random merge; now and then one session runs a burst, so both fine-grained alternation and long runs occur
    events, pos = [], [0] * len(own)
    while True:
        live = [i for i in range(len(own)) if pos[i] < len(own[i])]
        if not live:
            break
        i = rng.choice(live)
        for _ in range(rng.choice([1, 1, 1, 2, 3])):
            if pos[i] < len(own[i]):
                events.append([i, own[i][pos[i]]])
                pos[i] += 1
        if rng.random() < 0.18:
            events.append([None, ['advance', rng.choice([1, 1, 2, 3, 5])]])
    return {'sessions': sessions, 'events': events}


def multi_witness_history(term):
    """the history of Witness/C10Multi.lean, as printed by the driver (`witness C10Multi`), as a harness history: sessions created
    without `sequence=`, `login none` = a logon whose header carries no MsgSeqNum"""
    evs = common.parse_sx(term)[0]
    n = max(int(e[0]) for e in evs) + 1
    events = []
    for a, op in evs:
        if op[0] == 'login':
            hdr = {'SenderCompID': 'CLIENT', 'TargetCompID': 'SERVER'}
            if op[1] != 'none':
                hdr['MsgSeqNum'] = int(op[1])
            events.append([int(a), ['logon', {'cls': 'Login', 'user': 'user', 'hdr': hdr}]])
        elif op[0] == 'send':
            events.append([int(a), ['send', {'cls': 'Order', 'f1': 1, 'f2': 'a'}]])
        else:
            events.append([int(a), ['hb']])
    return {'sessions': [{'proto': 'fix', 'ver': '44', 'seq_arg': None, 'hb': False} for _ in range(n)], 'events': events}


MULTI_WITNESS = '((0 (login none true true)) (1 (login none true true)) (0 (send true true)) (1 (send true true)) (0 (hb true true)))'


# =====================================================================================================================
# W-S10b: histories on a transport with WRITE flow control (pause_writing / resume_writing) — everything lives in harness/c10_flow.py
# =====================================================================================================================
def flow_family(ctx, asker, rep=None):
    """generated flow-control histories (rep None) or the replay of one (`rep['kind'] == 'flow-history'`)"""
    import c10_flow
    return c10_flow.run(ctx, asker) if rep is None else c10_flow.replay(ctx, asker, rep)


# =====================================================================================================================
# W-S10a: FIX histories on message OBJECTS (one object sent several times with in-place changes in between, messages obtained from the
# reader, headers numbered by the application) — everything lives in harness/c10_obj.py; model Model/SeqObj.lean, Props/C10Obj.lean
# =====================================================================================================================
def obj_family(ctx, asker, rep=None):
    """generated object histories + the histories of Witness/C10Obj.lean (rep None) or the replay of one (`rep['kind'] == 'fix-obj-history'`)"""
    import c10_obj
    return c10_obj.run(ctx, asker) if rep is None else c10_obj.replay(ctx, asker, rep)


# =====================================================================================================================
# run / replay
# =====================================================================================================================
class Asker:
    """collects model requests; answers them in one batch"""

    def __init__(self, driver):
        self.driver = driver
        self.ok = driver is not None and driver.available

    def ask(self, line):
        return self.driver.ask([line])[0]


def load_corpus():
    cdir = os.path.join(common.VERIF, 'corpus', 'C10')
    out = []
    if os.path.isdir(cdir):
        for f in sorted(os.listdir(cdir)):
            if f.endswith('.json'):
                out.append(json.load(open(os.path.join(cdir, f))))
    return out


def run_case(ctx, case, asker):
    ans_for = asker.ask if asker.ok else None
    if case['kind'] in ('soup-history',):
        h = h_unjson(case['history'])
        ctx.case(json.dumps(case, default=repr)[:300], nontrivial=len(h['ops']) > 0 or h.get('login') is not None,
                 sample_every=53)
        ctx.count('soup-' + h['role'] + ('-login' if h.get('login') else ''))
        out = check_soup_history(ctx, h, ans_for)
        if out:
            for err, _seq, _k in out['trace']:
                if err != 'none':
                    ctx.count('soup-send-raises:' + err)
            ctx.count('soup-writes', len(out['writes']))
            ctx.count('soup-automatic-writes(heartbeats, login replies)',
                      sum(max(0, k - (0 if op[0] in ('advance', 'feed_login') else 1))
                          for op, (_e, _s, k) in zip(h['ops'], out['trace'])))
            ctx.count('soup-sequenced-writes', count_s(out['writes']))
            if out['login'] is not None:
                ctx.count('soup-login:' + ('accepted' if out['login'][1] else 'not-accepted'))
        return out
    if case['kind'] in ('fix-history', 'fix-encode-failure-gap'):
        h = case['history']
        ctx.case(json.dumps(case)[:300], nontrivial=True, sample_every=53)
        ctx.count('fix-history')
        out = check_fix_history(ctx, h, ans_for)
        if out:
            for ev in out['events']:
                ctx.count('fix-' + (ev[2].split()[0] if ev[0] == 'op' else 'auto-hb'))
        return out
    if case['kind'] == 'multi-history':
        h = h_unjson(case['history'])
        ctx.case(json.dumps(case, default=repr)[:400], nontrivial=len(h['events']) > 0, sample_every=53)
        protos = sorted(sp['proto'] for sp in h['sessions'])
        ctx.count(f'multi-{len(protos)}-sessions:' + '+'.join(protos))
        fixs = [sp for sp in h['sessions'] if _is_fix(sp)]
        if len(fixs) >= 2:
            ctx.count('multi-fix-versions:' + ('same' if len({sp['ver'] for sp in fixs}) == 1 else 'different'))
        for sid, sp in enumerate(h['sessions']):
            if _is_fix(sp):
                lg = [op for a, op in h['events'] if a == sid and op[0] == 'logon']
                ctx.count('multi-fix-session:' + ('sequence=' + sp['seq_arg'][0] if sp.get('seq_arg') else 'no-sequence-arg') + ','
                          + ('never-logs-on' if not lg else ('logon-states-MsgSeqNum' if logon_stated(lg[0][1]) is not None else 'logon-without-MsgSeqNum')))
            else:
                ctx.count('multi-soup-session:' + sp['role'] + (',no-sequence-arg' if sp.get('init') is None else ',sequence='))
        out = check_multi_history(ctx, h, ans_for)
        if out and out.get('events'):
            switches = sum(1 for x, y in zip(out['events'], out['events'][1:])
                           if x['sid'] is not None and y['sid'] is not None and x['sid'] != y['sid'])
            ctx.count('multi-session-switches-between-consecutive-writes/ops', switches)
            for rec in out['events']:
                if rec['proto'] == 'fix' and rec['kind'] != 'close':
                    ctx.count('multi-fix-' + ('auto-hb' if rec['kind'] == 'auto' else rec['outcome'].split()[0]))
                elif rec['proto'] == 'soup' and rec['kind'] == 'auto':
                    ctx.count('multi-soup-automatic-write')
        return out
    if case['kind'] == 'fix-obj-history':       # W-S10a (corpus files of that kind)
        import c10_obj
        return c10_obj.run_one(ctx, asker, case['history'])
    raise ValueError(case['kind'])


def run(ctx):
    rng = ctx.rng
    quick = ctx.tier == 'quick'
    n_srv, n_cli, n_fix, n_multi = (160, 160, 220, 170) if quick else (2500, 2500, 3500, 3000)
    ctx.cov['rule'] = ('histories on real sessions over a fake transport in virtual time: soup server / soup client (login reply '
                       'frames with the sequence field in left-, right-, zero-, NUL-padded and odd spellings, then sends) / FIX '
                       '(sends before the logon, logon with arbitrary MsgSeqNum, valid / validation-rejected / unencodable sends — the text that '
                       'cannot be serialised in the body, a body group instance, an application-set header field, a header group instance '
                       'or the trailer —, '
                       'explicit and timer-driven heartbeats, close) / SEVERAL sessions alive in one process (2-4: FIX sessions of the same or '
                       'different versions created with / without sequence=, logons with / without MsgSeqNum, soup servers and clients; every '
                       'session\'s own history as above, merged in a random interleaving, virtual time passing for all of them; oracle per '
                       'session, model = product of the per-session models); a case is one history, distinct = distinct history')
    asker = Asker(ctx.driver)
    probe_variant(ctx)
    # ---- corpus and the Lean witness first
    for case in load_corpus():
        run_case(ctx, case, asker)
    wit = witness_history()
    if asker.ok:
        w = asker.ask('witness C10')
        exp = '((login 5 true true) (send true false) (send true true))'
        if w != exp:
            ctx.disagree(f'witness history printed by the driver changed: {w}', {'kind': 'fix-history', 'history': wit})
    run_case(ctx, {'kind': 'fix-history', 'history': wit}, asker)
    if asker.ok:
        w = asker.ask('witness C10Seg')
        exp = ('((login 5 true true true true) (send true false true true) (send true true true true)) '
               '((login 5 true true true true) (send true true true false) (send true true true true))')
        if w != exp:
            ctx.disagree(f'segment witness histories printed by the driver changed: {w}', {'kind': 'fix-history', 'history': wit})
    for wh in segment_witness_histories():      # Witness/C10Seg.lean: header / trailer is the part that cannot be serialised
        out = run_case(ctx, {'kind': 'fix-history', 'history': wh}, asker)
        if out is not None:
            ctx.count('fix-segment-witness-tags:' + str([tag34(f) for f in out['frames']]))
    # ---- Witness/C10Multi.lean: the two-session history on which a counter shared between sessions breaks the statement
    if asker.ok:
        w = asker.ask('witness C10Multi')
        if w != MULTI_WITNESS:
            ctx.disagree(f'multi-session witness history printed by the driver changed: {w}',
                         {'kind': 'multi-history', 'history': multi_witness_history(MULTI_WITNESS)})
    out = run_case(ctx, {'kind': 'multi-history', 'history': multi_witness_history(MULTI_WITNESS)}, asker)
    if out is not None:
        ctx.count('multi-witness-tags:' + str([[tag34(f) for f in ws] for ws in out['writes']]))
    flow_family(ctx, asker)      # W-S10b: FIX / soup histories on a transport with write flow control
    obj_family(ctx, asker)       # W-S10a: FIX histories on message objects (re-sent, changed in place, decoded, numbered by hand)
    # ---- generated histories
    for i in range(n_multi):
        h = gen_multi_history(rng, thorough=not quick)
        run_case(ctx, {'kind': 'multi-history', 'history': h_json(h)}, asker)
    for i in range(n_srv):
        big = (i % 25 == 0)
        h = {'role': 'server', 'init': gen_init(rng), 'connected': rng.random() > 0.04,
             'ops': gen_soup_ops(rng, 'server', rng.randint(3, 22), big)}
        run_case(ctx, {'kind': 'soup-history', 'history': h_json(h)}, asker)
    for i in range(n_cli):
        lg = gen_login(rng)
        h = {'role': 'client', 'init': gen_init(rng), 'connected': True, 'login': lg,
             'ops': gen_soup_ops(rng, 'client', rng.randint(0, 14), False)}
        if rng.random() < 0.1:
            h['login'] = None
            h['connected'] = rng.random() > 0.2
        run_case(ctx, {'kind': 'soup-history', 'history': h_json(h)}, asker)
    for i in range(n_fix):
        h = gen_fix_history(rng, rng.randint(2, 18))
        run_case(ctx, {'kind': 'fix-history', 'history': h}, asker)


def replay(ctx, path):
    r = json.load(open(path))
    rep = r.get('replay') or (r.get('no_longer_checks') or [{}])[-1].get('case') or r
    ctx.cov['rule'] = 'replay of ' + path
    asker = Asker(ctx.driver)
    probe_variant(ctx)
    if rep.get('kind') == 'flow-history':      # W-S10b
        return flow_family(ctx, asker, rep)
    if rep.get('kind') == 'fix-obj-history':   # W-S10a
        return obj_family(ctx, asker, rep)
    out = run_case(ctx, rep, asker)
    ctx.case('replay-marker')
    if out is None:
        return
    if rep['kind'] == 'multi-history':
        h = h_unjson(rep['history'])
        for sid, sp in enumerate(h['sessions']):
            print(f'session {sid}: {describe_session(sid, sp)}')
        for rec in out['events']:
            what = rec.get('outcome') if rec['proto'] == 'fix' else (rec.get('err') if rec['proto'] == 'soup' else '')
            print(f"  event {rec['idx']}: session {rec['sid']} {rec['kind']}: {what}"
                  + (f"   counters of all sessions afterwards: {rec['snap']}" if rec['snap'] is not None else ''))
        for sid, (sp, ws) in enumerate(zip(h['sessions'], out['writes'])):
            print(f'session {sid} wrote:', [tag34(f) for f in ws] if _is_fix(sp) else [w[:12].hex() for w in ws])
        print('oracle:', multi_oracle(h, out))
    elif rep['kind'] == 'soup-history':
        print('implementation: per operation (exception, session.sequence, model ops):', out['trace'])
        print('implementation: login:', out['login'], ' writes:', [w[:12].hex() for w in out['writes']])
    else:
        print('implementation events:', out['events'])
        print('implementation tag 34 of frames:', [tag34(f) for f in out['frames']])
