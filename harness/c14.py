"""C14 — every FIX frame written carries correct BodyLength, MsgType and CheckSum, and the library's reader frames it back.

Real `Fix44Session` / `Fix50Session` objects are driven on the virtual-time loop with a FakeTransport (login, user sends,
automatic heartbeats).  Every frame passed to `transport.write` is
  * checked against an independent recomputation (reference encoder + own BodyLength / CheckSum arithmetic) and a structural
    parse written from the property text  (oracle, no model involved);
  * compared byte for byte with the Lean model `FixFrame.frame` (drv_C13 op fix.frame; SendingTime read from the frame);
and all frames of a session are fed to a real `FixMessageReader` under random segmentation: exactly the frames written must
come out, each decoding to what was sent (+ the framing fields); the cut points are compared with the model (`fix.feed`),
the decoded messages with `fix.deser`.

Message OBJECTS over time.  A send item of a session is either a freshly built message or a RE-SEND of a message object an earlier
item of the same session built, after a list of in-place changes (`edits`) at every depth the dictionary offers: a header / body /
trailer field assigned, removed, a whole group list assigned, a field of a group instance (outer, nested, nested twice) assigned
or removed, an instance appended / inserted / replaced / deleted in a (nested) list — through every spelling of the API (by tag,
by name, attribute, `.groups`).  "Equal to what was sent" is judged against the message AS IT IS at the moment of each send: an
independent deep image (`as_collection()`, no `to_bytes` involved) is taken right before and right after every `send_msg`, and
the harness' own abstract simulation of the edits (no library involved) gives the same states to the reference encoder and to
the model (`fix.frame` per send, `fix.resend` per object history: Model/FixObj.lean, Props/C14Resend.lean)."""
import asyncio
import copy
import json
import os
import random

import common
from common import sx, cps, parse_sx, err_name
import fix_common as fc
import vloop

DRIVER = 'drv_C14'          # Drv/C14.lean: the handlers of drv_C13 (Driver/Fix.lean) + message-object histories (Driver/FixObj.lean)
HISTORY_OP = True
KNOWN_LOCAL = []
SOH = b'\x01'
VERSIONS = {'44': 'FIX.4.4', '50': 'FIXT.1.1'}
HB = 0.004


def report(ctx, what, replay):
    for k in KNOWN_LOCAL:
        if common.matches_known(k, replay):
            if k['id'] not in [x[0] for x in ctx.known_hits]:
                ctx.known_hits.append((k['id'], k['what']))
            return
    ctx.violation(what, replay)


def session_cls(v):
    from nasdaq_protocols.fix.session import Fix44Session, Fix50Session
    return {'44': Fix44Session, '50': Fix50Session}[v]


# ------------------------------------------------------------------ generators
STAMP_ORDER = [50, 56, 49, 34, 52]
APP_TYPE_CHARS = 'BCDEFGHIJKLMNOPQRSTUVWXYZabcdefghijklmnopqrstuvwxyz1234678'


def gen_chain(rng, pool, levels):
    """a repeating group holding a repeating group … `levels` deep (each level: 1-3 fields, the first entry a field; now and then a
    second, flat group next to the nested one)"""
    sub = fc.gen_entries(rng, pool, rng.randint(1, 3), 0, first_is_field=True)
    if levels > 1:
        sub.insert(rng.randint(1, len(sub)), gen_chain(rng, pool, levels - 1))
        if rng.random() < 0.25:
            sub.insert(rng.randint(1, len(sub)), gen_chain(rng, pool, 1))
    return ('g', pool.fresh(), rng.random() < 0.3, sub)


def gen_dictionary(rng, nested=False):
    """`nested`: the first application message is guaranteed a group inside a group (2 or 3 levels), half of the time the header a
    group of its own — the dictionaries of the re-send histories"""
    pool = fc.TagPool(rng, exclude=(58,))
    hdr = [('f', 8, 'string', True), ('f', 9, 'int', True), ('f', 35, 'string', True), ('f', 49, 'string', True),
           ('f', 56, 'string', True), ('f', 34, 'int', True), ('f', 50, 'string', False)]
    if rng.random() < 0.85:
        hdr.append(('f', 57, 'string', False))
    if rng.random() < 0.9:
        hdr.append(('f', 52, 'string', True))
    if nested and rng.random() < 0.5:
        hdr.append(gen_chain(rng, pool, rng.choice([1, 1, 2])))
    hdr += fc.gen_entries(rng, pool, rng.randint(0, 2), 1 if rng.random() < 0.3 else 0)
    if rng.random() < 0.4:
        rng.shuffle(hdr)
    trl = [('f', 10, 'string', True)]
    extra = fc.gen_entries(rng, pool, rng.randint(0, 2) if rng.random() < 0.4 else 0, 0)
    trl = extra + trl if rng.random() < 0.7 else trl + extra
    depth = rng.choice([0, 1, 1, 2, 3])
    mdefs = [{'name': fc.fresh_name('Logon'), 'type': 'A', 'hdr': hdr, 'body': [('f', 553, 'string', False)], 'trl': trl},
             {'name': fc.fresh_name('Heartbeat'), 'type': '0', 'hdr': hdr, 'body': [], 'trl': trl}]
    types = set()
    while len(types) < rng.randint(1, 3):
        types.add(''.join(rng.choice(APP_TYPE_CHARS) for _ in range(rng.randint(1, 2))))
    for n, ty in enumerate(sorted(types)):
        body = [('f', 58, 'string', False)] + fc.gen_entries(rng, pool, rng.randint(0, 5), depth)
        if nested and n == 0:
            body.append(gen_chain(rng, pool, rng.choice([2, 2, 3])))
        if rng.random() < 0.5:
            rng.shuffle(body)
        mdefs.append({'name': fc.fresh_name(), 'type': ty, 'hdr': hdr, 'body': body, 'trl': trl})
    return mdefs


def gen_comp_id(rng):
    c = rng.random()
    if c < 0.1:
        return ''
    if c < 0.2:
        return rng.choice(['A', 'X=Y', '35=A', 'a b'])
    return ''.join(rng.choice(fc.PRINTABLE) for _ in range(rng.choice([1, 2, 3, 6, 6, 10, 16, 40])))


def gen_logon(rng, d, seq0):
    """assignments of the logon message: comp ids, sub id (sometimes absent: defaults to ''), MsgSeqNum (sometimes absent: 0)"""
    h = [(49, ('s', gen_comp_id(rng))), (56, ('s', gen_comp_id(rng)))]
    if rng.random() < 0.7:
        h.append((50, ('s', gen_comp_id(rng))))
    if seq0 is not None:
        h.append((34, ('i', seq0)))
    rng.shuffle(h)
    b = [(553, ('s', gen_comp_id(rng)))] if rng.random() < 0.8 else []
    return {'hdr': h, 'body': b, 'trl': []}


def gen_app_message(rng, d, big=False):
    # one message in four carries framing fields of its own (BeginString / BodyLength / MsgType in the header, CheckSum in the
    # trailer), as a message obtained from the reader and sent again does: the session owns those fields and must write them once
    echo = rng.random() < 0.25
    hdr_user = [e for e in d['hdr'] if echo or e[1] not in (8, 9, 35, 10)]
    h = []
    for e in hdr_user:
        p = 0.15 if e[1] in STAMP_ORDER else (0.8 if e[1] in (8, 9, 35) else 0.5)   # pre-set stamped fields are overwritten in place
        if rng.random() < p:
            h += fc.gen_seg(rng, [e], p_optional=1.0)
    if not echo or rng.random() < 0.5:
        rng.shuffle(h)
    b = fc.gen_seg(rng, d['body'], max_inst=8 if big else 3)
    t = fc.gen_seg(rng, [e for e in d['trl'] if echo or e[1] != 10], p_optional=0.9 if echo else 0.5)
    return {'hdr': h, 'body': b, 'trl': t}


def inst_depth(seg):
    """how deep the group instances PRESENT in a segment value go (0 = no instance)"""
    return max([0] + [1 + inst_depth(i) for _, v in seg if v[0] == 'grp' for i in v[1]])


def gen_deep_message(rng, d, want):
    """a message whose body holds instances nested `want` deep (best effort: the deepest of a few tries)"""
    best = None
    for _ in range(16):
        m = gen_app_message(rng, d)
        if best is None or inst_depth(m['body']) > inst_depth(best['body']):
            best = m
        if inst_depth(best['body']) >= want:
            break
    return best


# ------------------------------------------------------------------ in-place edits of a message object between two sends
# edit = {'op', 'seg': 'hdr'|'body'|'trl', 'path': [[group tag, instance index]…], 'tag', ['idx'], ['val'], ['inst'], 'r'}
#   path  walks from the segment down through group instances; the edit acts on the segment / instance it reaches:
#   set      target[tag] = val                      (a field, or a whole list of instances for a group)
#   pop      target.values.pop(tag)                 (the idiom the library itself uses to remove a field)
#   append / insert / replace / delete              on the list of instances of group `tag` of the target
#   'r' seeds the choice between the spellings of the API (by tag / name / attribute / .groups …): same edit, same replay
FRAMING = (8, 9, 35, 10)
SEG_ATTR = {'hdr': 'Header', 'body': 'Body', 'trl': 'Trailer'}
EDIT_WEIGHT = {'set': 5, 'setgrp': 1, 'append': 2, 'insert': 1, 'replace': 2, 'delete': 1.5, 'pop': 1}


def edit_sites(d, m):
    """every place of the message where something can be assigned: (segment key, path, entries there, the abstract values there)"""
    def walk(key, entries, seg, path):
        out = [(key, path, entries, seg)]
        for t, v in seg:
            e = fc.find_entry(entries, t)
            if v[0] == 'grp' and e is not None and e[0] == 'g':
                for i, inst in enumerate(v[1]):
                    out += walk(key, e[3], inst, path + [[t, i]])
        return out
    return [x for key in ('hdr', 'body', 'trl') for x in walk(key, d[key], m[key], [])]


def gen_edit(rng, d, m, deep_bias=True):
    """one in-place change of the message that holds `m` now; the depth is drawn first (uniformly over the depths present), so that a
    change two or three levels down is as likely as one at the top however many shallow places there are"""
    by_depth = {}
    for site in edit_sites(d, m):
        by_depth.setdefault(len(site[1]), []).append(site)
    for _ in range(8):
        depth = rng.choice(sorted(by_depth)) if deep_bias else len(rng.choice([x for v in by_depth.values() for x in v])[1])
        key, path, entries, seg = rng.choice(by_depth[depth])
        present = dict(seg)
        cands = []
        for j, e in enumerate(entries):
            t = e[1]
            if t in FRAMING or (key == 'hdr' and depth == 0 and t in STAMP_ORDER and rng.random() < 0.8):
                continue            # the session owns those (pre-set stamped fields are overwritten: now and then only)
            removable = t in present and not (e[3] if e[0] == 'f' else e[2]) and not (depth > 0 and j == 0)
            ops = ['set'] if e[0] == 'f' else ['setgrp']
            if e[0] == 'g' and t in present:
                ops += ['append', 'insert'] + (['replace', 'delete'] if present[t][1] else [])
            if removable:
                ops.append('pop')
            cands += [(op, e) for op in ops]
        if cands:
            break
    else:
        return None
    op, e = rng.choices(cands, weights=[EDIT_WEIGHT[c[0]] for c in cands])[0]
    t = e[1]
    ed = {'op': op, 'seg': key, 'path': [list(x) for x in path], 'tag': t, 'r': rng.randrange(1 << 30)}
    if op == 'set':
        old = present.get(t)
        new = fc.gen_prim(rng, e[2])
        for _ in range(5):
            if new != old:
                break
            new = fc.gen_prim(rng, e[2])
        ed['val'] = new
    elif op == 'setgrp':
        ed['op'] = 'set'
        n = rng.choice([0, 1, 1, 2, 3])
        ed['val'] = ('grp', [fc.gen_seg(rng, e[3], group=True, max_inst=2) for _ in range(n)])
    elif op in ('append', 'insert', 'replace'):
        n = len(present[t][1])
        ed['inst'] = fc.gen_seg(rng, e[3], group=True, max_inst=2)
        if op == 'insert':
            ed['idx'] = rng.randint(0, n)
        elif op == 'replace':
            ed['idx'] = rng.randrange(n)
    elif op == 'delete':
        ed['idx'] = rng.randrange(len(present[t][1]))
    return ed


def abs_target(m, ed):
    seg = m[ed['seg']]
    for gt, i in ed['path']:
        seg = next(v for k, v in seg if k == gt)[1][i]
    return seg


def apply_edit_abs(m, ed):
    """the edit on the abstract message (in place; the caller owns `m`): what the object must hold afterwards — written from what the
    assignments mean (a dict keeps the position of an existing key, a list is a list), not from the library"""
    seg = abs_target(m, ed)
    op, t = ed['op'], ed['tag']
    if op == 'set':
        v = copy.deepcopy(ed['val'])
        for i, (k, _) in enumerate(seg):
            if k == t:
                seg[i] = (t, v)
                break
        else:
            seg.append((t, v))
    elif op == 'pop':
        seg[:] = [x for x in seg if x[0] != t]
    else:
        insts = next(v for k, v in seg if k == t)[1]
        if op == 'append':
            insts.append(copy.deepcopy(ed['inst']))
        elif op == 'insert':
            insts.insert(ed['idx'], copy.deepcopy(ed['inst']))
        elif op == 'replace':
            insts[ed['idx']] = copy.deepcopy(ed['inst'])
        elif op == 'delete':
            del insts[ed['idx']]
        else:
            raise ValueError(op)


def real_container(built, holder, gt, rnd, is_msg=False):
    """the GroupContainer of group `gt` of a segment / instance (or of the message itself, for its body), reached in one of the
    spellings the API offers"""
    cname = None
    try:
        cname = type(holder.Body if is_msg else holder).TagNameMapping[gt]        # the container's class name
    except Exception:  # noqa
        pass
    c = rnd.randrange(2 if is_msg else 5)
    if is_msg or c >= 3:
        return getattr(holder, cname if (c % 2 and cname) else built.name[gt])
    return holder[gt] if c == 0 else holder[str(gt)] if c == 1 else holder[built.name[gt]]


def apply_edit_real(built, msg, ed):
    """the edit on the REAL message object, in place: no assignment on any enclosing object"""
    rnd = random.Random(ed['r'])
    obj = getattr(msg, SEG_ATTR[ed['seg']])
    first = ed['seg'] == 'body'
    for gt, i in ed['path']:
        cont = real_container(built, msg, gt, rnd, True) if first and rnd.random() < 0.3 else real_container(built, obj, gt, rnd)
        obj = cont[i] if rnd.random() < 0.7 else cont.groups[i]
        first = False
    op, t = ed['op'], ed['tag']
    if op == 'set':
        val = fc.py_value(ed['val'], built, rnd.random() < 0.4)
        c = rnd.randrange(5 if first else 4)
        if c == 0:
            obj[t] = val
        elif c == 1:
            obj[built.name[t]] = val
        elif c == 2:
            setattr(obj, built.name[t], val)
        elif c == 3:
            obj[str(t)] = val
        else:
            setattr(msg, built.name[t], val)             # `msg.<BodyField> = value`
        return
    if op == 'pop':
        if rnd.random() < 0.5:
            obj.values.pop(t)
        else:
            del obj.values[t]
        return
    cont = real_container(built, msg, t, rnd, True) if first and rnd.random() < 0.3 else real_container(built, obj, t, rnd)
    if op == 'delete':
        if rnd.random() < 0.5:
            del cont.groups[ed['idx']]
        else:
            cont.groups.pop(ed['idx'])
        return
    gcls = type(cont).GroupCls
    if rnd.random() < 0.6:
        g = gcls.from_value(fc.py_value(('grp', [ed['inst']]), built, rnd.random() < 0.4)[0])
    else:
        g = gcls()                                        # built field by field
        fc.assign_segment(g, ed['inst'], built, rnd)
    if op == 'append':
        cont.groups.append(g)
    elif op == 'insert':
        cont.groups.insert(ed['idx'], g)
    elif op == 'replace':
        if rnd.random() < 0.5:
            cont[ed['idx']] = g
        else:
            cont.groups[ed['idx']] = g
    else:
        raise ValueError(op)


def edit_json(ed):
    out = {k: ed[k] for k in ('op', 'seg', 'path', 'tag', 'r')}
    if 'idx' in ed:
        out['idx'] = ed['idx']
    if 'val' in ed:
        out['val'] = sx(fc.val_sx(ed['val']))
    if 'inst' in ed:
        out['inst'] = sx(fc.seg_sx(ed['inst']))
    return out


def edit_from_json(j):
    ed = {k: j[k] for k in ('op', 'seg', 'path', 'tag', 'r')}
    if 'idx' in j:
        ed['idx'] = j['idx']
    if 'val' in j:
        ed['val'] = fc.val_from_parsed(parse_sx(j['val'])[0])
    if 'inst' in j:
        ed['inst'] = fc.seg_from_parsed(parse_sx(j['inst'])[0])
    return ed


def edit_sx(ed):
    """the edit as the model's `fix.resend` reads it"""
    head = [ed['op'], ed['seg'], [list(x) for x in ed['path']], ed['tag']]
    if ed['op'] == 'set':
        return head + [fc.val_sx(ed['val'])]
    if ed['op'] in ('insert', 'replace'):
        return head + [ed['idx'], fc.seg_sx(ed['inst'])]
    if ed['op'] == 'append':
        return head + [fc.seg_sx(ed['inst'])]
    if ed['op'] == 'delete':
        return head + [ed['idx']]
    return head


def edit_from_sx(p, r=0):
    """an edit as the model prints it (`fix.witness.resend`)"""
    ed = {'op': p[0], 'seg': p[1], 'path': [[int(t), int(i)] for t, i in p[2]], 'tag': int(p[3]), 'r': r}
    if p[0] == 'set':
        ed['val'] = fc.val_from_parsed(p[4])
    elif p[0] == 'append':
        ed['inst'] = fc.seg_from_parsed(p[4])
    elif p[0] in ('insert', 'replace'):
        ed['idx'], ed['inst'] = int(p[4]), fc.seg_from_parsed(p[5])
    elif p[0] == 'delete':
        ed['idx'] = int(p[4])
    return ed


def witness_plans(ctx):
    """the re-send histories of Props/C14Resend.lean / Witness/C14Resend.lean, printed by the driver from the Lean terms themselves,
    as sessions: the implementation must write the frames the model's `run` gives (and not those of the remembered-bytes variant)"""
    if not ctx.driver.available:
        return []
    try:
        parts = parse_sx(ctx.driver.ask(['fix.witness.resend'])[0])
        ver, sess, m = fc.txt(parts[0]), parts[2], fc.msg_from_parsed(parts[3])
        v = {b: a for a, b in VERSIONS.items()}[ver]
        plans = []
        for n, ops in enumerate(parts[4:]):
            d = dict(fc.mdef_from_parsed(parts[1]), name=fc.fresh_name())
            mdefs = [{'name': fc.fresh_name('Logon'), 'type': 'A', 'hdr': d['hdr'], 'body': [('f', 553, 'string', False)], 'trl': d['trl']},
                     {'name': fc.fresh_name('Heartbeat'), 'type': '0', 'hdr': d['hdr'], 'body': [], 'trl': d['trl']}, d]
            sends, edits, first = [], [], None
            for j, op in enumerate(ops):
                if op[0] != 'send':
                    edits.append(edit_from_sx(op, r=7 * n + j))
                    continue
                assert sends or not edits
                sends.append([d, copy.deepcopy(m), None, None] if not sends else [d, None, None, {'of': 0, 'edits': edits}])
                first, edits = (int(op[1]) if first is None else first), []
            logon = {'hdr': [(49, ('s', fc.txt(sess[3]))), (56, ('s', fc.txt(sess[2]))), (50, ('s', fc.txt(sess[1]))), (34, ('i', first - 1))],
                     'body': [], 'trl': []}
            plans.append({'mdefs': mdefs, 'v': v, 'logon': logon, 'sends': sends, 'bad': [], 'hb_wait': 0.0, 'nseg': 3})
            ctx.count('witness-history')
        return plans
    except Exception as e:  # noqa
        ctx.notes.append(f'witness histories not available from the driver: {err_name(e)}')
        return []


def edit_text(ed):
    where = ed['seg'] + ''.join(f'[{t}][{i}]' for t, i in ed['path'])
    if ed['op'] == 'set':
        return f'{where}[{ed["tag"]}] = {ed["val"]}'
    if ed['op'] == 'pop':
        return f'{where}.values.pop({ed["tag"]})'
    return f'{where}[{ed["tag"]}].{ed["op"]}({ed.get("idx", "")}{", " if "idx" in ed and "inst" in ed else ""}{ed.get("inst", "")})'


def stamped(d, m, sess, seq, time):
    """python-side simulation of the five header assignments of send_msg (independent of the library and the model)"""
    from c13 import upsert
    h = list(m['hdr'])
    tags = {e[1] for e in d['hdr']}
    for t, v in ((50, ('s', sess[0])), (56, ('s', sess[1])), (49, ('s', sess[2])), (34, ('i', seq)), (52, ('s', time))):
        if t in tags:
            upsert(h, t, v)
    # `_prepare_complete_msg` removes the framing fields the message itself carries before it serialises it
    return {'hdr': [x for x in h if x[0] not in (8, 9, 35)], 'body': m['body'], 'trl': [x for x in m['trl'] if x[0] != 10]}


def ref_frame(ver, d, m):
    """independent recomputation of the complete frame for the (already stamped) message"""
    body = b'35=' + d['type'].encode('ascii') + SOH + fc.ref_encode(d, m)
    head = b'8=' + ver.encode('ascii') + SOH + b'9=' + str(len(body)).encode() + SOH
    total = sum(head) + sum(body)
    return head + body + b'10=' + ('%03d' % (total % 256)).encode() + SOH


def structural_check(frame, ver, ty):
    """the statement of C14, parsed from the bytes alone; returns None or a description of what is wrong"""
    pre = b'8=' + ver.encode() + SOH + b'9='
    if not frame.startswith(pre):
        return f'does not start with 8={ver}|9='
    i = len(pre)
    j = frame.find(SOH, i)
    digits = frame[i:j]
    if j < 0 or not digits.isdigit() or (len(digits) > 1 and digits[:1] == b'0'):
        return f'BodyLength is not a plain decimal number: {digits!r}'
    n = int(digits)
    body_start = j + 1
    if not frame[body_start:].startswith(b'35=' + ty.encode() + SOH):
        return f'BodyLength field is not followed by 35={ty}'
    tail = frame[body_start + n:]
    if tail.startswith(b'10=') and tail.endswith(SOH) and tail.count(SOH) == 1 and (len(tail) != 7 or not tail[3:6].isdigit()):
        return f'CheckSum field {tail!r} is not three decimal digits'
    if len(tail) != 7 or not tail.startswith(b'10=') or not tail.endswith(SOH) or not tail[3:6].isdigit():
        return (f'BodyLength {n} is not the number of bytes between the BodyLength field and the CheckSum field '
                f'(what follows those {n} bytes is {tail[:12]!r})')
    if int(tail[3:6]) != sum(frame[:body_start + n]) % 256:
        return f'CheckSum {tail[3:6]!r} != byte sum of everything before it mod 256 = {sum(frame[:body_start + n]) % 256}'
    return None


def diff_at(got, exp, ctx_bytes=40):
    """the neighbourhood of the first byte in which two frames differ"""
    n = next((i for i, (a, b) in enumerate(zip(got, exp)) if a != b), min(len(got), len(exp)))
    lo = max(0, n - ctx_bytes)
    return f'first difference at byte {n}: got …{got[lo:n + ctx_bytes]!r}… expected …{exp[lo:n + ctx_bytes]!r}… (lengths {len(got)} / {len(exp)})'


def time_of(frame):
    i = frame.find(SOH + b'52=')
    if i < 0:
        return ''
    j = frame.find(SOH, i + 1)
    return frame[i + 4:j].decode('ascii', 'replace')


def pad_to(rng, ver, d, m, sess, seq, target_body_len):
    """choose the length of the Text(58) padding so that BodyLength hits `target_body_len` exactly (if reachable)"""
    def blen(mm):
        st = stamped(d, mm, sess, seq, '20260101-00:00:00')
        return len(b'35=' + d['type'].encode() + SOH + fc.ref_encode(d, st))
    base = {'hdr': m['hdr'], 'body': [(t, v) for t, v in m['body'] if t != 58], 'trl': m['trl']}
    if 52 not in {e[1] for e in d['hdr']}:
        pass
    b0 = blen(base)
    need = target_body_len - b0 - 4            # "58=" + text + SOH
    if need < 0:
        return None
    text = ''.join(rng.choice(fc.PRINTABLE) for _ in range(need))
    body = list(base['body'])
    body.insert(rng.randint(0, len(body)), (58, ('s', text)))
    out = {'hdr': m['hdr'], 'body': body, 'trl': m['trl']}
    return out if blen(out) == target_body_len else None


def segmentations(rng, data, n):
    out = []
    for _ in range(n):
        c = rng.random()
        if c < 0.15 and len(data) <= 1200:
            cuts = list(range(1, len(data)))                     # byte by byte
        elif c < 0.3:
            cuts = []
        else:
            k = rng.randint(1, max(1, min(12, len(data) // 3)))
            cuts = sorted(set(rng.randrange(1, len(data)) for _ in range(k))) if len(data) > 1 else []
        segs, last = [], 0
        for c_ in cuts:
            segs.append(data[last:c_])
            last = c_
        segs.append(data[last:])
        out.append(segs)
    return out


# ------------------------------------------------------------------ one session on the virtual loop
def run_session(v, built, mdefs, logon_d, logon_a, reply, sends, bad_sends, hb_wait, seg_lists):
    """returns dict: frames written (bytes list), outcome per send, read-back results per segmentation.
    `sends`: (d, m, re) — `re` None: a message object built from `m`; otherwise the object send number re['of'] built, changed in
    place by re['edits'], sent again.  `snaps[k]`: deep images of the message (`as_collection()`: plain dicts / lists / values,
    nothing shared with the object, no `to_bytes` involved) right before and right after the k-th `send_msg`."""
    from nasdaq_protocols import fix
    loop = vloop.VirtualLoop()
    res = {'frames': [], 'send_outcomes': [], 'bad_outcomes': [], 'readback': [], 'error': None, 'snaps': []}

    def image(msg):
        try:
            return msg.as_collection()
        except Exception as e:  # noqa
            return ('raises', err_name(e))

    async def main():
        tr = vloop.FakeTransport(loop)
        s = session_cls(v)(client_heartbeat_interval=HB, server_heartbeat_interval=1000.0)
        s.connection_made(tr)
        logon = fc.make_message(built, logon_d, logon_a)
        pre = image(logon)
        t = asyncio.ensure_future(s.login(logon))
        await vloop.turns(3)
        s.data_received(reply)
        await asyncio.wait_for(t, 5.0)
        res['snaps'].append((pre, image(logon)))
        objs = {}
        for i, (d, m, re_) in enumerate(sends):
            n0 = len(tr.writes)
            pre = None
            try:
                if re_ is None:
                    msg = objs[i] = fc.make_message(built, d, m)
                else:
                    msg = objs[re_['of']]
                    for ed in re_['edits']:
                        apply_edit_real(built, msg, ed)
                pre = image(msg)
                s.send_msg(msg)
                res['send_outcomes'].append(('ok', len(tr.writes) - n0))
                res['snaps'].append((pre, image(msg)))
            except Exception as e:  # noqa
                res['send_outcomes'].append(('err', err_name(e) + ('' if pre is not None else ' (while building / editing the message)'),
                                             len(tr.writes) - n0))
                res['snaps'].append((pre, None))
        n_before_hb = len(tr.writes)
        await asyncio.sleep(hb_wait)
        res['n_heartbeats'] = len(tr.writes) - n_before_hb
        for d, m in bad_sends:
            n0 = len(tr.writes)
            try:
                msg = fc.make_message(built, d, m)
                pre_b = image(msg)
                s.send_msg(msg)
                # round 9 (C14m): a send the model refuses went through — what was written must still read back as what was sent
                rb = None
                if len(tr.writes) - n0 == 1:
                    try:
                        rd = fix.FixMessageReader('rxb', None, None)
                        rd._task.cancel()
                        rd.on_data(tr.writes[-1][1])
                        back, _stop, _skip = rd.deserialize()
                        rb = (None if back is None else image(back), bytes(rd._buffer))
                    except Exception as e:  # noqa
                        rb = (('raises', err_name(e)), b'')
                res['bad_outcomes'].append(('ok', len(tr.writes) - n0, pre_b, rb, tr.writes[-1][1] if len(tr.writes) > n0 else b''))
            except Exception as e:  # noqa
                res['bad_outcomes'].append(('err ' + err_name(e), len(tr.writes) - n0))
        res['frames'] = [b for _, b in tr.writes]
        await s.close()
        # ---- read back through the library's own reader (deserialize called directly; the polling task is C03's business)
        async def on_msg(_m):
            return None

        async def on_close():
            return None
        for segs in seg_lists(res['frames']):
            rd = fix.FixMessageReader('rx', on_msg, on_close)
            rd._task.cancel()
            out, err = [], None
            try:
                for sg in segs:
                    rd.on_data(sg)
                    while True:
                        before = bytes(rd._buffer)
                        msg, stop, skip = rd.deserialize()
                        if msg is None:
                            break
                        out.append((before[:len(before) - len(rd._buffer)], msg, stop, skip))
            except Exception as e:  # noqa
                err = err_name(e)
            res['readback'].append((segs, out, err, bytes(rd._buffer)))
            await vloop.turns(1)

    try:
        with fc.time_limit(60):
            loop.run(main())
    except Exception as e:  # noqa
        res['error'] = f'{err_name(e)}: {e!r}'[:300]
    finally:
        try:
            loop.shutdown()
        except Exception:  # noqa
            pass
    return res


def expected_collection(ver, d, m_stamped, frame):
    """what the reader must deliver for this frame: the sent message plus the four framing fields"""
    n = len(frame) - 7 - len(b'8=' + ver.encode() + SOH) - len(b'9=')
    j = frame.find(SOH, len(b'8=' + ver.encode() + SOH))
    blen = int(frame[len(b'8=' + ver.encode() + SOH) + 2:j])
    c = fc.canon_msg(d, m_stamped)
    return {'hdr': [(8, ('s', ver)), (9, ('i', blen)), (35, ('s', d['type']))] + c['hdr'],
            'body': c['body'],
            'trl': c['trl'] + [(10, ('s', frame[-4:-1].decode()))]}


# ------------------------------------------------------------------ run
def run(ctx):
    rng = ctx.rng
    quick = ctx.tier == 'quick'
    n_dict = 960 if quick else 8000
    ctx.cov['rule'] = ('sessions (Fix44Session / Fix50Session) x generated dictionaries (standard header, random bodies with nested groups) x '
                       'logon MsgSeqNum chosen next to 9/99/999/… x comp-id lengths x user messages (padding chosen so that BodyLength '
                       'lands on 99/100/999/1000/9999/10000, large group payloads) x automatic heartbeats; every written frame is one case; '
                       'distinct = distinct frame bytes; read back under random segmentations (incl. byte by byte); '
                       're-send histories (45% of the sessions over dictionaries with groups nested 2-3 deep, now and then elsewhere): one '
                       'message object sent 2-6 times with 0-3 in-place edits before each re-send — set / pop a field, assign a whole group '
                       'list, append / insert / replace / delete an instance — at depth 0 (header, body, trailer), 1, 2, 3 (depth drawn '
                       'uniformly), other objects sent in between; every frame judged against a deep image of the object taken at that send '
                       'and against the harness\' own simulation of the edits; the Lean witness histories (fix.witness.resend) run first')
    corpus = []
    cdir = os.path.join(common.VERIF, 'corpus', 'C14')
    if os.path.isdir(cdir):
        for f in sorted(os.listdir(cdir)):
            if f.endswith('.json'):
                corpus.append(json.load(open(os.path.join(cdir, f))))
    plans = [plan_from_replay(c) for c in corpus if c.get('kind') == 'session']
    run_plans(ctx, rng, plans + witness_plans(ctx))     # corpus and the Lean witness histories first (in this process)
    per = 40 if quick else 200                          # sessions per fresh worker process
    payloads = [{'count': min(per, n_dict - s0), 'quick': quick} for s0 in range(0, n_dict, per)]
    fc.run_chunks(ctx, 'c14', payloads)


def run_chunk(ctx, p):
    """one batch of generated sessions, in a fresh process (see fix_common.run_chunks)"""
    common.use_repo()
    run_plans(ctx, ctx.rng, [gen_plan(ctx.rng, p['quick']) for _ in range(p['count'])])


def run_plans(ctx, rng, plans):
    pending = []        # (model request line, expected answer, what, replay)

    def flush():
        if ctx.driver.available and pending:
            answers = ctx.driver.ask([p[0] for p in pending])
            for (line, expected, what, rep), a in zip(pending, answers):
                if a != expected:
                    ctx.disagree(f'{what}: model {a[:150]} vs implementation {expected[:150]}', rep)
        del pending[:]
    for i, plan in enumerate(plans):
        run_plan(ctx, rng, plan, pending)
        if i % 100 == 99:
            flush()
    flush()
    if not ctx.driver.available and 'model driver unavailable: oracle only' not in ctx.notes:
        ctx.notes.append('model driver unavailable: oracle only')


def session_ids(logon_a):
    """(SenderSubID, TargetCompID, SenderCompID) the session takes from the logon message, and its first sequence number"""
    hv = dict(logon_a['hdr'])
    return (hv[50][1] if 50 in hv else '', hv[56][1] if 56 in hv else '', hv[49][1] if 49 in hv else ''), (hv[34][1] if 34 in hv else 0)


def gen_plan(rng, quick):
    """a session: logon, then send items `[d, m, BodyLength target, re]` — `re` None: a new message object; otherwise
    {'of': index of the item that built the object, 'edits': in-place changes made before it is sent again} (m is None: what the
    object holds then follows from the history).  About half of the sessions are re-send histories over a dictionary with
    groups nested in groups; every other session re-sends now and then."""
    resend = rng.random() < 0.45
    mdefs = gen_dictionary(rng, nested=resend)
    v = rng.choice(['44', '50'])
    n_sends = rng.randint(2, 6)
    boundary = rng.choice([9, 99, 999, 9999, 99999, 999999, 99999999])
    c = rng.random()
    seq0 = None if c < 0.08 else max(0, boundary - rng.randint(0, n_sends)) if c < 0.75 else rng.randint(0, 10**rng.randint(1, 12))
    logon_d = mdefs[0]
    logon_a = gen_logon(rng, logon_d, seq0)
    apps = mdefs[2:]
    sess, _ = session_ids(logon_a)
    sends = []
    state = {}          # item index of a new object -> what that object holds now (SendingTime: a placeholder, no edit depends on it)
    for i in range(n_sends + (rng.randint(1, 3) if resend else 0)):
        if state and rng.random() < (0.7 if resend else 0.12):
            roots = sorted(state)
            deep = [r for r in roots if inst_depth(state[r]['body']) >= 2]
            root = rng.choice(deep) if deep and rng.random() < 0.6 else rng.choice(roots)
            d = sends[root][0]
            m = copy.deepcopy(state[root])
            edits = []
            for _ in range(rng.choice([0, 1, 1, 1, 2, 2, 3])):
                ed = gen_edit(rng, d, m, deep_bias=rng.random() < 0.8)
                if ed is None:
                    break
                apply_edit_abs(m, ed)
                edits.append(ed)
            sends.append([d, None, None, {'of': root, 'edits': edits}])
            state[root] = stamped(d, m, sess, 0, 'T')
            continue
        d = apps[0] if resend and not sends else rng.choice(apps)
        if resend and d is apps[0] and rng.random() < 0.8:
            m = gen_deep_message(rng, d, rng.choice([2, 2, 3]))
        else:
            m = gen_app_message(rng, d, big=rng.random() < 0.15)
        sends.append([d, m, rng.choice([None, None, 99, 100, 101, 999, 1000, 9999, 10000]), None])
        state[i] = stamped(d, m, sess, 0, 'T')
    bad = []
    for i in range(rng.randint(0, 2)):
        d = rng.choice(apps)
        m = gen_app_message(rng, d)
        kind = rng.choice(['missing-required', 'non-ascii'])
        if kind == 'missing-required':
            req = [e[1] for e in d['body'] if (e[3] if e[0] == 'f' else e[2])]
            if not req:
                continue
            drop = rng.choice(req)
            m['body'] = [(t, x) for t, x in m['body'] if t != drop]
        else:
            m['body'] = [(t, x) for t, x in m['body'] if t != 58] + [(58, ('s', 'caf\xe9'))]
        bad.append((d, m, kind))
    return {'mdefs': mdefs, 'v': v, 'logon': logon_a, 'sends': sends, 'bad': bad,
            'hb_wait': rng.choice([0.0, HB * 2.5, HB * 4.5]), 'nseg': 2 if quick else 4}


def plan_to_replay(plan, **extra):
    def item(d, m, re_):
        if re_ is None:
            return [plan['mdefs'].index(d), sx(fc.msg_sx(m))]
        return [plan['mdefs'].index(d), None, {'of': re_['of'], 'edits': [edit_json(e) for e in re_['edits']]}]
    return dict({'kind': 'session', 'v': plan['v'], 'reg': [sx(fc.mdef_sx(x)) for x in plan['mdefs']],
                 'logon': sx(fc.msg_sx(plan['logon'])),
                 'sends': [item(d, m, re_) for d, m, _, re_ in plan['sends']],
                 'hb_wait': plan['hb_wait']}, **extra)


def plan_from_replay(rep):
    mdefs = [fc.mdef_from_parsed(parse_sx(x)[0]) for x in rep['reg']]
    mdefs = [dict(x, name=fc.fresh_name()) for x in mdefs]

    def item(it):
        if len(it) > 2 and it[2] is not None:
            return [mdefs[it[0]], None, None, {'of': it[2]['of'], 'edits': [edit_from_json(e) for e in it[2]['edits']]}]
        return [mdefs[it[0]], fc.msg_from_parsed(parse_sx(it[1])[0]), None, None]
    return {'mdefs': mdefs, 'v': rep['v'], 'logon': fc.msg_from_parsed(parse_sx(rep['logon'])[0]),
            'sends': [item(it) for it in rep['sends']], 'bad': [],
            'hb_wait': rep.get('hb_wait', 0.0), 'nseg': 3}


def fresh_plan(plan):
    """the same plan with new class names (Message.Def is process-global)"""
    ren = {x['name']: fc.fresh_name() for x in plan['mdefs']}
    mdefs = [dict(x, name=ren[x['name']]) for x in plan['mdefs']]
    by = {x['name']: x for x in mdefs}
    return dict(plan, mdefs=mdefs, sends=[[by[ren[d['name']]], m, t, re_] for d, m, t, re_ in plan['sends']],
                bad=[(by[ren[d['name']]], m, k) for d, m, k in plan['bad']])


def reductions(plan, k):
    """smaller sessions that may still show what frame `k` showed, smallest first: the one item alone; for a re-send the object's
    first send followed by ONE re-send (with its own edits / with all edits made to the object so far), the object's own chain"""
    sends = plan['sends']
    n_user = 1 + len(sends)
    if k is None or k == 0:
        return [dict(plan, sends=[], bad=[], hb_wait=0.0)]
    if k >= n_user:
        return [dict(plan, sends=[], bad=[], hb_wait=HB * 2.5)]
    it = sends[k - 1]
    if it[3] is None:
        return [dict(plan, sends=[it], bad=[], hb_wait=0.0)] if len(sends) > 1 else []
    root = it[3]['of']
    chain = [i for i in range(k) if sends[i][3] is not None and sends[i][3]['of'] == root]
    first = list(sends[root])

    def again(edits):
        return [it[0], None, None, {'of': 0, 'edits': list(edits)}]
    out = [[first, again(it[3]['edits'])], [first, again([e for i in chain for e in sends[i][3]['edits']])],
           [first] + [again(sends[i][3]['edits']) for i in chain]]
    return [dict(plan, sends=x, bad=[], hb_wait=0.0) for x in out if len(x) < len(sends) or x is out[0]]


def fewer_edits(plan):
    """the last re-send of a reduced plan with one edit left out, for every edit"""
    if not plan['sends'] or plan['sends'][-1][3] is None:
        return []
    it = plan['sends'][-1]
    eds = it[3]['edits']
    return [dict(plan, sends=plan['sends'][:-1] + [[it[0], None, None, dict(it[3], edits=eds[:j] + eds[j + 1:])]])
            for j in range(len(eds))]


class ProbeCtx:
    """stands in for ctx while a reduced session is tried during minimisation"""
    def __init__(self):
        self.notes = []

    def case(self, *a, **k):
        pass

    def count(self, *a, **k):
        pass

    def disagree(self, *a, **k):
        pass


def run_plan(ctx, rng, plan, pending):
    """run one session; a failure is first reduced to the shortest session that still shows the same finding"""
    found = []
    try:
        run_plan_inner(ctx, rng, plan, pending, found)
    except Exception as e:  # noqa — frames of a shape the analysis cannot even take apart: an observation about the library, not a crash
        if not found:
            found.append((f'the session wrote frames the analysis could not take apart ({err_name(e)}: {e!s:.100})',
                          dict(plan_to_replay(plan), finding='analysis-raises')))
    if not found:
        return
    what, rep = found[0]
    finding, k = rep.get('finding'), rep.get('frame_index')

    def probe(cand):
        f2 = []
        try:
            run_plan_inner(ProbeCtx(), random.Random(1), fresh_plan(cand), [], f2)
        except Exception:  # noqa
            return None
        return [x for x in f2 if x[1].get('finding') == finding] or None
    for cand in (reductions(plan, k) if len(getattr(ctx, 'violations', ())) < 3 else []):     # the first few are worth the time
        same = probe(cand)
        if same:
            found = same + [x for x in found if x[1].get('finding') != finding]
            if any(it[2] is not None for it in cand['sends']):          # without the padding towards a BodyLength boundary
                c2 = dict(cand, sends=[[it[0], it[1], None, it[3]] for it in cand['sends']])
                s2 = probe(c2)
                if s2:
                    cand, found = c2, s2 + found[len(same):]
                    same = s2
            for _ in range(6):                      # leave out edits the finding does not need
                for c2 in fewer_edits(cand):
                    s2 = probe(c2)
                    if s2:
                        cand, found = c2, s2 + found[len(same):]
                        same = s2
                        break
                else:
                    break
            break
    for what, rep in found[:6]:
        report(ctx, what, rep)


def run_plan_inner(ctx, rng, plan, pending, found):
    mdefs, v = plan['mdefs'], plan['v']
    ver = VERSIONS[v]
    logon_d, hb_d = mdefs[0], mdefs[1]
    logon_a = plan['logon']
    sess, seq0 = session_ids(logon_a)
    # padding towards BodyLength boundaries (needs the sequence number each message will get)
    sends = []
    for i, (d, m, target, re_) in enumerate(plan['sends']):
        if target is not None and re_ is None:
            m2 = pad_to(rng, ver, d, m, sess, seq0 + 1 + i, target)
            if m2 is not None:
                m = m2
        sends.append((d, m, re_))
    plan = dict(plan, sends=[[d, m, None, re_] for d, m, re_ in sends])
    rep_base = plan_to_replay(plan)
    try:
        built = fc.build_dictionary(mdefs)
    except Exception as e:  # noqa
        found.append((f'defining the dictionary classes raised {err_name(e)}', dict(rep_base, finding='dictionary')))
        return
    # the peer's logon reply: any frame of the logon class (built with the reference encoder)
    reply_m = stamped(logon_d, {'hdr': [], 'body': [], 'trl': []}, ('', sess[2], sess[1]), 1, '20260101-00:00:00')
    reply = ref_frame(ver, logon_d, reply_m)
    nseg = plan['nseg']

    def seg_lists(frames):
        data = b''.join(frames)
        out = segmentations(rng, data, nseg) if data else []
        if frames:
            k = rng.randrange(len(frames))
            out += segmentations(rng, frames[k], 1)
        return out
    res = run_session(v, built, mdefs, logon_d, logon_a, reply, sends, [(d, m) for d, m, _ in plan['bad']], plan['hb_wait'], seg_lists)
    if res['error']:
        found.append((f'driving the session failed: {res["error"]}', dict(rep_base, finding='session-error')))
        return
    frames = res['frames']
    md_sx = {x['name']: sx(fc.mdef_sx(x)) for x in mdefs}
    reg_sx = '(' + ' '.join(md_sx[x['name']] for x in mdefs) + ')'
    sess_sx = '(sess ' + sx(cps(sess[0])) + ' ' + sx(cps(sess[1])) + ' ' + sx(cps(sess[2])) + ')'
    n_user = 1 + len(sends)
    for i, oc in enumerate(res['send_outcomes']):
        if oc[0] != 'ok' or oc[1] != 1:
            found.append((f'sending a valid message: {oc}', dict(rep_base, finding='send-raises', frame_index=i + 1)))
            return
    # which message does frame k carry?  A new object: what it was built from; a re-send: what the object held after its previous
    # send (stamped header, SendingTime as read from that frame) with the edits applied — the harness' own simulation
    carried = [(logon_d, logon_a)]
    holds = {}              # item index of a new object -> what it holds after its latest send
    history = {}            # the same -> [first message, ops…] of the object's life so far (for the model's `fix.resend`)
    expected_frames = n_user + res.get('n_heartbeats', 0)
    good_frames = frames[:expected_frames]
    ctx.count('heartbeats', res.get('n_heartbeats', 0))
    stamped_msgs = []
    snap_msgs = []
    for k, frame in enumerate(good_frames):
        seq = seq0 + k
        time = time_of(frame)
        root = None
        if 1 <= k < n_user:
            d, m, re_ = sends[k - 1]
            root = k - 1 if re_ is None else re_['of']
            if re_ is not None:
                m = copy.deepcopy(holds[root])
                for ed in re_['edits']:
                    apply_edit_abs(m, ed)
                    ctx.count(f'edit:{ed["op"]}:{"group" if ed.get("val", ("",))[0] == "grp" else "field"}:depth{len(ed["path"])}:{ed["seg"]}'
                              if ed['op'] in ('set', 'pop') else f'edit:{ed["op"]}:depth{len(ed["path"])}:{ed["seg"]}')
                ctx.count('resend:%d-edits:instances-%d-deep' % (len(re_['edits']), inst_depth(m['body'])))
                history[root] += [edit_sx(ed) for ed in re_['edits']]
            else:
                history[root] = [m]
            history[root].append(['send', seq, cps(time)])
            carried.append((d, m))
        d, m = carried[k] if k < n_user else (hb_d, {'hdr': [], 'body': [], 'trl': []})
        origin = ''
        if root is not None and sends[k - 1][2] is not None:
            eds = sends[k - 1][2]['edits']
            origin = (f' (the message object of frame {root + 1} sent again after ' +
                      ('; '.join(edit_text(e)[:120] for e in eds[:3]) if eds else 'no change') + (' …' if len(eds) > 3 else '') + ')')
        st = stamped(d, m, sess, seq, time)
        if root is not None:
            holds[root] = st
        stamped_msgs.append((d, st))
        rep = dict(rep_base, frame_index=k, frame=frame.hex())
        crep = frame.hex()
        ctx.case(crep if len(crep) < 500 else crep[:500] + '…', nontrivial=True, sample_every=53)
        ctx.count('frame:' + ('logon' if k == 0 else 'user' if k < n_user else 'heartbeat') + ':' + v)
        # ---- oracle
        why = structural_check(frame, ver, d['type'])
        if why:
            found.append((f'frame {k} ({d["type"]}): {why}', dict(rep, finding='frame-shape')))
        ref = ref_frame(ver, d, st)
        if frame != ref:
            found.append((f'frame {k}{origin} differs from the independent recomputation: {diff_at(frame, ref)}',
                          dict(rep, finding='frame-bytes')))
        j = frame.find(SOH, len(b'8=' + ver.encode() + SOH))
        digits = frame[len(b'8=' + ver.encode() + SOH) + 2:j]
        if digits.isdigit():
            n = int(digits)
            ctx.count('bodylength-digits:%d' % len(digits))
            if n in (9, 10, 99, 100, 999, 1000, 9999, 10000):
                ctx.count('bodylength-boundary:%d' % n)
        ck = frame[-4:-1]
        if ck.isdigit():
            ctx.count('checksum:' + ('<10' if int(ck) < 10 else '<100' if int(ck) < 100 else '>=100'))
        # ---- model
        line = f'fix.frame {sx(cps(ver))} {md_sx[d["name"]]} {sess_sx} {seq} {sx(cps(time))} {sx(fc.msg_sx(m))}'
        pending.append((line, f'ok {sx(frame)} {sx(fc.msg_sx(st))}', f'fix.frame (frame {k}, type {d["type"]})', rep))
        # the message object right before the send (after the in-place edits) and as mutated by send_msg: deep images taken then
        snap_msgs.append(None)
        if k < n_user:
            try:
                pre, post = res['snaps'][k]
                if fc.msg_of_collection(d, pre) != m:
                    ctx.disagree(f'frame {k}: before the send the message object held {fc.msg_of_collection(d, pre)}, the assignments / '
                                 f'in-place edits made to it say {m}', dict(rep, finding='object-state'))
                coll = fc.msg_of_collection(d, post)
                snap_msgs[-1] = coll
                if coll != st:
                    found.append((f'frame {k}: header stamping left {coll["hdr"]} expected {st["hdr"]}' if coll['hdr'] != st['hdr'] else
                                  f'frame {k}: after the send the message holds {coll}, expected {st}', dict(rep, finding='stamping')))
                # ---- the frame against the message AS IT WAS at this send (the deep image, not the harness' simulation)
                ref2 = ref_frame(ver, d, coll)
                if frame != ref2 and ref2 != ref:
                    found.append((f'frame {k}{origin} does not carry what the message object held when it was sent: {diff_at(frame, ref2)}',
                                  dict(rep, finding='frame-bytes')))
            except Exception as e:  # noqa
                found.append((f'frame {k}: as_collection of the sent message raised {err_name(e)}', dict(rep, finding='stamping')))
    # ---- the model on whole object histories: first message, edits and sends in order -> the frames of that object, what it holds
    for root, h in sorted(history.items()):
        if sum(1 for x in h[1:] if x[0] == 'send') < 2 or not HISTORY_OP:
            continue
        d = sends[root][0]
        ks = [1 + i for i in range(len(sends)) if (i == root or (sends[i][2] is not None and sends[i][2]['of'] == root))]
        ks = [k for k in ks if k < len(good_frames)]
        line = f'fix.resend {sx(cps(ver))} {md_sx[d["name"]]} {sess_sx} {sx(fc.msg_sx(h[0]))} {sx(h[1:])}'
        exp = 'ok (' + ' '.join(sx(good_frames[k]) for k in ks) + ') ' + sx(fc.msg_sx(holds[root]))
        pending.append((line, exp, f'fix.resend (object of send {root + 1}: {len(ks)} sends)', dict(rep_base, frame_index=ks[-1])))
        ctx.count('model:fix.resend:%d-sends' % min(len(ks), 5))
    # ---- sends that must fail (agreement only)
    for (d, m, kind), oc in zip(plan['bad'], res['bad_outcomes']):
        ctx.count(f'bad-send:{kind}:{oc[0]}')
        line = f'fix.frame {sx(cps(ver))} {md_sx[d["name"]]} {sess_sx} {seq0 + expected_frames} {sx(cps("20260101-00:00:00"))} {sx(fc.msg_sx(m))}'
        exp = oc[0] if oc[0].startswith('err') else None
        if exp is not None:
            pending.append((line, exp, f'fix.frame on a {kind} message', dict(rep_base, bad=sx(fc.msg_sx(m)))))
        if oc[0] == 'ok':
            # the library sent a message the model refuses: the correspondence is broken (reported through the model line below),
            # and the property itself is checked on the frame: one frame, read back by the library's reader as what was sent
            pending.append((line, 'ok', f'fix.frame on a {kind} message the library sent', dict(rep_base, bad=sx(fc.msg_sx(m)))))
            pre_b, rb, fr = oc[2], oc[3], oc[4]
            def body_of(c):
                return c.get('body') if isinstance(c, dict) else c
            if oc[1] != 1:
                found.append((f'a {kind} message was sent as {oc[1]} frames', dict(rep_base, bad=sx(fc.msg_sx(m)), finding='bad-send-frames')))
            elif rb is None or rb[0] is None or rb[1] or body_of(rb[0]) != body_of(pre_b):
                found.append((f'a {kind} message was written as {fr.hex()} which the library\'s reader does not read back as what was sent: '
                              f'sent body {str(body_of(pre_b))[:200]}  read {str(None if rb is None else body_of(rb[0]))[:200]}',
                              dict(rep_base, bad=sx(fc.msg_sx(m)), frame=fr.hex(), finding='bad-send-readback')))
        if oc[1] != 0 and oc[0].startswith('err'):
            found.append((f'a send that raised ({oc[0]}) still wrote {oc[1]} frame(s)', dict(rep_base, finding='write-on-error')))
    # ---- read back
    by_name = {x['name']: x for x in mdefs}
    all_frames = frames
    for segs, out, err, left in res['readback']:
        single = b''.join(segs) != b''.join(all_frames)
        want = [b''.join(segs)] if single else all_frames
        rep = dict(rep_base, segments=[s.hex() for s in segs])
        ctx.count('readback:' + ('single-frame' if single else 'whole-session') + ':segments' + str(min(len(segs), 9)) + ('+' if len(segs) >= 9 else ''))
        if err:
            found.append((f'reader raised {err} on frames the session wrote', dict(rep, finding='readback-raises')))
            continue
        got = [o[0] for o in out]
        if got != want or left:
            found.append((f'reader framed {len(got)} message(s) / {len(left)} bytes left, expected exactly the {len(want)} frame(s) written',
                   dict(rep, finding='readback-framing')))
            continue
        pending.append((f'fix.feed {sx([bytes(s) for s in segs])}', 'ok (' + ' '.join(sx(f) for f in want) + ') x',
                        'fix.feed (cut points under segmentation)', rep))
        if single:
            continue
        for k, (fr, msg, stop, skip) in enumerate(out):
            if k >= len(stamped_msgs):
                break
            d, st = stamped_msgs[k]
            try:
                name = type(msg).Name
                coll = fc.msg_of_collection(by_name[name], msg.as_collection())
            except Exception as e:  # noqa
                found.append((f'read-back frame {k}: cannot take the collection ({err_name(e)})', dict(rep, finding='readback-decode')))
                continue
            try:
                exp = expected_collection(ver, d, st, fr)
            except Exception as e:  # noqa
                found.append((f'read-back frame {k}: not of the shape 8=<version>|9=<n>|… ({err_name(e)})', dict(rep, finding='readback-decode', frame=fr.hex())))
                continue
            if name != d['name'] or coll != exp:
                found.append((f'read-back frame {k}: decoded {name} {coll} != sent {d["name"]} {exp}',
                              dict(rep, finding='readback-decode', frame=fr.hex(), frame_index=k)))
            elif k < len(snap_msgs) and snap_msgs[k] is not None and snap_msgs[k] != st:
                # equal to what was SENT: the deep image of the object taken at the send
                exp2 = expected_collection(ver, d, snap_msgs[k], fr)
                if coll != exp2:
                    found.append((f'read-back frame {k}: decoded {coll} != what the message object held when it was sent {exp2}',
                                  dict(rep, finding='readback-decode', frame=fr.hex(), frame_index=k)))
            if skip != (d['type'] == '0') or stop != (d['type'] == '5'):
                found.append((f'read-back frame {k}: heartbeat/logout flags wrong', dict(rep, finding='readback-decode')))
            pending.append((f'fix.deser {reg_sx} {sx(fr)}', f'ok {sx(cps(name))} {sx(fc.msg_sx(coll))} x',
                            f'fix.deser (frame {k})', dict(rep, frame=fr.hex())))


# ------------------------------------------------------------------ replay
def replay(ctx, path):
    r = json.load(open(path))
    rep = r.get('replay') or (r.get('no_longer_checks') or [{}])[-1].get('case') or {}
    ctx.cov['rule'] = 'replay of ' + path
    ctx.case('replay-marker')
    if rep.get('kind') != 'session':
        print('nothing to replay in', path)
        return
    plan = plan_from_replay(rep)
    pending = []
    # process history matters for class-level state: in a run, sessions of both versions share one process; the replay therefore
    # first lets a session of the OTHER version log on (its findings, if any, are reported too)
    other = dict(fresh_plan(plan), v='50' if plan['v'] == '44' else '44', sends=[], bad=[], hb_wait=0.0)
    run_plan(ctx, ctx.rng, other, [])
    run_plan(ctx, ctx.rng, plan, pending)
    print('session', VERSIONS[plan['v']], 'logon', plan['logon'])
    if 'frame' in rep:
        print('frame recorded in the replay:', bytes.fromhex(rep['frame']))
    if ctx.driver.available and pending:
        answers = ctx.driver.ask([p[0] for p in pending])
        for (line, expected, what, rp), a in zip(pending, answers):
            print(what, '\n  implementation:', expected[:300], '\n  model         :', a[:300])
            if a != expected:
                ctx.disagree(f'{what}: model {a[:150]} vs implementation {expected[:150]}', rp)
