"""C16 — code generated from a FIX dictionary implements exactly that dictionary.

One case = one dictionary.  The dictionary is written as XML into a temp directory (outside /verif and /repo, removed afterwards) and
a fresh worker process (harness/c16_worker.py; the generator's and fix.core's registries are process-global, output files are
opened in append mode) runs the real `parse` + `Generator` — or the click command of fix/codegen.py — imports the generated package
and introspects it: field classes (Tag, FieldType, Values), group classes in definition order with their Entries, segment classes,
message classes (Type, Category, segments), the session base class; then builds, encodes, decodes, validates and frames messages.
Besides single dictionaries there are *interleaved groups*: 2..3 dictionaries (any versions) whose generators are constructed and
run in ONE process at the granularity of the generator API — `construct i` (parse + Generator(...)) and `generate i` in any
interleaving, as a build script that prepares all generators and then writes them does —; every package is then introspected in a
process of its own and judged against its own dictionary exactly like a single case.  In half of the groups ONE parse() result
(one `Definitions` object) is handed to 2..3 generators (`['c', i, s]`: own app name / prefix / package directory, no second
parse; before or after the first one's generate(), other dictionaries' steps in between): every one of those packages must
implement the dictionary.
The dictionary generator draws enumerated values over printable ASCII (`< > & " ' \\`, space, braces, entity look-alikes … —
whatever is a value of the field's type) and reuses group names systematically: one group used 2..3 times (two messages, message
+ component, header …) with definitions that are identical or differ in exactly ONE thing — the required flag of a field entry,
of a nested <group> element, of the group itself, the order of two entries, the content of the group or of a nested group.

 * correspondence: the same dictionary goes to the Lean model (drv_C16): `gen.fix` (abstract generated code: class names incl. the
   unique group names, entry references, order of the groups module) and `gen.load` (references followed) are diffed with the
   introspection; malformed dictionaries are compared on the error class only; the type tables and the keyword list are diffed too.
 * oracle (no model): the property statement on the implementation — package imports; one field class per field with tag and value
   type, whose `Values` and constants are the dictionary's enumerated values verbatim; header/body/trailer entries = the dictionary's
   entries with components expanded in place (own Python reference expansion), in order, with the required flags, nested groups
   wired to classes with those entries (followed THROUGH the message classes: the names of the group classes are not observables);
   every group class defined before its use; messages built from the classes round-trip, validation follows the required flags —
   `validate()` of every group container at every depth: instances lacking only optional entries (an optional nested group) pass,
   an instance lacking a required entry (a required nested group) is rejected —, a generated session frames them
   (BodyLength/CheckSum recomputed independently) and reads them back.
"""
import json
import os
import shutil
import subprocess
import sys
import tempfile
import keyword as _keyword
from concurrent.futures import ThreadPoolExecutor
from xml.sax.saxutils import quoteattr

import common
from common import sx, parse_sx

DRIVER = 'drv_C16'
PY = sys.executable
WORKER = os.path.join(os.path.dirname(os.path.abspath(__file__)), 'c16_worker.py')

# no locally known findings: the FIX 4.2 defect (fixes/C16-fix42.md) was repaired by /repo commit b154f58; its failing input is now a
# regression in corpus/C16/ and must generate, import, round-trip and frame like any other dictionary
KNOWN_LOCAL = []


def report(ctx, what, replay):
    """ctx.violation, after the locally known findings (until the coordinator has registered them)"""
    for k in KNOWN_LOCAL:
        if common.matches_known(k, replay):
            if k['id'] not in [x[0] for x in ctx.known_hits]:
                ctx.known_hits.append((k['id'], k['what']))
            return
    ctx.violation(what, replay)


# =====================================================================================================================
# dictionaries:  {'version': v, 'sections': [[kind, payload]...]}   (file order)
#   fields:     [[number, name, type, [[enum, desc]...]]...]
#   components: [[name, [item...]]...]      header / trailer: [item...]      messages: [[name, msgtype, msgcat, [item...]]...]
#   item:       ['F', name, req] | ['G', name, req, [item...]] | ['C', name, req]          req: None | text
# =====================================================================================================================
VERSIONS = ['4.2', '4.4', '5.0', '5.0SP2']
BEGIN_STRING = {'4.2': 'FIX.4.2', '4.4': 'FIX.4.4', '5.0': 'FIXT.1.1', '5.0SP2': 'FIXT.1.1'}
SESSION_CLS = {'4.2': 'Fix42Session', '4.4': 'Fix44Session', '5.0': 'Fix50Session', '5.0SP2': 'Fix50Session'}

# value type per FIX type name, from the FIX specification (int / float / char-string / boolean based types), written
# independently of version_types.py.  One deliberate deviation is copied from the library and named: MONTHYEAR is a String
# in FIX (YYYYMM, YYYYMMDD, YYYYMMwN) and is carried as an int by this library.
KIND = {
    'AMT': 'float', 'BOOLEAN': 'bool', 'CHAR': 'str', 'CURRENCY': 'str', 'DATA': 'str', 'DAYOFMONTH': 'int', 'EXCHANGE': 'str',
    'FLOAT': 'float', 'INT': 'int', 'LENGTH': 'int', 'LOCALMKTDATE': 'str', 'MONTHYEAR': 'int', 'MULTIPLEVALUESTRING': 'str',
    'PRICE': 'float', 'PRICEOFFSET': 'float', 'QTY': 'float', 'STRING': 'str', 'UTCDATE': 'str', 'UTCTIMEONLY': 'str',
    'UTCTIMESTAMP': 'str', 'COUNTRY': 'str', 'PERCENTAGE': 'float', 'LONG': 'int', 'SEQNUM': 'int', 'NUMINGROUP': 'int',
    'FIXSTRING': 'str', 'MULTIPLECHARVALUE': 'str', 'TZTIMEONLY': 'str', 'MULTIPLESTRINGVALUE': 'str',
}
BASE_42 = ['AMT', 'BOOLEAN', 'CHAR', 'CURRENCY', 'DATA', 'DAYOFMONTH', 'EXCHANGE', 'FLOAT', 'INT', 'LENGTH', 'LOCALMKTDATE',
           'MONTHYEAR', 'MULTIPLEVALUESTRING', 'PRICE', 'PRICEOFFSET', 'QTY', 'STRING', 'UTCDATE', 'UTCTIMEONLY', 'UTCTIMESTAMP',
           'COUNTRY', 'PERCENTAGE', 'LONG']
TYPE_NAMES = {
    '4.2': BASE_42,
    '4.4': BASE_42 + ['SEQNUM', 'NUMINGROUP'],
    '5.0': BASE_42 + ['FIXSTRING', 'MULTIPLECHARVALUE', 'NUMINGROUP', 'SEQNUM'],
    '5.0SP2': BASE_42 + ['FIXSTRING', 'MULTIPLECHARVALUE', 'NUMINGROUP', 'SEQNUM', 'TZTIMEONLY', 'MULTIPLESTRINGVALUE'],
}


def sections(d, kind):
    return [p for k, p in d['sections'] if k == kind]


def all_fields(d):
    return [f for p in sections(d, 'fields') for f in p]


def all_comps(d):
    return [c for p in sections(d, 'components') for c in p]


def all_msgs(d):
    return [m for p in sections(d, 'messages') for m in p]


def items_xml(items, ind):
    out = []
    pad = ' ' * ind
    for it in items:
        req = '' if it[2] is None else f' required={quoteattr(it[2])}'
        if it[0] == 'F':
            out.append(f'{pad}<field name={quoteattr(it[1])}{req}/>')
        elif it[0] == 'C':
            out.append(f'{pad}<component name={quoteattr(it[1])}{req}/>')
        else:
            out.append(f'{pad}<group name={quoteattr(it[1])}{req}>')
            out += items_xml(it[3], ind + 1)
            out.append(f'{pad}</group>')
    return out


def dict_xml(d):
    major, _, minor = d['version'].partition('.')
    out = [f'<fix major="{major}" minor="{minor[:1] or 0}">']
    for kind, p in d['sections']:
        out.append(f' <{kind}>')
        if kind == 'fields':
            for num, name, ty, vals in p:
                if vals:
                    out.append(f'  <field number={quoteattr(num)} name={quoteattr(name)} type={quoteattr(ty)}>')
                    for e, ds in vals:
                        out.append(f'   <value enum={quoteattr(e)} description={quoteattr(ds)}/>')
                    out.append('  </field>')
                else:
                    out.append(f'  <field number={quoteattr(num)} name={quoteattr(name)} type={quoteattr(ty)}/>')
        elif kind == 'components':
            for name, items in p:
                out.append(f'  <component name={quoteattr(name)}>')
                out += items_xml(items, 3)
                out.append('  </component>')
        elif kind == 'messages':
            for name, mt, cat, items in p:
                out.append(f'  <message name={quoteattr(name)} msgtype={quoteattr(mt)} msgcat={quoteattr(cat)}>')
                out += items_xml(items, 3)
                out.append('  </message>')
        else:
            out += items_xml(p, 2)
        out.append(f' </{kind}>')
    out.append('</fix>')
    return '\n'.join(out) + '\n'


def T(s):
    return [ord(c) for c in s]


def item_sx(it):
    req = 'none' if it[2] is None else T(it[2])
    if it[0] == 'G':
        return ['G', T(it[1]), req] + [item_sx(x) for x in it[3]]
    return [it[0], T(it[1]), req]


def dict_sx(d):
    out = ['dict', d['version'] if d['version'] in VERSIONS else 'other']
    for kind, p in d['sections']:
        if kind == 'fields':
            out.append(['fields'] + [['f', T(n), T(nm), T(ty)] + [['v', T(e), T(ds)] for e, ds in vs] for n, nm, ty, vs in p])
        elif kind == 'components':
            out.append(['components'] + [['c', T(n)] + [item_sx(x) for x in items] for n, items in p])
        elif kind == 'messages':
            out.append(['messages'] + [['m', T(n), T(mt), T(cat)] + [item_sx(x) for x in items] for n, mt, cat, items in p])
        else:
            out.append([kind] + [item_sx(x) for x in p])
    return sx(out)


# ------------------------------------------------------------------------------------------------ decoding driver answers
def untext(t):
    return ''.join(chr(int(c)) for c in t)


def un_ref(r):
    if r[0] == 'F':
        return ['F', untext(r[1]), r[2] == 'true']
    return ['G', untext(r[1]), untext(r[2]), r[3] == 'true']


def un_module(ans):
    """`ok (module …)` -> the worker's `module` form; `err x` -> ('err', x)"""
    if ans.startswith('err'):
        return ('err', ans.split()[1])
    m = parse_sx(ans[3:])[0]
    out = {'session': m[1], 'fields': [], 'groups': [], 'bodies': [], 'messages': []}
    for f in m[2][1:]:
        out['fields'].append([untext(f[1]), untext(f[2]), f[3], [[untext(v[1]), v[2] == 'true', untext(v[3])] for v in f[4:]]])
    for g in m[3][1:]:
        out['groups'].append([untext(g[1]), untext(g[2]), [un_ref(r) for r in g[3:]]])
    for b in m[4][1:]:
        out['bodies'].append([untext(b[1]), [un_ref(r) for r in b[2:]]])
    for c in m[5][1:]:
        ann = {}           # `__annotations__` is a dict: a repeated name keeps its first position and its last value
        for r in (un_ref(x) for x in c[5:]):
            ann[r[1]] = ['F', r[1]] if r[0] == 'F' else ['G', r[1], r[2]]
        ann = list(ann.values())
        out['messages'].append([untext(c[1]), untext(c[2]), untext(c[3]), untext(c[4]), ann])
    return out


def un_tree(es):
    out = []
    for e in es:
        if e[0] == 'F':
            out.append(['F', untext(e[1]), int(e[2]), e[3], e[4] == 'true'])
        else:
            out.append(['G', untext(e[1]), int(e[2]), e[3], e[4] == 'true', un_tree(e[5:])])
    return out


def un_loaded(ans):
    if ans.startswith('err'):
        return ('err', ans.split()[1])
    m = parse_sx(ans[3:])[0]
    out = {'session': m[1], 'fields': [], 'messages': []}
    for f in m[2][1:]:
        out['fields'].append([untext(f[1]), int(f[2]), f[3], [[untext(v[1]), v[2] == 'true', untext(v[3])] for v in f[4:]]])
    out['header'] = un_tree(m[3][1:])
    out['trailer'] = un_tree(m[4][1:])
    for c in m[5][1:]:
        out['messages'].append([untext(c[1]), untext(c[2]), untext(c[3]), un_tree(c[4][1:]), un_tree(c[5][1:]), un_tree(c[6][1:])])
    return out


# ------------------------------------------------------------------------------------------------ reference semantics (oracle)
class Invalid(Exception):
    pass


def ref_expand(d):
    """the dictionary's meaning, written from the format: fields by name; every container's entries with component references
    replaced in place (recursively, wherever the component is declared); required = the element's own attribute == 'Y'.
    Entries: ['F', name, tag, kind, req] | ['G', name, tag, kind, req, [entries]]"""
    fields = {}
    for num, name, ty, vals in all_fields(d):
        fields[name] = (int(num), KIND[ty], ty, vals)
    comps = {}
    for name, items in all_comps(d):
        comps.setdefault(name, items)

    def ex(items, active):
        out = []
        for it in items:
            if it[0] == 'F':
                if it[1] not in fields:
                    raise Invalid(f'field {it[1]} undeclared')
                out.append(['F', it[1], fields[it[1]][0], fields[it[1]][1], it[2] == 'Y'])
            elif it[0] == 'G':
                if it[1] not in fields:
                    raise Invalid(f'group count field {it[1]} undeclared')
                out.append(['G', it[1], fields[it[1]][0], fields[it[1]][1], it[2] == 'Y', ex(it[3], active)])
            else:
                if it[1] not in comps:
                    raise Invalid(f'component {it[1]} undeclared')
                if it[1] in active:
                    raise Invalid(f'component {it[1]} contains itself')
                out += ex(comps[it[1]], active | {it[1]})
        return out

    hdr = [it for p in sections(d, 'header') for it in p]
    trl = [it for p in sections(d, 'trailer') for it in p]
    return {'fields': fields, 'header': ex(hdr, frozenset()), 'trailer': ex(trl, frozenset()),
            'messages': {m[0]: {'type': m[1], 'cat': m[2], 'body': ex(m[3], frozenset())} for m in all_msgs(d)}}


def reuse_profile(ref):
    """how the dictionary reuses group names (measured on the reference expansion, whatever produced the dictionary): for every
    group name used at least twice, every pair of uses is classified — 'same' definition, definitions that differ ONLY in one
    required flag of a nested group entry / of a field entry, in several flags, only in the order of entries, or in content"""
    uses = {}

    def canon(entries):
        return [[e[0], e[1], e[4]] + ([canon(e[5])] if e[0] == 'G' else []) for e in entries]

    def walk(entries):
        for e in entries:
            if e[0] == 'G':
                uses.setdefault(e[1], []).append(canon(e[5]))
                walk(e[5])

    def flags(c, out):
        for e in c:
            out.append((e[0], e[2]))
            if e[0] == 'G':
                flags(e[3], out)
        return out

    def shape(c, keep_order=True):
        s = [[e[0], e[1]] + ([shape(e[3], keep_order)] if e[0] == 'G' else []) for e in c]
        return s if keep_order else sorted(s, key=json.dumps)
    walk(ref['header'])
    walk(ref['trailer'])
    for m in ref['messages'].values():
        walk(m['body'])
    out = set()
    for name, defs in uses.items():
        distinct = []
        for c in defs:
            if c not in distinct:
                distinct.append(c)
        if len(defs) > len(distinct):
            out.add('same')
        for i in range(len(distinct)):
            for j in range(i):
                a, b = distinct[i], distinct[j]
                if shape(a) == shape(b):
                    diff = [x for x, y in zip(flags(a, []), flags(b, [])) if x != y]
                    out.add('several-flags' if len(diff) > 1 else 'one-nested-group-flag' if diff[0][0] == 'G' else 'one-field-flag')
                elif shape(a, False) == shape(b, False):
                    out.add('order')
                else:
                    out.add('content')
    return sorted(out)


def strip_types(tree):
    """worker tree ['F', name, tag, FixType, req] -> without the class name (the oracle compares the python value type separately)"""
    return [[e[0], e[1], e[2], e[4]] + ([strip_types(e[5])] if e[0] == 'G' else []) for e in tree]


def strip_kind(tree):
    return [[e[0], e[1], e[2], e[4]] + ([strip_kind(e[5])] if e[0] == 'G' else []) for e in tree]


# =====================================================================================================================
# dictionary generator
# =====================================================================================================================
KW_DESCS = sorted(_keyword.kwlist)
PLAIN_DESCS = ['BUY', 'SELL', 'NEW', 'Partial_Fill', 'X1', '_x', 'Filled', 'DoneForDay', 'none', 'NONE', 'true', 'If', 'match', 'case',
               'type', 'AS_DEFINED', 'T0', 'a', 'Z9_z', 'print', 'self']
STD = {  # name -> (tag, type chooser)
    'BeginString': ('8', 'STRING'), 'BodyLength': ('9', 'LENGTH'), 'MsgType': ('35', 'STRING'), 'SenderCompID': ('49', 'STRING'),
    'TargetCompID': ('56', 'STRING'), 'MsgSeqNum': ('34', 'SEQNUM'), 'SendingTime': ('52', 'UTCTIMESTAMP'),
    'SenderSubID': ('50', 'STRING'), 'CheckSum': ('10', 'STRING'),
}
STD_TAGS = {8, 9, 35, 49, 56, 34, 52, 50, 10}
NAME_STEMS = ['Px', 'Qty', 'Side', 'Acct', 'Ord_ID', 'leg', 'x', 'Sym', 'Text9', 'F', 'Val_', 'cl0rd', 'Amt', 'Flag', 'K', 'Ccy', 'Exch',
              'Tm', 'Dt', 'Pct', 'MD', 'Ref', 'u_id', 'Party', 'Role', 'Strat']
MSG_TYPES = ['0', 'A', '5', 'D', '8', 'AE', 'BZ', 'j', '3', 'XYZ', 'F', 'G', '9', 'AB', 'n', 'U1']
REQS = ['Y', 'N', 'Y', 'N', None, 'y', 'YES']


PRINTABLE = ''.join(chr(c) for c in range(32, 127))
SPECIALS = '<>&"\'\\'
TRICKY = ['&lt;', '&amp;', '&quot;', '&#39;', "it's", "\\'", '\\\\', "'''", '"""', '{{x}}', '{{{x}}}', '{{&x}}', '\\n', '\\x41', 'a b', '%s',
          '{0}', '#c', "'", '"', '<>', '<=', '>=', '&&', "' + '", '\\', 'a\\', "\\'\\'", '</value>', '<!--', ']]>', "'; x = '", '$', '`', '~',
          'A&B', 'P&L', 'Q"x"']


def enum_text(rng, ty):
    """one enumerated value for a String based FIX type (printable ASCII)"""
    pool = SPECIALS * 6 + PRINTABLE
    if ty == 'CHAR':
        return rng.choice(pool)
    if ty in ('MULTIPLEVALUESTRING', 'MULTIPLECHARVALUE', 'MULTIPLESTRINGVALUE') and rng.random() < 0.5:
        solid = pool.replace(' ', '')
        width = 1 if ty == 'MULTIPLECHARVALUE' else 3
        return ' '.join(''.join(rng.choice(solid) for _ in range(rng.randint(1, width))) for _ in range(rng.randint(1, 3)))
    if rng.random() < 0.3:
        return rng.choice(TRICKY)
    return ''.join(rng.choice(pool) for _ in range(rng.choice([1, 1, 2, 3, 4, 6])))


def closure(items, comps, memo):
    """all field / count-field names an item list mentions, through component references"""
    out = set()
    for it in items:
        if it[0] == 'F':
            out.add(it[1])
        elif it[0] == 'G':
            out.add(it[1])
            out |= closure(it[3], comps, memo)
        else:
            if it[1] not in memo:
                memo[it[1]] = closure(comps[it[1]], comps, memo) if it[1] in comps else set()
            out |= memo[it[1]]
    return out


class DictGen:
    def __init__(self, rng, tier, clean, version=None):
        self.rng = rng
        self.clean = clean
        self.version = version or rng.choice(['4.2', '4.4', '4.4', '5.0', '5.0SP2', '5.0SP2'])
        self.depth_max = (3 if tier == 'quick' else 4)
        self.comps = {}
        self.memo = {}

    # ---------------- fields
    def make_fields(self):
        rng, v = self.rng, self.version
        tnames = TYPE_NAMES[v]
        fields = {}
        used_tags = set(STD_TAGS)

        def tag():
            while True:
                t = rng.choice([rng.randint(1, 120), rng.randint(1000, 1020), rng.randint(121, 9999), rng.randint(20000, 40000)])
                if t not in used_tags:
                    used_tags.add(t)
                    return str(t)
        self.new_tag = tag
        if self.clean or rng.random() < 0.5:
            for n, (t, ty) in STD.items():
                if ty == 'SEQNUM' and 'SEQNUM' not in tnames:
                    ty = 'INT'
                fields[n] = [t, n, ty, []]
        cover = list(tnames)
        rng.shuffle(cover)
        n_plain = rng.randint(5, 16) if rng.random() < 0.8 else len(cover)
        self.plain = []
        for i in range(n_plain):
            ty = cover[i % len(cover)]
            name = rng.choice(NAME_STEMS) + rng.choice(['', str(i), '_' + str(i), 'X' + str(i)])
            if name in fields or not name.isidentifier() or _keyword.iskeyword(name):
                name = f'{name}_{i}q'
            if name in fields:
                continue
            fields[name] = [tag(), name, ty, self.make_enums(ty)]
            self.plain.append(name)
        int_types = [t for t in ('NUMINGROUP', 'INT', 'LENGTH') if t in tnames]
        self.counts = []
        for i in range(rng.randint(2, 6)):
            name = 'No' + rng.choice(['Legs', 'Parties', 'Hops', 'Allocs', 'Sub', 'Deep', 'Events', 'MDEntries']) + rng.choice(['', '', str(i)])
            if name in fields:
                continue
            fields[name] = [tag(), name, rng.choice(int_types[:1] * 3 + int_types), []]
            self.counts.append(name)
        self.fields = fields
        self.int_types = int_types

    def fresh_field(self, count):
        """declare one more field: a group count field, or a plain field of any type of the version"""
        rng = self.rng
        i = len(self.fields)
        while True:
            name = ('No' + rng.choice(['Legs', 'Allocs', 'Tw', 'Sides', 'Fills']) if count else rng.choice(NAME_STEMS) + 'T') + str(i)
            if name not in self.fields and name.isidentifier():
                break
            i += 1
        ty = rng.choice(self.int_types[:1] * 3 + self.int_types) if count else rng.choice(TYPE_NAMES[self.version])
        self.fields[name] = [self.new_tag(), name, ty, [] if count else self.make_enums(ty)]
        (self.counts if count else self.plain).append(name)
        return name

    # ---------------- twins: the same group name used several times with (nearly) the same definition
    TWIN_KINDS = ['group-req', 'group-req', 'group-req', 'field-req', 'field-req', 'same', 'same', 'order', 'nested-content', 'content',
                  'outer-req']

    def req2(self):
        return self.rng.choice(['Y', 'N', 'Y', 'N', 'Y', 'N', None, 'y'])

    def twin_source(self, avoid):
        """a group with a group nested in it (sometimes two levels deep, sometimes with a second nested group), made of fields
        outside `avoid` — fields nobody uses yet or freshly declared ones"""
        rng = self.rng

        def pick(count):
            cands = [f for f in (self.counts if count else self.plain) if f not in avoid]
            f = rng.choice(cands) if cands and rng.random() < 0.6 else self.fresh_field(count)
            avoid.add(f)
            return f

        def group(depth):
            g = pick(True)
            items = [['F', pick(False), self.req2()] for _ in range(rng.randint(1, 3))]
            if depth > 0:
                items.insert(rng.randint(1, len(items)), group(depth - 1))
                if rng.random() < 0.25:
                    items.insert(rng.randint(1, len(items)), group(0))
            return ['G', g, self.req2(), items]
        return group(rng.choice([1, 1, 1, 2]))

    def twin_variant(self, g, kind, avoid):
        """a copy of group item `g` that differs from it in exactly ONE thing (`kind`), or in nothing ('same')"""
        rng = self.rng
        g = json.loads(json.dumps(g))
        flip = lambda r: 'N' if r == 'Y' else 'Y'      # noqa: E731
        lists, fields_at, groups_at = [], [], []          # every entry list below g; (list, index) of every field / nested group

        def walk(items):
            lists.append(items)
            for i, it in enumerate(items):
                if it[0] == 'F':
                    fields_at.append((items, i))
                elif it[0] == 'G':
                    groups_at.append((items, i))
                    walk(it[3])
        walk(g[3])
        if kind == 'group-req' and groups_at:
            items, i = rng.choice(groups_at)
            items[i][2] = flip(items[i][2])
        elif kind == 'outer-req':
            g[2] = flip(g[2])
        elif kind == 'order' and any(len(x) >= 3 for x in lists):
            items = rng.choice([x for x in lists if len(x) >= 3])
            i = rng.randint(1, len(items) - 2)          # the first entry of a group stays (it delimits the instances)
            items[i], items[i + 1] = items[i + 1], items[i]
        elif kind in ('nested-content', 'content'):
            inner = [x for x in lists if x is not g[3]] if kind == 'nested-content' else [g[3]]
            items = rng.choice(inner or [g[3]])
            droppable = [i for i in range(1, len(items)) if items[i][0] == 'F']
            if droppable and rng.random() < 0.5:
                del items[rng.choice(droppable)]
            else:
                cands = [f for f in self.plain if f not in avoid]
                f = rng.choice(cands) if cands and rng.random() < 0.6 else self.fresh_field(False)
                avoid.add(f)
                items.insert(rng.randint(1, len(items)), ['F', f, self.req2()])
        elif kind != 'same' and fields_at:                # 'field-req', and the fallback of the kinds that did not apply
            items, i = rng.choice(fields_at)
            items[i][2] = flip(items[i][2])
        return g

    def twin_pass(self, msgs, msg_used, comps_sec, header, trailer, hdr_used):
        """use one group 2..3 times — in different messages, through a component, (structural flavour) in the header / trailer or
        inside another group — the uses being identical or differing in exactly one thing: the required flag of a field entry, the
        required flag of a nested <group> element, the flag of the group itself, the order of two entries, the content of the
        group or of a group nested in it.  (A generator that shares classes between uses must tell all of these apart and may
        share the identical ones.)"""
        rng = self.rng
        uses = rng.choice([2, 2, 2, 3])
        avoid = set()
        if self.clean:
            avoid = set(hdr_used)
            while len(msgs) < uses:
                mt = rng.choice([m for m in MSG_TYPES if m not in [x[1] for x in msgs]])
                free = [f for f in self.plain if f not in hdr_used] or [self.fresh_field(False)]
                msgs.append([f'Twin{len(msgs)}', mt, 'app', [['F', f, self.req()] for f in rng.sample(free, min(2, len(free)))]])
                msg_used.append(set(hdr_used) | {x[1] for x in msgs[-1][3]})
            for u in msg_used:
                avoid |= u
        # the source: a group a message already has (with a group nested in it), else a new one
        src = None
        organic = [(mi, it) for mi, m in enumerate(msgs) for it in m[3] if it[0] == 'G' and any(x[0] == 'G' for x in it[3])
                   and (not self.clean or all(x[0] != 'C' for x in it[3]))]
        targets = list(range(len(msgs)))
        rng.shuffle(targets)
        if organic and rng.random() < 0.4:
            mi, src = rng.choice(organic)
            names = closure([src], self.comps, self.memo)
            targets = [t for t in targets if t != mi and (not self.clean or not (names & msg_used[t]))]
            uses -= 1
            if not targets:
                src = None
                targets = list(range(len(msgs)))
                uses += 1
        first = src is None
        if src is None:
            src = self.twin_source(avoid)
        names = closure([src], self.comps, self.memo)
        kinds = []
        for k in range(uses):
            g = src if first and k == 0 else self.twin_variant(src, rng.choice(self.TWIN_KINDS), avoid)
            kinds.append(g)
            site = rng.random()
            if not self.clean and site < 0.15:
                (header if rng.random() < 0.6 else trailer).append(g)
                continue
            if not targets:
                break
            t = targets.pop()
            items = msgs[t][3]
            if self.clean:
                msg_used[t] |= closure([g], self.comps, self.memo) | names
            if site < 0.4:                                 # through a component (declared anywhere among the others)
                cn = f'Tw{len(self.comps)}x{k}'
                body = [g] if rng.random() < 0.6 else [g, ['F', self.fresh_field(False), self.req2()]]
                if self.clean:
                    msg_used[t] |= closure(body, self.comps, self.memo)
                self.comps[cn] = body
                self.ranks[cn] = len(self.ranks)
                comps_sec.insert(rng.randint(0, len(comps_sec)), [cn, body])
                items.insert(rng.randint(0, len(items)), ['C', cn, self.req()])
            elif not self.clean and site < 0.55 and any(x[0] == 'G' for x in items):
                host = rng.choice([x for x in items if x[0] == 'G'])
                host[3].insert(rng.randint(1, len(host[3])) if host[3] else 0, g)
            else:
                items.insert(rng.randint(0, len(items)), g)

    def make_enums(self, ty):
        rng = self.rng
        kind = KIND[ty]
        if rng.random() > 0.35 or kind == 'float':
            return []
        n = rng.randint(1, 4)
        if kind == 'bool':
            keys = ['Y', 'N'][:max(1, min(n, 2))]
        elif kind == 'int':
            keys = rng.sample(['0', '1', '2', '10', '99', '100', '7'], n)
        elif rng.random() < 0.3:                # the plain repertoire the check always had
            keys = rng.sample(list('ABCDxyz0123456789') if ty == 'CHAR' else ['A', 'B', '1', 'AB', 'x9', 'FOO', '0', 'Zz', 'a_b', '42'], n)
        else:
            # whatever is a value of the field's type: ONE printable ASCII character for CHAR, printable ASCII text for the String
            # based types (single characters, words, space separated lists for the MULTIPLE… types); the characters an HTML-escaping
            # or a careless string-literal rendering gets wrong (< > & " ' \, braces, entity look-alikes, space) are drawn often
            keys = []
            while len(keys) < n:
                k = enum_text(rng, ty)
                if k not in keys:
                    keys.append(k)
        descs = []
        while len(descs) < len(keys):
            dsc = rng.choice(KW_DESCS) if rng.random() < 0.45 else rng.choice(PLAIN_DESCS)
            esc = dsc + '_' if _keyword.iskeyword(dsc) else dsc
            if esc not in [x[1] for x in descs]:
                descs.append((dsc, esc))
        return [[k, dsc[0]] for k, dsc in zip(keys, descs)]

    # ---------------- items
    def req(self):
        return self.rng.choice(REQS)

    def build_items(self, n, used, depth, comp_rank=None, first_plain=False):
        """n entries; `used` (clean flavour) = names already present in the enclosing message/component"""
        rng = self.rng
        items = []
        for k in range(n):
            c = rng.random()
            if first_plain and k == 0:
                c = 0.0
            avail_f = [f for f in self.plain if used is None or f not in used]
            avail_g = [g for g in self.counts if used is None or g not in used]
            avail_c = [cn for cn, r in self.ranks.items()
                       if (comp_rank is None or r > comp_rank) and cn in self.comps
                       and (used is None or not (closure(self.comps[cn], self.comps, self.memo) & used))
                       and (used is None or closure(self.comps[cn], self.comps, self.memo))]
            if c < 0.5 and avail_f:
                f = rng.choice(avail_f)
                items.append(['F', f, self.req()])
                if used is not None:
                    used.add(f)
            elif c < 0.75 and avail_g and depth < self.depth_max:
                g = rng.choice(avail_g)
                if used is not None:
                    used.add(g)
                sub = self.build_items(rng.randint(1, 3), used, depth + 1, comp_rank, first_plain=True)
                if not sub or sub[0][0] != 'F':
                    if self.clean:
                        continue
                items.append(['G', g, self.req(), sub])
            elif avail_c:
                cn = rng.choice(avail_c)
                items.append(['C', cn, self.req()])
                if used is not None:
                    used |= closure(self.comps[cn], self.comps, self.memo)
            elif avail_f:
                f = rng.choice(avail_f)
                items.append(['F', f, self.req()])
                if used is not None:
                    used.add(f)
        return items

    def make(self):
        rng = self.rng
        self.make_fields()
        ncomp = rng.choice([0, 1, 2, 3, 4, 5, 6])
        names = [rng.choice(['Instrument', 'Parties', 'Hop', 'Leg', 'Cmp', 'Und', 'Stip', 'C']) + str(i) for i in range(ncomp)]
        self.ranks = {n: i for i, n in enumerate(names)}          # a component only refers to components of higher rank
        for n in reversed(names):                                  # leaves first
            used = set() if self.clean else None
            self.comps[n] = self.build_items(rng.randint(0 if not self.clean else 1, 4), used, 1, comp_rank=self.ranks[n])
        decl = list(names)
        rng.shuffle(decl)                                          # declaration order is independent of the reference order
        comps_sec = [[n, self.comps[n]] for n in decl]
        # header / trailer
        hdr_used = set() if self.clean else None
        header, trailer = [], []
        if self.clean or 'BeginString' in self.fields and rng.random() < 0.7:
            header = [['F', 'BeginString', 'Y'], ['F', 'BodyLength', 'Y'], ['F', 'MsgType', 'Y'], ['F', 'SenderCompID', 'Y'],
                      ['F', 'TargetCompID', 'Y'], ['F', 'MsgSeqNum', 'Y']]
            if rng.random() < 0.7:
                header.append(['F', 'SenderSubID', 'N'])
            header.append(['F', 'SendingTime', 'Y'])
            if hdr_used is not None:
                hdr_used |= {x[1] for x in header} | {'CheckSum'}
            header += self.build_items(rng.randint(0, 2), hdr_used, 1)
            trailer = self.build_items(rng.randint(0, 1), hdr_used, 2) + [['F', 'CheckSum', 'Y']]
        elif rng.random() < 0.5:
            header = self.build_items(rng.randint(0, 3), None, 1)
            trailer = self.build_items(rng.randint(0, 2), None, 1)
        msgs, msg_used = [], []
        mts = rng.sample(MSG_TYPES, rng.randint(1, 4 if self.clean else 5))
        for i, mt in enumerate(mts):
            used = set(hdr_used) if self.clean else None
            name = rng.choice(['Logon', 'Heartbeat', 'NewOrderSingle', 'ExecutionReport', 'Quote_Req', 'Msg', 'TradeCaptureReport']) + str(i)
            items = self.build_items(rng.randint(0 if not self.clean else 1, 6), used, 0)
            msgs.append([name, mt, rng.choice(['admin', 'app', 'Session', 'App Msg']), items])
            msg_used.append(used)
        if rng.random() < 0.55:
            self.twin_pass(msgs, msg_used, comps_sec, header, trailer, hdr_used)
        if 'MsgType' in self.fields and rng.random() < 0.8:
            self.fields['MsgType'][3] = [[m[1], m[0].upper()] for m in msgs]
        secs = [['header', header], ['messages', msgs], ['trailer', trailer], ['components', comps_sec]]
        if not self.clean:
            if not header and rng.random() < 0.5:
                secs = [s for s in secs if s[0] != 'header']
            if not trailer and rng.random() < 0.5:
                secs = [s for s in secs if s[0] != 'trailer']
            if not comps_sec and rng.random() < 0.5:
                secs = [s for s in secs if s[0] != 'components']
        if rng.random() < 0.6:
            rng.shuffle(secs)
        flist = list(self.fields.values())
        rng.shuffle(flist)
        secs.append(['fields', flist])
        return {'version': self.version, 'sections': secs}


def gen_dict(rng, tier, clean, version=None):
    for _ in range(20):
        d = DictGen(rng, tier, clean, version).make()
        if size_of(d) <= (900 if tier == 'quick' else 2500):
            return d
    return d


def size_of(d):
    """number of group classes the generator will emit (every nesting level doubles)"""
    comps = {c[0]: c[1] for c in all_comps(d)}

    def cost(items, active=()):
        n = 0
        for it in items:
            if it[0] == 'G':
                n += 1 + 2 * cost(it[3], active)
            elif it[0] == 'C' and it[1] in comps and it[1] not in active:
                n += cost(comps[it[1]], active + (it[1],))
        return n
    total = sum(cost(p) for k, p in d['sections'] if k in ('header', 'trailer'))
    total += sum(cost(m[3]) for m in all_msgs(d))
    return total


def boundary_dicts():
    """deterministic cases: every type name of every version; a group name used 12 times (two-digit unique names); depth-4 nesting;
    component chains declared in both orders; the suite's golden dictionary shape"""
    out = []
    for v in VERSIONS:
        fl = [[str(100 + i), f'T_{t}', t, []] for i, t in enumerate(TYPE_NAMES[v])]
        fl.append(['555', 'NoLegs', 'INT', []])
        body = [['F', f'T_{t}', 'Y' if i % 2 else 'N'] for i, t in enumerate(TYPE_NAMES[v])]
        out.append({'version': v, 'sections': [['messages', [['AllTypes', 'D', 'app', body]]], ['fields', fl]]})
    fl = [['1', 'A', 'STRING', []], ['2', 'NoX', 'NUMINGROUP', []], ['3', 'NoY', 'NUMINGROUP', []], ['4', 'NoZ', 'NUMINGROUP', []],
          ['5', 'NoW', 'NUMINGROUP', []], ['6', 'B', 'INT', [['1', 'None'], ['2', 'class']]]]
    deep = ['G', 'NoX', 'Y', [['F', 'A', 'Y'], ['G', 'NoY', 'N', [['F', 'B', 'N'], ['G', 'NoZ', 'Y', [['F', 'A', 'N'], ['G', 'NoW', None, [['F', 'B', 'Y']]]]]]]]]
    out.append({'version': '4.4', 'sections': [['messages', [['Deep', 'D', 'app', [deep]], ['Deep2', 'E', 'app', [['C', 'K', 'Y'], deep]]]],
                                                ['components', [['K', [['G', 'NoW', 'N', [['F', 'A', 'Y']]]]]]], ['fields', fl]]})
    many = [['M%d' % i, 'T%d' % i, 'app', [['G', 'NoX', 'Y' if i % 2 else 'N', [['F', 'A', 'Y']]]]] for i in range(12)]
    out.append({'version': '5.0', 'sections': [['header', [['G', 'NoX', 'N', [['F', 'B', 'Y']]]]], ['messages', many], ['fields', fl]]})
    chain_fwd = [['C1', [['F', 'A', 'Y'], ['C', 'C2', 'N'], ['F', 'B', 'N']]], ['C2', [['C', 'C3', 'Y']]],
                 ['C3', [['G', 'NoX', 'Y', [['F', 'A', 'N'], ['C', 'C4', 'Y']]]]], ['C4', [['G', 'NoY', 'N', [['F', 'B', 'Y']]]]]]
    for comps in (chain_fwd, chain_fwd[::-1]):
        for order in (['header', 'messages', 'trailer', 'components'], ['components', 'trailer', 'messages', 'header']):
            secs = {'header': [['C', 'C4', 'Y']], 'messages': [['Mx', 'D', 'app', [['C', 'C1', 'N'], ['F', 'B', 'Y']]], ['My', 'E', 'app', [['C', 'C3', 'N']]]],
                    'trailer': [['C', 'C2', 'N']], 'components': comps}
            out.append({'version': '5.0SP2', 'sections': [[k, secs[k]] for k in order] + [['fields', fl]]})
    return out


# =====================================================================================================================
# message plans (clean dictionaries only): what to assign, and what the property says must come out
# =====================================================================================================================
SOH = b'\x01'
SKIP_ALWAYS = {'BeginString', 'BodyLength', 'MsgType', 'CheckSum'}          # written by the session around the message
STAMPED = ['SenderSubID', 'TargetCompID', 'SenderCompID', 'MsgSeqNum', 'SendingTime']     # order of FixSession.send_msg


def gen_value(rng, d_fields, name):
    """(plan value, python value as the oracle sees it)"""
    _tag, kind, ty, vals = d_fields[name]
    if vals and kind in ('str', 'int') and rng.random() < 0.6:
        k, dsc = rng.choice(vals)
        attr = dsc + '_' if _keyword.iskeyword(dsc) else dsc
        return {'const': [name, attr]}, (int(k) if kind == 'int' else k)
    if kind == 'int':
        v = rng.choice([0, 1, 9, 10, 12345, -3, 10 ** 12]) if rng.random() < 0.4 else rng.randint(-999, 10 ** 6)
        return v, v
    if kind == 'float':
        v = rng.choice([0.5, 1.25, 100.0, -2.75, 1e-07, 123456.789, 0.0]) if rng.random() < 0.5 else round(rng.uniform(-1e5, 1e5), rng.randint(0, 5))
        return {'float': repr(float(v))}, float(v)
    if kind == 'bool':
        v = rng.random() < 0.5
        return v, v
    if ty == 'CHAR':
        v = rng.choice('ABCxyz019')
    else:
        v = ''.join(rng.choice('ABCDEFGHIJKLMNOPQRSTUVWXYZabcdefghijklmnopqrstuvwxyz0123456789.-:/ =') for _ in range(rng.randint(1, 10)))
    return v, v


def build_segment(rng, d_fields, entries, mode, top, skip=()):
    """choose what to set among `entries` (reference expansion).  mode: 'full' | 'partial'.
    Returns (plan pairs, expected collection {tag: value}, wire list [(tag, value | [instances])], bad: paths of containers holding an
    instance that lacks a required entry)"""
    plan, coll, wire = [], {}, []
    for i, e in enumerate(entries):
        if e[1] in skip:
            continue
        must = e[4] or (not top and i == 0)
        if mode != 'full' and not must and (mode == 'lean' or rng.random() < 0.5):
            continue                      # 'lean': nothing but what the dictionary requires (every optional nested group is absent)
        if e[0] == 'F':
            pv, v = gen_value(rng, d_fields, e[1])
            plan.append([e[1], pv])
            coll[e[2]] = v
            wire.append((e[2], v))
        else:
            n = rng.choice([0, 1, 1, 2, 3]) if mode == 'partial' else rng.choice([1, 2])
            insts_p, insts_c, insts_w = [], [], []
            for _ in range(n):
                p, c, w = build_segment(rng, d_fields, e[5], mode, False)
                insts_p.append(p)
                insts_c.append(c)
                insts_w.append(w)
            plan.append([e[1], insts_p])
            coll[e[2]] = insts_c
            wire.append((e[2], insts_w))
    return plan, coll, wire


def vtext(v):
    if isinstance(v, bool):
        return 'Y' if v else 'N'
    if isinstance(v, float):
        return repr(v)
    return str(v)


def wire_bytes(wire):
    """independent tag=value encoder: entries in the order given, a group as count then instances"""
    parts = []
    for tag, v in wire:
        if isinstance(v, list):
            parts.append(f'{tag}={len(v)}'.encode())
            for inst in v:
                b = wire_bytes(inst)
                if b:
                    parts.append(b)
        else:
            parts.append(f'{tag}={vtext(v)}'.encode('ascii'))
    return SOH.join(parts)


def plain_coll(c):
    if isinstance(c, dict):
        return {str(k): plain_coll(v) for k, v in c.items()}
    if isinstance(c, list):
        return [plain_coll(v) for v in c]
    if isinstance(c, float):
        return {'float': repr(c)}
    return c


def missing_required(entries, coll):
    return [e[2] for e in entries if e[4] and e[2] not in coll]


def group_instances(entries, plan, coll, wire, path):
    """every group instance of a built segment, at any depth: (group entry, path of its container, index, the container's plan
    instances, the instance's collection, the container's wire instances)"""
    for e in entries:
        if e[0] == 'G' and e[2] in coll:
            p_insts = [p[1] for p in plan if p[0] == e[1]][0]
            w_insts = [w[1] for w in wire if w[0] == e[2]][0]
            for k, ci in enumerate(coll[e[2]]):
                yield e, path + [e[1]], k, p_insts, ci, w_insts
                yield from group_instances(e[5], p_insts[k], ci, w_insts[k], path + [e[1], k])


def container_expectations(entries, coll, path):
    """what the dictionary says about `validate()` of every group container of a built segment, at any depth: 'value' (ValueError)
    iff one of its instances lacks an entry the group's definition requires"""
    out = []
    for e in entries:
        if e[0] == 'G' and e[2] in coll:
            bad = any(sub[4] and sub[2] not in ci for ci in coll[e[2]] for sub in e[5])
            out.append((path + [e[1]], 'value' if bad else 'ok'))
            for k, ci in enumerate(coll[e[2]]):
                out += container_expectations(e[5], ci, path + [e[1], k])
    return out


def group_names(entries, out):
    for e in entries:
        if e[0] == 'G':
            out.append(e[1])
            group_names(e[5], out)
    return out


def make_plans(rng, d, ref, tier):
    """plans for up to 3 messages of a clean dictionary — first the messages using a group name that is used elsewhere too"""
    plans = []
    fields = ref['fields']
    names = list(ref['messages'])
    rng.shuffle(names)
    occ = {}
    for tree in [ref['header'], ref['trailer']] + [m['body'] for m in ref['messages'].values()]:
        for g in set(group_names(tree, [])):
            occ[g] = occ.get(g, 0) + 1
    names.sort(key=lambda n: not any(occ[g] > 1 for g in group_names(ref['messages'][n]['body'], [])))
    for mname in names[:3]:
        body = ref['messages'][mname]['body']
        for mode in (['full', 'partial', 'missing', 'lean', 'nested-missing'] if tier == 'quick' else
                     ['full', 'partial', 'partial', 'missing', 'lean', 'nested-missing', 'nested-missing']):
            segs = {}
            for seg, entries in (('Header', ref['header']), ('Body', body), ('Trailer', ref['trailer'])):
                skip = SKIP_ALWAYS | set(STAMPED) if seg != 'Body' else ()
                m = 'partial' if mode == 'missing' else 'full' if mode == 'nested-missing' and seg == 'Body' else \
                    'partial' if mode == 'nested-missing' else mode
                segs[seg] = build_segment(rng, fields, entries, m, True, skip)
            plan = {'id': len(plans), 'msg': mname, 'mode': mode, 'via_message': rng.random() < 0.5,
                    'Header': segs['Header'][0], 'Body': segs['Body'][0], 'Trailer': segs['Trailer'][0]}
            coll = {s: segs[s][1] for s in segs}
            wire = {s: segs[s][2] for s in segs}
            if mode == 'missing':
                reqd = [e for e in body if e[4] and e[2] in coll['Body']]
                if not reqd:
                    continue
                victim = rng.choice(reqd)
                plan['Body'] = [p for p in plan['Body'] if p[0] != victim[1]]
                del coll['Body'][victim[2]]
                wire['Body'] = [w for w in wire['Body'] if w[0] != victim[2]]
            if mode == 'nested-missing':
                # drop a required (non-first) entry — a field or a whole nested group — from one group instance of the body, at any
                # depth; the validate() of the container holding that instance must object (and only that one)
                cands = [(inst, sub) for inst in group_instances(body, plan['Body'], coll['Body'], wire['Body'], [])
                         for j, sub in enumerate(inst[0][5]) if j > 0 and sub[4] and sub[2] in inst[4]]
                nested = [c for c in cands if c[1][0] == 'G']
                if not cands:
                    continue
                (e, _path, k, p_insts, ci, w_insts), sub = rng.choice(nested if nested and rng.random() < 0.7 else cands)
                del ci[sub[2]]
                p_insts[k][:] = [q for q in p_insts[k] if q[0] != sub[1]]
                w_insts[k][:] = [q for q in w_insts[k] if q[0] != sub[2]]
            # validate() of every group container, at every depth, as the dictionary has it
            plan['containers'], plan['expect_nested'] = [], []
            for seg, entries in (('Header', ref['header']), ('Body', body), ('Trailer', ref['trailer'])):
                for path, want in container_expectations(entries, coll[seg], [])[:40]:
                    plan['containers'].append([seg, path])
                    plan['expect_nested'].append(want)
            if not any(coll[s] for s in coll):
                continue
            segb = [wire_bytes(wire[s]) for s in ('Header', 'Body', 'Trailer')]
            exp_bytes = SOH.join(b for b in segb if b) + SOH
            plan['expect'] = {
                'collection': {s: plain_coll(coll[s]) for s in coll},
                'hex': exp_bytes.hex(),
                'validate': {'HEADER': missing_required(ref['header'], coll['Header']),
                             'BODY': missing_required(body, coll['Body']),
                             'TRAILER': missing_required(ref['trailer'], coll['Trailer'])},
                'type': ref['messages'][mname]['type'],
                'wire': {s: wire[s] for s in wire},
            }
            if d['version'] in BEGIN_STRING and mode in ('full', 'partial', 'missing', 'lean'):
                seq = rng.choice([1, 9, 10, 99, 100, 999, 1000, rng.randint(1, 10 ** 6)])
                plan['frame'] = {'ids': ['SND' + str(rng.randint(0, 99)), 'sub', 'TGT'], 'seq': seq,
                                 'readback': ref['messages'][mname]['type'] not in ('0', '5')}   # the reader consumes heartbeats / logouts
            plans.append(plan)
    return plans


def check_frame(version, plan, ref, fr):
    """independent check of one frame written by the generated session.  Returns a list of complaints."""
    bad = []
    exp = plan['expect']
    must_fail = bool(exp['validate']['BODY'])
    if must_fail:
        if 'err' not in fr or fr['err']['err'] != 'value' or fr.get('hex'):
            bad.append(f'send_msg of a message lacking required body fields {exp["validate"]["BODY"]} did not raise ValueError before writing: {fr}')
        return bad
    if 'err' in fr:
        return [f'framing / reading back raised {fr["err"]["cls"]}: {fr["err"]["msg"]}']
    data = bytes.fromhex(fr['hex'])
    if not data.endswith(SOH):
        return ['frame does not end with SOH']
    flds = [p.split(b'=', 1) for p in data[:-1].split(SOH)]
    if any(len(p) != 2 for p in flds):
        return ['frame has a field without "="']
    tags = [int(p[0]) for p in flds]
    if tags[:3] != [8, 9, 35] or tags[-1] != 10:
        return [f'frame does not start with 8,9,35 and end with 10: {tags}']
    if flds[0][1].decode() != BEGIN_STRING[version]:
        bad.append(f'BeginString {flds[0][1]!r} for version {version}')
    if flds[2][1].decode() != exp['type']:
        bad.append(f'35={flds[2][1]!r} but the message type is {exp["type"]!r}')
    start = len(b'8=' + flds[0][1] + SOH + b'9=' + flds[1][1] + SOH)
    end = data.rfind(SOH + b'10=') + 1
    if flds[1][1] != str(end - start).encode():
        bad.append(f'BodyLength {flds[1][1]!r} but {end - start} bytes lie between the BodyLength field and the CheckSum field')
    if flds[-1][1] != b'%03d' % (sum(data[:end]) % 256):
        bad.append(f'CheckSum {flds[-1][1]!r} but the bytes before it sum to {sum(data[:end]) % 256} mod 256')
    # content: user header entries, then the stamped ones the header declares, body, trailer
    hdr_names = {e[1]: e[2] for e in ref['header']}
    stamps = {'SenderSubID': plan['frame']['ids'][1], 'TargetCompID': plan['frame']['ids'][2], 'SenderCompID': plan['frame']['ids'][0],
              'MsgSeqNum': plan['frame']['seq'], 'SendingTime': None}
    wire = list(exp['wire']['Header']) + [(hdr_names[n], stamps[n]) for n in STAMPED if n in hdr_names]
    want = wire_bytes([w for w in wire if w[1] is not None])
    middle = data[data.find(SOH, data.find(b'35=')) + 1:end]
    import re
    got_wo_time = re.sub(rb'(^|\x01)52=\d{8}-\d{2}:\d{2}:\d{2}(?=\x01)', b'', middle)
    want_all = SOH.join(b for b in (want, wire_bytes(exp['wire']['Body']), wire_bytes(exp['wire']['Trailer'])) if b) + SOH
    if 'SendingTime' in hdr_names and got_wo_time == middle:
        bad.append('no SendingTime (52=YYYYMMDD-HH:MM:SS) in the frame although the header declares it')
    if got_wo_time.lstrip(SOH) != want_all:
        bad.append(f'frame content {got_wo_time!r} differs from header+stamps+body+trailer {want_all!r}')
    # read back
    rc = fr.get('recv')
    if not plan['frame'].get('readback', True):
        pass
    elif not rc:
        bad.append('nothing was read back from the frame')
    else:
        if rc['cls'] != plan['msg']:
            bad.append(f'read back a {rc["cls"]} instead of a {plan["msg"]}')
        c = rc['collection']
        sent = fr['sent']
        hdr = {k: v for k, v in c['Header'].items() if k not in ('8', '9', '35')}
        trl = {k: v for k, v in c['Trailer'].items() if k != '10'}
        if hdr != sent['Header'] or c['Body'] != sent['Body'] or trl != sent['Trailer']:
            bad.append(f'message read back {c} differs from the message sent {sent}')
        if sent['Body'] != exp['collection']['Body']:
            bad.append('body sent differs from the values assigned')
    return bad


# =====================================================================================================================
# running one dictionary
# =====================================================================================================================
def run_worker(job):
    try:
        p = subprocess.run([PY, '-W', 'ignore', WORKER], input=json.dumps(job), capture_output=True, text=True, timeout=120)
    except subprocess.TimeoutExpired:
        return {'crash': 'timeout'}
    lines = [ln for ln in p.stdout.split('\n') if ln.startswith('{')]
    if not lines:
        return {'crash': (p.stderr or p.stdout)[-600:]}
    return json.loads(lines[-1])


def make_job(tmp, idx, d, rng, plans, opts=None):
    root = os.path.join(tmp, f'case{idx}')
    os.makedirs(root)
    xml = os.path.join(root, 'spec.xml')
    with open(xml, 'w', encoding='utf-8') as f:
        f.write(dict_xml(d))
    job = {'repo': common.REPO, 'xml': xml, 'version': d['version'], 'app': rng.choice(['gwy', 'app1', 'x_y']),
           'prefix': rng.choice(['', '', 'pfx']), 'out_root': os.path.join(root, 'out'), 'pkg': rng.choice(['genpkg', 'p1']),
           'mode': 'cli' if d['version'] in VERSIONS and rng.random() < 0.5 else 'api', 'init_file': rng.random() < 0.6,
           'plans': [{k: v for k, v in p.items() if k != 'expect'} for p in plans], 'seg_seed': rng.randrange(1 << 30)}
    job.update(opts or {})           # (replay: the options of the recorded run)
    return job


JOB_OPTS = ('app', 'prefix', 'pkg', 'init_file', 'mode')


def gen_schedule(rng, n, reuse=None):
    """an interleaving of `['c', i]` (parse dictionary i + construct generator i) and `['g', i]` (its generate(), once — sometimes
    twice) for i < n, every generator constructed before it generates; biased towards another construction between `c i` and
    `g i`.  `reuse` = {i: s}: generator i is constructed on the Definitions object that was parsed for member s (`['c', i, s]`, no
    parse of its own: ONE parse() result handed to several generators), anywhere after that parse — before or after s's own
    generate(), before or after other dictionaries' steps; a member that lends its parse sometimes parses first (`['p', s]`) and
    constructs its own generator on that object later (`['c', s, s]`)"""
    reuse = reuse or {}
    seqs = []
    for i in range(n):
        if i in reuse:
            first = [['c', i, reuse[i]]]
        elif i in reuse.values() and rng.random() < 0.3:
            first = [['p', i], ['c', i, i]]
        else:
            first = [['c', i]]
        seqs.append(first + [['g', i]] + ([['g', i]] if rng.random() < 0.15 else []))
    parsed = set()

    def enabled(op):
        return len(op) < 3 or op[2] in parsed

    def emit(out, op):
        out.append(op)
        if len(op) < 3:
            parsed.add(op[1])
    if rng.random() < 0.5:      # prepare all, then write all (in any order)
        order = list(range(n))
        rng.shuffle(order)
        order.sort(key=lambda i: i in reuse)            # (a parse comes before the generators built on it)
        out = []
        for i in order:
            for op in seqs[i]:
                if op[0] != 'g':
                    emit(out, op)
        gs = [op for i in range(n) for op in seqs[i] if op[0] == 'g']
        rng.shuffle(gs)
        return out + gs
    out, pos = [], [0] * n
    while any(pos[i] < len(seqs[i]) for i in range(n)):
        i = rng.choice([x for x in range(n) if pos[x] < len(seqs[x]) and enabled(seqs[x][pos[x]])])
        emit(out, seqs[i][pos[i]])
        pos[i] += 1
    return out


def reuse_of(schedule):
    """{i: s} for every generator i of a schedule that was constructed on the Definitions object parsed for another member s"""
    return {op[1]: op[2] for op in schedule if op[0] == 'c' and len(op) > 2 and op[2] != op[1]}


def impl_outcome(res):
    """('gen-err', cls) | ('import-err', cls) | ('ok',)"""
    if 'crash' in res:
        return ('crash', res['crash'])
    if 'err' in res['gen']:
        return ('gen-err', res['gen']['err'])
    if res['imp'] is None or 'err' in res['imp']:
        return ('import-err', (res['imp'] or {}).get('err', 'other'))
    return ('ok',)


def model_outcome(fix_ans, load_ans):
    if fix_ans.startswith('err'):
        return ('gen-err', fix_ans.split()[1])
    if load_ans.startswith('err'):
        return ('import-err', load_ans.split()[1])
    return ('ok',)


def first_diff(a, b, path=''):
    if type(a) is not type(b):
        return f'{path}: {a!r} vs {b!r}'
    if isinstance(a, dict):
        for k in sorted(set(a) | set(b)):
            if k not in a or k not in b:
                return f'{path}.{k}: present on one side only'
            r = first_diff(a[k], b[k], f'{path}.{k}')
            if r:
                return r
        return None
    if isinstance(a, list):
        for i, (x, y) in enumerate(zip(a, b)):
            r = first_diff(x, y, f'{path}[{i}]')
            if r:
                return r
        if len(a) != len(b):
            return f'{path}: lengths {len(a)} vs {len(b)} (first extra: {(a[len(b):] or b[len(a):])[0]!r})'
        return None
    return None if a == b else f'{path}: {a!r} vs {b!r}'


def scoping_complaints(module):
    """oracle: every group class mentioned by a group class is defined earlier in the groups module; names unique; bodies and
    messages only mention group classes that exist"""
    bad = []
    seen = []
    for name, _cnt, refs in module['groups']:
        for r in refs:
            if r[0] == 'G' and r[2] not in seen:
                bad.append(f'group class {name} mentions {r[2]}_List which is not defined before it')
        if name in seen:
            bad.append(f'group class {name} defined twice')
        seen.append(name)
    for name, refs in module['bodies']:
        for r in refs:
            if r[0] == 'G' and r[2] not in seen:
                bad.append(f'segment class {name} mentions groups.{r[2]}_List which does not exist')
    return bad


def oracle_structure(ctx, d, ref, res, rep):
    """the property statement, on the implementation alone, for a valid dictionary"""
    out = impl_outcome(res)
    if out[0] != 'ok':
        detail = res.get('gen') if out[0] == 'gen-err' else res.get('imp')
        report(ctx, f'valid dictionary: {out[0]} {detail}', rep)
        return False
    L, M = res['loaded'], res['module']
    # fields
    got = {f[0]: f for f in L['fields']}
    for name, (tag, kind, ty, _vals) in ref['fields'].items():
        if name not in got:
            report(ctx, f'no field class for field {name}', rep)
        elif got[name][1] != tag:
            report(ctx, f'field class {name} has Tag {got[name][1]} instead of {tag}', rep)
        elif got[name][3] != kind:
            report(ctx, f'field {name} of type {ty} carries python {got[name][3]} values instead of {kind}', rep)
    if len(L['fields']) != len(ref['fields']):
        report(ctx, f'{len(L["fields"])} field classes for {len(ref["fields"])} fields', rep)
    for f in M['fields']:
        vals = {e: dsc for e, dsc in ref['fields'].get(f[0], (0, 0, 0, []))[3]}
        want = [[e, ref['fields'][f[0]][1] in ('str', 'bool'), dsc + '_' if _keyword.iskeyword(dsc) else dsc] for e, dsc in vals.items()] \
            if f[0] in ref['fields'] else None
        if want is not None and f[3] != want:
            report(ctx, f'field {f[0]}: enumerated values {f[3]} instead of {want}', rep)
    for f in L['fields']:
        if f[0] in ref['fields'] and len(f) > 5:
            _tag, kind, _ty, vals = ref['fields'][f[0]]
            dv = {e: dsc for e, dsc in vals}                # value text -> description
            esc = lambda dsc: dsc + '_' if _keyword.iskeyword(dsc) else dsc        # noqa: E731
            pyval = lambda e: int(e) if kind == 'int' else float(e) if kind == 'float' else e      # noqa: E731
            want_vals = [[e, kind in ('str', 'bool'), esc(dsc)] for e, dsc in dv.items()]
            want_consts = [[esc(dsc), repr(pyval(e))] for e, dsc in dv.items()]
            if f[4] != want_vals:
                report(ctx, f'field class {f[0]}: Values {f[4]} are not the dictionary\'s enumerated values {want_vals}', rep)
            elif f[5] != want_consts:
                report(ctx, f'field class {f[0]}: constants {f[5]} instead of {want_consts} (a constant is named after the description '
                            f'and holds the enumerated value of the dictionary)', rep)
    # entries
    if strip_types(L['header']) != strip_kind(ref['header']):
        report(ctx, 'Header entries differ from the dictionary: ' + str(first_diff(strip_types(L['header']), strip_kind(ref['header']))), rep)
    if strip_types(L['trailer']) != strip_kind(ref['trailer']):
        report(ctx, 'Trailer entries differ from the dictionary: ' + str(first_diff(strip_types(L['trailer']), strip_kind(ref['trailer']))), rep)
    gotm = {m[0]: m for m in L['messages']}
    for name, spec in ref['messages'].items():
        if name not in gotm:
            report(ctx, f'no message class for message {name}', rep)
            continue
        m = gotm[name]
        if m[1] != spec['type'] or m[2] != spec['cat']:
            report(ctx, f'message {name}: Type/Category {m[1]!r}/{m[2]!r} instead of {spec["type"]!r}/{spec["cat"]!r}', rep)
        for label, have, want in (('header', m[3], ref['header']), ('body', m[4], spec['body']), ('trailer', m[5], ref['trailer'])):
            if strip_types(have) != strip_kind(want):
                report(ctx, f'message {name}: {label} entries differ from the dictionary (components expanded in place, in order, '
                            f'required flags): {first_diff(strip_types(have), strip_kind(want))}', rep)
    if len(L['messages']) != len(ref['messages']):
        report(ctx, f'{len(L["messages"])} message classes for {len(ref["messages"])} messages', rep)
    if d['version'] in SESSION_CLS and L['session'] != SESSION_CLS[d['version']]:
        report(ctx, f'ClientSession derives from {L["session"]} for version {d["version"]}', rep)
    for c in res['checks']:
        report(ctx, 'generated classes inconsistent: ' + c, rep)
    for c in scoping_complaints(M):
        report(ctx, c, rep)
    return True


def oracle_behaviour(ctx, d, ref, plans, res, rep):
    runs = {r['id']: r for r in res.get('runs', [])}
    for plan in plans:
        r = runs.get(plan['id'])
        prep = dict(rep, plan={k: v for k, v in plan.items() if k != 'expect'})
        what = f'message {plan["msg"]} ({plan["mode"]})'
        if r is None or 'crash' in r:
            report(ctx, f'{what}: not run: {r}', prep)
            continue
        if r['build'] != 'ok':
            report(ctx, f'{what}: assigning values through the generated classes raised {r["build"]}', prep)
            continue
        exp = plan['expect']
        if 'codec' in r:
            report(ctx, f'{what}: encode/decode raised {r["codec"]}', prep)
        else:
            if r['collection'] != exp['collection']:
                report(ctx, f'{what}: as_collection() differs from the values assigned: {first_diff(r["collection"], exp["collection"])}', prep)
            if r['enc']['hex'] != exp['hex'] or r['enc']['n'] != len(exp['hex']) // 2:
                report(ctx, f'{what}: encoding {bytes.fromhex(r["enc"]["hex"])!r} differs from tag=value of the assigned entries '
                            f'{bytes.fromhex(exp["hex"])!r}', prep)
            dec = r['dec']
            if dec['collection'] != exp['collection'] or dec['n'] != len(exp['hex']) // 2 or dec['reenc'] != r['enc']['hex'] \
                    or dec['cls'] != plan['msg'] or not dec['eq']:
                report(ctx, f'{what}: does not round-trip: decoded {dec}', prep)
        for seg, missing in exp['validate'].items():
            v = r['validate'][seg]
            if missing and (v == 'ok' or v.get('err') != 'value'):
                report(ctx, f'{what}: validate({seg}) accepted a segment lacking required {missing}: {v}', prep)
            if not missing and v != 'ok':
                report(ctx, f'{what}: validate({seg}) rejected a segment with all required entries: {v}', prep)
        for (seg, path), want, got in zip(plan.get('containers', []), plan.get('expect_nested', []), r.get('nested_validate', [])):
            if want == 'value' and (got == 'ok' or got.get('err') != 'value'):
                report(ctx, f'{what}: a group instance lacking an entry its group requires passed the validate() of its container '
                            f'{seg}.{".".join(map(str, path))}: {got}', prep)
            if want == 'ok' and got != 'ok':
                report(ctx, f'{what}: validate() of the group container {seg}.{".".join(map(str, path))} rejected instances that carry '
                            f'every entry the dictionary requires (an optional entry is absent): {got}', prep)
        if 'frame' in plan:
            for c in check_frame(d['version'], plan, ref, r.get('frame', {'err': {'cls': 'none', 'msg': 'no frame result', 'err': 'other'}})):
                report(ctx, f'{what}: {c}', prep)


def correspondence(ctx, d, res, fix_ans, load_ans, rep, valid):
    io, mo = impl_outcome(res), model_outcome(fix_ans, load_ans)
    if io[0] == 'crash':
        ctx.notes.append('worker crash: ' + str(io[1])[:200])
        ctx.count('worker-crash')
        return
    if io != mo:
        ctx.disagree(f'outcome: implementation {io} ({(res.get("gen") or {}).get("msg") or (res.get("imp") or {}).get("msg")}) vs model {mo}', rep)
        return
    if io[0] != 'ok':
        return
    mm = un_module(fix_ans)
    ml = un_loaded(load_ans)
    il = dict(res['loaded'])
    il['fields'] = [f[:3] + [f[4]] for f in il['fields']]          # name, tag, type class, Values (key text, quoted, constant name)
    dl = first_diff(il, ml, 'loaded')
    df = first_diff(res['module'], mm, 'module')
    if df:
        # the names of the generated group classes are not observables of the property (it speaks of entries, order, flags and
        # wiring): say whether what is reached THROUGH the message classes still agrees
        ctx.disagree('generated classes (implementation vs model gen) ' + df +
                     ('' if dl else '   [the structure reached through the header / trailer / message classes — entries, order, required '
                      'flags, nested groups, field values — agrees with the model: the difference is in the layout / names of the '
                      'generated classes only]'), rep)
    if dl:
        ctx.disagree('loaded classes, references followed (implementation vs model load∘gen) ' + dl, rep)


# =====================================================================================================================
# malformed dictionaries (outside the quantifier: model/implementation agreement on the outcome only)
# =====================================================================================================================
def gen_malformed(rng, tier):
    d = gen_dict(rng, tier, False)
    d = json.loads(json.dumps(d))
    kind = rng.choice(['undeclared-field', 'undeclared-component', 'cycle', 'self-cycle', 'fields-first', 'unknown-type',
                       'group-without-count-field', 'bad-number', 'two-headers', 'version-type', 'unknown-version', 'dup-component'])
    msgs = all_msgs(d)
    comps = all_comps(d)
    target = rng.choice(msgs)[3] if msgs else None
    if kind == 'undeclared-field' and target is not None:
        target.insert(rng.randint(0, len(target)), ['F', 'Nowhere', 'Y'])
    elif kind == 'undeclared-component' and target is not None:
        target.insert(rng.randint(0, len(target)), ['C', 'NoSuchComponent', 'Y'])
    elif kind == 'cycle' and target is not None:
        for k, p in d['sections']:
            if k == 'components':
                p += [['CycA', [['F', all_fields(d)[0][1], 'Y'], ['C', 'CycB', 'Y']]], ['CycB', [['G', all_fields(d)[0][1], 'N', [['C', 'CycA', 'N']]]]]]
                break
        else:
            d['sections'].insert(0, ['components', [['CycA', [['C', 'CycB', 'Y']]], ['CycB', [['C', 'CycA', 'N']]]]])
        if rng.random() < 0.5:
            target.append(['C', 'CycA', 'Y'])
    elif kind == 'self-cycle':
        d['sections'].insert(rng.randint(0, len(d['sections']) - 1), ['components', [['Selfish', [['C', 'Selfish', 'Y']]]]])
    elif kind == 'fields-first':
        fs = [s for s in d['sections'] if s[0] == 'fields']
        d['sections'] = fs + [s for s in d['sections'] if s[0] != 'fields']
    elif kind == 'unknown-type':
        rng.choice(all_fields(d))[2] = rng.choice(['XMLDATA', 'string', 'TZTIMESTAMP', 'LANGUAGE'])
    elif kind == 'group-without-count-field' and target is not None:
        target.append(['G', 'NoNothing', 'Y', [['F', all_fields(d)[0][1], 'Y']]])
    elif kind == 'bad-number':
        rng.choice(all_fields(d))[0] = rng.choice(['abc', '', '1.5', '0x10', '12a'])
    elif kind == 'two-headers':
        f = all_fields(d)
        d['sections'].insert(0, ['header', [['F', f[0][1], 'Y']]])
        d['sections'].insert(1, ['header', [['F', f[-1][1], 'N']]])
        d['sections'].insert(2, ['trailer', [['F', f[-1][1], 'Y']]])
    elif kind == 'version-type':
        d['version'] = '4.4'
        rng.choice(all_fields(d))[2] = rng.choice(['FIXSTRING', 'TZTIMEONLY', 'MULTIPLECHARVALUE'])
    elif kind == 'unknown-version':
        d['version'] = '4.3'
    elif kind == 'dup-component' and comps:
        c = rng.choice(comps)
        for k, p in d['sections']:
            if k == 'components':
                p.append([c[0], [['F', all_fields(d)[0][1], 'N']]])
                break
    return kind, d


IDENT_CHARS = set('ABCDEFGHIJKLMNOPQRSTUVWXYZabcdefghijklmnopqrstuvwxyz0123456789_')


def plain_enums(d):
    """every enumerated value of a String / boolean based field consists of identifier characters (the alphabet of `wfDict`;
    `wfDictE` admits printable ASCII)"""
    return all(set(e) <= IDENT_CHARS for _n, _nm, ty, vs in all_fields(d) if KIND.get(ty) in ('str', 'bool') for e, _ds in vs)


def py_valid(d):
    """the harness's own notion of a valid dictionary (must coincide with the Lean guard wfDict ∧ supportedVersion on generated cases)"""
    try:
        ref_expand(d)
    except (Invalid, KeyError, ValueError):
        return False
    return d['version'] in SESSION_CLS


# =====================================================================================================================
# run
# =====================================================================================================================
def tables_check(ctx):
    """type tables of the four versions and the keyword list: live objects vs model; live objects vs the FIX value kinds"""
    from nasdaq_protocols.fix.parser.version_types import get_supported_types
    lines = [f'gen.types {v}' for v in VERSIONS] + ['gen.keywords']
    ans = ctx.driver.ask(lines) if ctx.driver.available else [None] * len(lines)
    for v, a in zip(VERSIONS, ans):
        try:
            live = [[k, c.__name__, c.type_cls.__name__] for k, c in get_supported_types(v).items()]
        except Exception as e:  # noqa
            report(ctx, f'get_supported_types({v}) raised {common.err_name(e)}', {'kind': 'type-table', 'version': v})
            continue
        ctx.case(f'types {v}')
        ctx.count('type-table')
        for k, _c, kind in live:
            if KIND.get(k) != kind:
                report(ctx, f'version {v}: FIX type {k} is carried as python {kind}, the FIX value type is {KIND.get(k)}',
                       {'kind': 'type-table', 'version': v, 'type': k})
        if sorted(x[0] for x in live) != sorted(TYPE_NAMES[v]):
            report(ctx, f'version {v}: supported type names {sorted(x[0] for x in live)} differ from {sorted(TYPE_NAMES[v])}',
                   {'kind': 'type-table', 'version': v})
        if a is not None:
            model = [[untext(e[0]), e[1], e[2]] for e in parse_sx(a[3:])[0]] if a.startswith('ok') else a
            if model != live:
                ctx.disagree(f'type table {v}: {first_diff(live, model)}', {'kind': 'type-table', 'version': v})
    # the table of a version must not depend on which tables were asked for before: every order of the four versions, each in a
    # process that starts with a freshly loaded version_types module
    code = ('import sys, json, itertools, importlib\n'
            'sys.path.insert(0, sys.argv[1])\n'
            'from nasdaq_protocols.fix.parser import version_types as vt\n'
            'out = []\n'
            'for perm in itertools.permutations(%r):\n'
            '    vt = importlib.reload(vt)\n'
            '    row = {}\n'
            '    for v in perm:\n'
            '        try:\n'
            '            row[v] = [[k, c.__name__, c.type_cls.__name__] for k, c in vt.get_supported_types(v).items()]\n'
            '        except Exception as e:\n'
            '            row[v] = "raised " + type(e).__name__\n'
            '    out.append([list(perm), row])\n'
            'print(json.dumps(out))\n' % (VERSIONS,))
    try:
        p = subprocess.run([PY, '-W', 'ignore', '-c', code, os.path.join(common.REPO, 'src')], capture_output=True, text=True, timeout=120)
        rows = json.loads([ln for ln in p.stdout.split('\n') if ln.startswith('[')][-1])
    except Exception as e:  # noqa
        rows = []
        ctx.disagree(f'type tables in every order: the probe could not run ({common.err_name(e)})', {'kind': 'type-table', 'order': 'all'})
    model = {}
    for v, a in zip(VERSIONS, ans):
        if a is not None and a.startswith('ok'):
            model[v] = [[untext(e[0]), e[1], e[2]] for e in parse_sx(a[3:])[0]]
    reported = set()
    for perm, row in rows:
        ctx.case('types-order ' + '>'.join(perm))
        ctx.count('type-table-order')
        for v in perm:
            live = row[v]
            rp = {'kind': 'type-table', 'version': v, 'order': perm[:perm.index(v) + 1]}
            if isinstance(live, str):
                if (v, 'raise') not in reported:
                    reported.add((v, 'raise'))
                    report(ctx, f'get_supported_types({v}) {live} after the tables of {rp["order"][:-1]} were asked for', rp)
                continue
            bad = [f'{k} carried as python {kind}, the FIX value type is {KIND.get(k)}' for k, _c, kind in live if KIND.get(k) != kind]
            if sorted(x[0] for x in live) != sorted(TYPE_NAMES[v]):
                extra = sorted(set(x[0] for x in live) - set(TYPE_NAMES[v]))
                missing = sorted(set(TYPE_NAMES[v]) - set(x[0] for x in live))
                bad.append(f'supported type names differ from the documented ones (extra {extra}, missing {missing})')
            if bad and (v, 'names') not in reported:
                reported.add((v, 'names'))
                report(ctx, f'version {v}, asked for after {rp["order"][:-1]}: ' + '; '.join(bad)[:400], rp)
            if v in model and model[v] != live and (v, 'model') not in reported:
                reported.add((v, 'model'))
                ctx.disagree(f'type table {v} asked for after {rp["order"][:-1]}: {first_diff(live, model[v])}', rp)
    if ans[-1] is not None:
        kws = [untext(k) for k in parse_sx(ans[-1])[0]]
        if kws != list(_keyword.kwlist):
            ctx.disagree(f'keyword list: model {kws} vs python {_keyword.kwlist}', {'kind': 'keywords'})


def run_cases(ctx, cases, tmp, workers, groups=None, opts=None):
    """cases: [(label, d, valid, plans)] -> runs workers in parallel and the model in one batch, then judges.
    groups: [(indices into cases, schedule)] — those dictionaries are generated together in one process as the schedule says
    (generator API: construct / generate interleaved) before each package is introspected in its own process."""
    rng = ctx.rng
    jobs = [make_job(tmp, f'{ctx.seed}-{i}-{rng.randrange(1 << 20)}', d, rng, plans, (opts or {}).get(i))
            for i, (_l, d, _v, plans) in enumerate(cases)]
    group_of = {}
    with ThreadPoolExecutor(max_workers=workers) as ex:
        if groups:
            for gi, (idx, _sch) in enumerate(groups):
                for k, i in enumerate(idx):
                    jobs[i]['mode'] = 'api'
                    group_of[i] = (gi, k)
            sched = list(ex.map(lambda g: run_worker({'repo': common.REPO, 'schedule': g[1], 'jobs': [jobs[i] for i in g[0]]}), groups))
            for (idx, _sch), r in zip(groups, sched):
                for k, i in enumerate(idx):
                    jobs[i]['pregen'] = (r.get('gens') or [None] * len(idx))[k] or \
                        {'err': 'other', 'cls': 'none', 'msg': 'generate() was not reached: ' + str(r.get('crash', ''))[-200:]}
        # a dictionary whose generator the schedule constructs but never lets write has no package: nothing to judge
        unwritten = {i for i, (gi, k) in group_of.items() if not any(op[0] == 'g' and op[1] == k for op in groups[gi][1])}
        results = list(ex.map(lambda ij: {'skipped': True} if ij[0] in unwritten else run_worker(ij[1]), enumerate(jobs)))
    lines = []
    for _l, d, _v, _p in cases:
        s = dict_sx(d)
        lines += [f'gen.fix {s}', f'gen.load {s}', f'gen.wf {s}', f'gen.denote {s}', f'gen.scoped {s}', f'gen.wfe {s}']
    ans = ctx.driver.ask(lines) if ctx.driver.available else [None] * len(lines)
    for i, ((label, d, valid, plans), job, res) in enumerate(zip(cases, jobs, results)):
        fix_ans, load_ans, wf_old, den_ans, sc_ans, wf_ans = ans[6 * i:6 * i + 6]
        if res.get('skipped'):
            continue
        rep = {'kind': 'dictionary', 'label': label, 'dict': d, 'mode': job['mode'], 'init_file': job['init_file'],
               'prefix': job['prefix'], 'app': job['app'], 'pkg': job['pkg'], 'valid': valid}
        if i in group_of:
            gi, k = group_of[i]
            idx, sch = groups[gi]
            rep = {'kind': 'interleaved', 'label': label, 'which': k, 'schedule': sch, 'dicts': [cases[j][1] for j in idx],
                   'opts': [{o: jobs[j][o] for o in JOB_OPTS} for j in idx], 'valid': valid,
                   'what': f'dictionary {k} of {len(idx)} generated in one process, schedule {sch}'}
            if plans:
                rep['plans'] = True
            first_g = min([n for n, op in enumerate(sch) if op[0] == 'g'] or [len(sch)])
            ctx.count('interleaved-schedule:' + ('prepare-all-then-write' if all(op[0] == 'g' for op in sch[first_g:]) else 'mixed'))
            ru = reuse_of(sch)
            if k in ru:
                # this package comes from a generator constructed on another member's parse() result
                at = [n for n, op in enumerate(sch) if op[0] == 'c' and op[1] == k][0]
                src_written = any(op[0] == 'g' and op[1] == ru[k] for op in sch[:at])
                others = sum(1 for m, s in ru.items() if s == ru[k] and m != k)
                ctx.count('parsed-object-reused:' + ('source-generated-before' if src_written else 'source-not-yet-generated')
                          + ('+another-reuse' if others else ''))
                rep['what'] += f'; its generator was constructed on the Definitions object parsed for dictionary {ru[k]} (the same file)'
            elif k in ru.values():
                ctx.count('parsed-object-reused:lender')
        ctx.case(json.dumps(d)[:300], nontrivial=True, sample_every=37)
        ctx.count(label)
        ctx.count('mode:' + job['mode'])
        try:
            if 'crash' in res:
                ctx.count('worker-crash')
                ctx.notes.append(f'worker crash on {label}: {str(res["crash"])[:200]}')
                continue
            ctx.count('outcome:' + ':'.join(impl_outcome(res)))
            if valid:
                ref = ref_expand(d)
                ctx.count('groups-classes:' + ('0' if not res.get('module') else '1-9' if len(res['module']['groups']) < 10 else '10-99'
                                               if len(res['module']['groups']) < 100 else '100+'))
                for k in reuse_profile(ref):
                    ctx.count('group-name-reused:' + k)
                if oracle_structure(ctx, d, ref, res, rep) and plans:
                    oracle_behaviour(ctx, d, ref, plans, res, rep)
                    ctx.count('plans', len(plans))
            if fix_ans is not None:
                correspondence(ctx, d, res, fix_ans, load_ans, rep, valid)
                want_wf = 'true' if valid else 'false'
                if valid and wf_ans != want_wf:
                    ctx.disagree(f'the Lean guard wfDictE/supportedVersion says {wf_ans} for a dictionary the generator produced as valid', rep)
                # the older guard (Props/C16.lean) is wfDictE restricted to enumerated values made of identifier characters
                if valid and wf_old != ('true' if plain_enums(d) else 'false'):
                    ctx.disagree(f'the Lean guard wfDict says {wf_old} for a valid dictionary whose enumerated values are '
                                 f'{"all" if plain_enums(d) else "not all"} made of identifier characters', rep)
                ctx.count('enum-alphabet:' + ('identifier-chars' if plain_enums(d) else 'printable-ascii'))
                if wf_ans == 'true':
                    # inside the theorems' hypothesis: model import result = reference semantics, generated module well scoped
                    if load_ans != den_ans:
                        ctx.disagree('model: load (gen d) differs from Spec.FixDict.denote d on a wfDict dictionary', rep)
                    if sc_ans != 'true':
                        ctx.disagree('model: wellScoped (gen d) is false', rep)
                    # the Lean reference semantics as a second oracle for the implementation
                    ml = un_loaded(den_ans)
                    if impl_outcome(res) == ('ok',) and not isinstance(ml, tuple):
                        il = dict(res['loaded'])
                        il['fields'] = sorted(f[:3] + [f[4]] for f in il['fields'])
                        ml['fields'] = sorted(ml['fields'])
                        df = first_diff(il, ml, 'loaded')
                        if df:
                            report(ctx, 'generated classes differ from Spec.FixDict.denote: ' + df, rep)
        except Exception as e:  # noqa
            import traceback
            ctx.notes.append(f'harness error on {label}: {traceback.format_exc()[-400:]}')
            ctx.disagree(f'harness could not judge the case: {common.err_name(e)} {e}', rep)
    return results


def run(ctx):
    rng = ctx.rng
    quick = ctx.tier == 'quick'
    n_clean, n_struct, n_mal, n_42 = (200, 200, 110, 6) if quick else (2400, 2400, 1200, 60)
    n_groups = 45 if quick else 500
    workers = min(14, os.cpu_count() or 4)
    ctx.cov['rule'] = ('one case = one dictionary through the real generator in a fresh process: "clean" (standard header/trailer, tags '
                       'distinct per message; structure + build/encode/decode/validate/frame plans), "structural" (free reuse of fields, '
                       'groups and components, any section order with <fields> last), boundary dictionaries (all type names of each version, '
                       'a group name used 12 times, depth-4 nesting, component chains declared in both orders), extra FIX 4.2 dictionaries '
                       '(regression of the repaired finding C16-fix42), malformed dictionaries (outcome agreement only); interleaved groups: '
                       '2..3 dictionaries of any versions generated in ONE process at the granularity of the generator API (construct i / '
                       'generate i in any interleaving, "prepare all then write all" among them), each package judged against its own '
                       'dictionary; in half of the groups one parse() result (one Definitions object) is handed to 2..3 generators with '
                       'their own app name / prefix / directory, constructed before or after the first one wrote (histogram '
                       'parsed-object-reused:*), each of those packages judged against the dictionary; type tables asked for in every order of the four versions; enumerated values over printable ASCII '
                       '(histogram enum-alphabet:*); in ~55 % of the dictionaries one group is used 2..3 times (messages, components, header, '
                       'nested) with definitions identical or differing in exactly one thing (histogram group-name-reused:* is measured on '
                       'the reference expansion of every dictionary); plans per message: full, partial, missing (a required body entry), '
                       'lean (only what is required), nested-missing (a required entry / nested group dropped from a group instance at any '
                       'depth), validate() of every group container judged; distinct = distinct dictionary JSON')
    ctx.notes += [
        'ElementTree parsing, chevron rendering and the Python import machinery are on the implementation side of the correspondence only; '
        'the model is the element tree -> abstract classes -> references followed by name',
        'Python\'s recursion limit is not modelled (component / group nesting depth of the generated cases stays far below it)',
        'enumerated values: /repo 8c9ad6b (HTML-escaped values) is a regression in corpus/C16/enum-values-special-chars.json; theorems '
        'Props/C16Enum (guard wfDictE: values over printable ASCII), Witness/C16Enum (the escaping semantics differs); group classes '
        'shared between uses (seeded/C16j): corpus/C16/group-twin-nested-flag.json, Witness/C16Dedup',
        'FIX 4.2 generation was repaired by /repo b154f58; the theorems cover all four versions, the former counterexample is a regression '
        '(Witness.C16, corpus/C16/fix42-regression*.json)',
        'the codec/framing clause (C13/C14 instances for generated classes) is checked on the implementation only; the Lean composition '
        'theorem C16_roundtrip_and_frame is wired by the coordinator once Model/Fix.lean exists',
    ]
    tmp = tempfile.mkdtemp(prefix='c16-')
    try:
        tables_check(ctx)
        cases = []
        cdir = os.path.join(common.VERIF, 'corpus', 'C16')
        if os.path.isdir(cdir):
            for f in sorted(os.listdir(cdir)):
                c = json.load(open(os.path.join(cdir, f)))
                d = c['dict']
                v = py_valid(d)
                cases.append(('corpus:' + f, d, v, make_plans(rng, d, ref_expand(d), ctx.tier) if c.get('plans') and v else []))
        for d in boundary_dicts():
            cases.append(('boundary', d, True, []))
        for _ in range(n_clean):
            d = gen_dict(rng, ctx.tier, True)
            cases.append(('clean', d, True, make_plans(rng, d, ref_expand(d), ctx.tier)))
        for _ in range(n_struct):
            cases.append(('structural', gen_dict(rng, ctx.tier, False), True, []))
        for _ in range(n_42):
            clean = rng.random() < 0.5
            d = gen_dict(rng, ctx.tier, clean, '4.2')
            cases.append(('fix42', d, True, make_plans(rng, d, ref_expand(d), ctx.tier) if clean else []))
        for _ in range(n_mal):
            kind, d = gen_malformed(rng, ctx.tier)
            cases.append(('malformed:' + kind, d, False, []))
        chunk = 200
        for i in range(0, len(cases), chunk):
            run_cases(ctx, cases[i:i + chunk], tmp, workers)
            if len(ctx.violations) >= 5:
                break
        # interleaved groups (after the single cases: a violation found above is the simpler replay)
        gcases, groups = [], []
        # deterministic groups first: the boundary dictionaries prepared together, then written (both orders of construction)
        bd = boundary_dicts()
        for members, sch in (([4, 5], [['c', 0], ['c', 1], ['g', 0], ['g', 1]]), ([5, 4], [['c', 0], ['c', 1], ['g', 1], ['g', 0]]),
                             ([6, 0, 9], [['c', 0], ['c', 1], ['c', 2], ['g', 0], ['g', 1], ['g', 2]]),
                             ([3, 4], [['c', 0], ['c', 1], ['g', 1], ['g', 0], ['g', 1]])):
            groups.append(([len(gcases) + k for k in range(len(members))], sch))
            gcases += [('interleaved-boundary', bd[m], True, []) for m in members]
        # ONE parse() result handed to several generators (other app name / prefix / package directory): the deep dictionary
        # twice (written before / after the second construction), the 12-uses dictionary parsed first and used by two
        # generators, a component chain three times with another dictionary's generator in between
        for members, sch in (([4, 4], [['c', 0], ['g', 0], ['c', 1, 0], ['g', 1]]), ([4, 4], [['c', 0], ['c', 1, 0], ['g', 1], ['g', 0]]),
                             ([5, 5], [['p', 0], ['c', 1, 0], ['c', 0, 0], ['g', 0], ['g', 1]]),
                             ([9, 4, 9, 9], [['c', 0], ['g', 0], ['c', 1], ['c', 2, 0], ['g', 1], ['g', 2], ['c', 3, 0], ['g', 3]])):
            groups.append(([len(gcases) + k for k in range(len(members))], sch))
            gcases += [('interleaved-boundary-reuse' if k in reuse_of(sch) else 'interleaved-boundary', bd[m], True, [])
                       for k, m in enumerate(members)]
        for _ in range(n_groups):
            n = rng.choice([2, 2, 2, 3])
            idx, cleans = [], []
            for _k in range(n):
                clean = rng.random() < 0.6
                d = gen_dict(rng, ctx.tier, clean)
                idx.append(len(gcases))
                cleans.append(clean)
                gcases.append(('interleaved', d, True, make_plans(rng, d, ref_expand(d), ctx.tier) if clean and rng.random() < 0.5 else []))
            # in half of the groups 1..2 further generators are constructed on the Definitions object parsed for one of the
            # dictionaries above (the same file, no second parse; own app name / prefix / package / directory): every package is
            # judged against that dictionary on its own, exactly like the package of the generator that parsed it
            reuse = {}
            if rng.random() < 0.5:
                for _k in range(rng.choice([1, 1, 2])):
                    s = rng.randrange(n)
                    d = gcases[idx[s]][1]
                    reuse[len(idx)] = s
                    idx.append(len(gcases))
                    gcases.append(('interleaved-reuse', d, True,
                                   make_plans(rng, d, ref_expand(d), ctx.tier) if cleans[s] and rng.random() < 0.5 else []))
            groups.append((idx, gen_schedule(rng, len(idx), reuse)))
        per = 40
        for i in range(0, len(groups), per):
            if len(ctx.violations) >= 5:
                break
            part = groups[i:i + per]
            lo, hi = part[0][0][0], part[-1][0][-1] + 1
            run_cases(ctx, gcases[lo:hi], tmp, workers, groups=[([j - lo for j in idx], sch) for idx, sch in part])
        if ctx.violations:
            shrink_first(ctx, tmp)
    finally:
        shutil.rmtree(tmp, ignore_errors=True)


# =====================================================================================================================
# shrinking and replay
# =====================================================================================================================
def judge_one(d, plans_wanted, tmp, tag, ctx_like):
    """run one dictionary (valid) through worker + oracle with a scratch context; returns the list of violation texts"""
    import random as _r

    class Scratch:
        def __init__(self):
            self.violations, self.known_hits, self.notes, self.disagreements = [], [], [], []
            self.prop = ctx_like.prop

        def violation(self, what, rep):
            self.violations.append((what, rep))

        def count(self, *a, **k):
            pass
    sc = Scratch()
    rng = _r.Random(tag)
    try:
        ref = ref_expand(d)
    except Exception:  # noqa
        return None
    plans = make_plans(rng, d, ref, 'quick') if plans_wanted else []
    job = make_job(tmp, f'shrink-{tag}', d, rng, plans)
    res = run_worker(job)
    if 'crash' in res:
        return None
    rep = {'kind': 'dictionary', 'dict': d}
    if oracle_structure(sc, d, ref, res, rep) and plans:
        oracle_behaviour(sc, d, ref, plans, res, rep)
    return sc.violations


def shrink_first(ctx, tmp, budget=140, seconds=50.0):
    """delta-debugging on the dictionary, coarse to fine, while a violation of the same leading kind remains: chunks of messages,
    components, header / trailer / message / component / group entries (a group is deleted or replaced by its content), then the
    fields nothing refers to, chunks of the others, the enumerated values of every field, and the characters of every value"""
    what, rep = ctx.violations[0]
    if rep.get('kind') == 'interleaved':
        return shrink_group(ctx, tmp)
    if rep.get('kind') != 'dictionary':
        return
    key = what.split(':')[0][:40]
    plans_wanted = 'plan' in rep
    d = shrink_dict(json.loads(json.dumps(rep['dict'])), key, lambda dd, tag: judge_one(dd, plans_wanted, tmp, tag, ctx), budget, seconds)
    v = judge_one(d, plans_wanted, tmp, 'final', ctx)
    if v and any(w.split(':')[0][:40] == key for w, _ in v):
        w, r = [x for x in v if x[0].split(':')[0][:40] == key][0]
        r = dict(r, label='shrunk', shrunk_from_size=len(json.dumps(rep['dict'])))
        ctx.violations[0] = (w, r)


def shrink_dict(d, key, judge, budget=140, seconds=50.0):
    """the delta-debugging of `shrink_first` on dictionary `d` (changed in place and returned).  `judge(copy of d, tag)` -> the list
    of (what, replay) violations the candidate still shows (None: could not be run); a candidate is kept while one of them has
    the leading kind `key`"""
    import time as _time
    n = [0]
    t_end = _time.monotonic() + seconds

    def still():
        if n[0] >= budget or _time.monotonic() > t_end or not py_valid(d):
            return False
        n[0] += 1
        v = judge(json.loads(json.dumps(d)), n[0])
        return bool(v) and any(w.split(':')[0][:40] == key for w, _ in v)

    def reduce_list(lst, unwrap=False):
        """remove chunks of `lst` (in place), halving the chunk size; with `unwrap` a group item that cannot go is replaced by its content"""
        chunk = len(lst)
        while chunk >= 1 and lst:
            i = 0
            while i < len(lst):
                saved = lst[i:i + chunk]
                del lst[i:i + chunk]
                if still():
                    continue
                lst[i:i] = saved
                if unwrap and chunk == 1 and saved[0][0] == 'G' and saved[0][3]:
                    lst[i:i + 1] = saved[0][3]
                    if still():
                        continue
                    lst[i:i + len(saved[0][3])] = saved
                i += chunk
            chunk //= 2

    def reduce_items(items):
        reduce_list(items, unwrap=True)
        for it in items:
            if it[0] == 'G':
                reduce_items(it[3])

    def containers():
        for k, p in d['sections']:
            if k in ('header', 'trailer'):
                yield p
            elif k in ('messages', 'components'):
                for m in p:
                    yield m[-1]

    for k, p in d['sections']:
        if k in ('messages', 'components'):
            reduce_list(p)
    for items in list(containers()):
        reduce_items(items)

    def drop_name(items, name):
        items[:] = [it for it in items if it[1] != name]
        for it in items:
            if it[0] == 'G':
                drop_name(it[3], name)

    # the uses of a reused group shrink only together: drop a name from every entry list at once
    memo = {}
    comps = {c[0]: c[1] for c in all_comps(d)}
    for name in sorted(set().union(*[closure(items, comps, memo) for items in containers()] or [set()])):
        backup = json.dumps(d['sections'])
        for items in containers():
            drop_name(items, name)
        if json.dumps(d['sections']) == backup or not still():
            d['sections'] = json.loads(backup)
    for k, p in d['sections']:
        if k in ('messages', 'components'):
            reduce_list(p)
    used, memo = set(), {}
    comps = {c[0]: c[1] for c in all_comps(d)}
    for items in containers():
        used |= closure(items, comps, memo)
    for sec in d['sections']:
        if sec[0] == 'fields':
            keep = [f for f in sec[1] if f[1] in used or f[1] in STD]
            saved, sec[1][:] = list(sec[1]), keep
            if not still():
                sec[1][:] = saved
            reduce_list(sec[1])
            for f in sec[1]:
                if f[3]:
                    reduce_list(f[3])
                for v in f[3]:                      # the characters of an enumerated value
                    if len(v[0]) > 1:
                        chars = list(v[0])
                        orig = v[0]

                        class Key(list):
                            pass
                        lst = Key(chars)
                        chunk = len(lst)
                        while chunk >= 1:
                            i = 0
                            while i < len(lst) and len(lst) > 1:
                                cand = lst[:i] + lst[i + chunk:]
                                if cand:
                                    v[0] = ''.join(cand)
                                    if still():
                                        lst[:] = cand
                                        continue
                                i += chunk
                            chunk //= 2
                        v[0] = ''.join(lst) or orig
    return d


def shrink_group(ctx, tmp):
    """an interleaved group: first whether the failing dictionary fails alone (then it is a plain dictionary case), else the
    smallest group and schedule that still fails: the failing dictionary, one other, `c a, c b, g a` / `c b, c a, g a` / `c a, g a`"""
    what, rep = ctx.violations[0]
    key = what.split(':')[0][:40]
    w = rep['which']
    dicts, opts = rep['dicts'], rep.get('opts', [{}] * len(rep['dicts']))

    class Scratch:
        def __init__(self):
            self.violations, self.known_hits, self.notes, self.disagreements = [], [], [], []
            self.prop, self.seed, self.rng, self.tier = ctx.prop, ctx.seed, ctx.rng, ctx.tier
            self.driver = type('D', (), {'available': False})()

        def violation(self, what_, rep_):
            self.violations.append((what_, rep_))

        def disagree(self, *a, **k):
            pass

        def count(self, *a, **k):
            pass

        def case(self, *a, **k):
            pass

    def attempt(members, schedule, at=0, use=None):
        """the group `members` (indices into the failing group) under `schedule`; a hit = the same kind of violation on the
        package at position `at`.  `use`: a dictionary to put in the place of every member (shrinking a shared dictionary)."""
        sc = Scratch()
        ds = [use if use is not None else dicts[m] for m in members]
        cases = [('shrunk', d, True, make_plans(ctx.rng, d, ref_expand(d), 'quick') if k == at and 'plan' in rep else [])
                 for k, d in enumerate(ds)]
        try:
            run_cases(sc, cases, tmp, 3, groups=[(list(range(len(members))), schedule)], opts={k: opts[m] for k, m in enumerate(members)})
        except Exception:  # noqa
            return None
        hits = [(a, b) for a, b in sc.violations if a.split(':')[0][:40] == key and b.get('which') == at]
        return hits[0] if hits else None
    ru = reuse_of(rep['schedule'])
    try:
        cands = [([w], [['c', 0], ['g', 0]], 0)]
        if w in ru:
            # the failing package's generator was constructed on another member's parse() result: that pair alone — nothing but
            # the shared parse; the lender constructed too; the lender written before / after the second construction
            s = ru[w]
            cands += [([s, w], [['p', 0], ['c', 1, 0], ['g', 1]], 1), ([s, w], [['c', 0], ['c', 1, 0], ['g', 1]], 1),
                      ([s, w], [['c', 0], ['g', 0], ['c', 1, 0], ['g', 1]], 1), ([s, w], [['c', 0], ['c', 1, 0], ['g', 0], ['g', 1]], 1)]
        for m in [m for m, s in ru.items() if s == w]:
            # the failing package lent its parse() result to generator m
            cands += [([w, m], [['c', 0], ['c', 1, 0], ['g', 0]], 0), ([w, m], [['c', 0], ['c', 1, 0], ['g', 1], ['g', 0]], 0)]
        for j in [m for m in range(len(dicts)) if m != w]:
            cands += [([w, j], [['c', 0], ['c', 1], ['g', 0]], 0), ([w, j], [['c', 1], ['c', 0], ['g', 0]], 0),
                      ([w, j], [['c', 1], ['g', 1], ['c', 0], ['g', 0]], 0)]
        for members, schedule, at in cands:
            hit = attempt(members, schedule, at)
            if hit:
                ctx.violations[0] = (hit[0], dict(hit[1], label='shrunk', shrunk_from=f'{len(dicts)} dictionaries, schedule {rep["schedule"]}'))
                if len(members) > 1 and dicts[members[0]] == dicts[members[1]]:
                    shrink_shared(ctx, members, schedule, at, attempt)
                return
    except Exception:  # noqa
        pass


def shrink_shared(ctx, members, schedule, at, attempt, budget=60, seconds=40.0):
    """two generators on ONE parsed dictionary: shrink that dictionary (both members get the candidate) while the package at
    `at` keeps failing the same way"""
    import time as _time
    what, rep = ctx.violations[0]
    d0 = rep['dicts'][at]
    n, t_end = [0], _time.monotonic() + seconds

    def judge(d, _tag):
        if n[0] >= budget or _time.monotonic() > t_end:
            return None
        n[0] += 1
        hit = attempt(members, schedule, at, use=d)
        return [hit] if hit else []
    d = shrink_dict(json.loads(json.dumps(d0)), what.split(':')[0][:40], judge, budget=10 ** 6, seconds=seconds)
    if d != d0:
        hit = attempt(members, schedule, at, use=d)
        if hit:
            ctx.violations[0] = (hit[0], dict(hit[1], label='shrunk', shrunk_from=rep.get('shrunk_from'), shrunk_from_size=len(json.dumps(d0))))


def replay(ctx, path):
    r = json.load(open(path))
    rep = r.get('replay') or (r.get('no_longer_checks') or [{}])[-1].get('case') or {}
    ctx.cov['rule'] = 'replay of ' + path
    if rep.get('kind') in ('fix-version-4.2', 'dictionary'):
        d = rep['dict']
        valid = rep.get('valid', True)
        tmp = tempfile.mkdtemp(prefix='c16-')
        try:
            ref = ref_expand(d) if valid else None
            plans = make_plans(ctx.rng, d, ref, 'quick') if valid and 'plan' in rep else []
            res = run_cases(ctx, [('replay', d, valid, plans)], tmp, 1)[0]
            ctx.case('replay-marker')
            print('implementation:', json.dumps({k: res.get(k) for k in ('gen', 'imp', 'checks')})[:600])
            if res.get('loaded'):
                print('loaded:', json.dumps(res['loaded'])[:1500])
            if ctx.driver.available:
                print('model:', json.dumps(un_loaded(ctx.driver.ask([f'gen.load {dict_sx(d)}'])[0]))[:1500])
        finally:
            shutil.rmtree(tmp, ignore_errors=True)
    elif rep.get('kind') == 'interleaved':
        tmp = tempfile.mkdtemp(prefix='c16-')
        try:
            cases = []
            for k, d in enumerate(rep['dicts']):
                want = k == rep['which'] and ('plan' in rep or rep.get('plans'))
                cases.append(('replay', d, True, make_plans(ctx.rng, d, ref_expand(d), 'quick') if want else []))
            res = run_cases(ctx, cases, tmp, 3, groups=[(list(range(len(cases))), rep['schedule'])],
                            opts={k: o for k, o in enumerate(rep.get('opts', []))})
            ctx.case('replay-marker')
            print('schedule ([c, i] = parse dictionary i + construct its Generator, [p, i] = parse only, [c, i, s] = construct Generator i '
                  'on the Definitions object parsed for s, [g, i] = generate()):', rep['schedule'])
            for k, r in enumerate(res):
                print(f'dictionary {k}:', json.dumps({x: r.get(x) for x in ('gen', 'imp', 'checks')})[:500])
            r = res[rep['which']]
            if r.get('loaded'):
                print('loaded:', json.dumps(r['loaded'])[:1500])
        finally:
            shutil.rmtree(tmp, ignore_errors=True)
    elif rep.get('kind') in ('type-table', 'keywords'):
        tables_check(ctx)
        ctx.case('replay-marker')
