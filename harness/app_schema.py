"""Application sessions (ITCH / OUCH / SQF client sessions on top of SoupBinTCP) over RICH message schemas.

harness/app_sessions.py drives the application layer with one flat message class per protocol (`VfMsg`: a single integer).  C04
quantifies over every decodable application message: which message *class* and which *value* travels is part of "any message
sequence".  This module builds, per protocol, one application whose messages cover the field shapes the binary codec offers

    flat            integers and a string                         arr-int       Array(<integer>)
    arr-char        Array(CharAscii)                              arr-str       Array(AsciiString) + Array(Boolean)
    arr-rec         Array(<record>)                               emb-rec       a field that IS a record
    nested          records in records, arrays of records that hold arrays of scalars (two levels)
    optrec          an optional record (present / absent)         arr-recrec    Array of records holding records / optional records
    blob            a string of 300 - 1200 characters             mixed         arrays, optional record and embedded record side by side

and a deterministic value for every token n (the script items of app_sessions are integers): the shape is n mod K, the *variant*
(n div K) mod 4 decides the sizes — 0: every array empty, every optional record absent, strings empty; 1: one element each; 2, 3: two
to five elements each, values drawn from a generator seeded with n.  The classes are built with the builders of the codec checks
(harness/bincodec_common.py: `Builder`, `build_messages`), i.e. the way the code generator writes them.

`token(m)` maps a decoded message back to n only if it is an instance of the class n was encoded with AND reads back, field by
field through the typed attributes, as the value n stands for; anything else is the token INVENTED.

The scenarios are those of app_sessions (`gen_app_scenario`: random scripts and the dense templates, pull and callback consumers,
callback behaviours, cancels, closes) with their tokens renumbered (`renumber`) so that a scenario's messages run through
consecutive shapes and variants; they are run on the real session classes by `app_sessions.run_app_scenario` (with the rich
application in place of the flat one), replayed event by event through the Lean product machine (`app.run`) and judged by
`app_sessions.app_oracle` — all unchanged.  Model side: `Model/AppSession.lean` takes `decode` as a parameter (`dec id` for every
decodable payload: the token IS the decoded value), so the theorems of Props/C04App quantify over these applications already;
nothing changes in Lean.
"""
import contextlib
import json
import os
import random

import app_sessions as AS
import bincodec_common as BC
from common import VERIF

VERSION = 'rich-1'          # the catalogue below is part of every replay file: change the tag when the catalogue changes
KINDS = ['itch', 'ouch', 'sqf']

_I1, _I2, _I4, _I8 = ['int', 1, False, False], ['int', 2, True, True], ['int', 4, True, True], ['int', 8, True, True]
_I4LE, _U2 = ['int', 4, True, False], ['int', 2, False, True]
_STR, _CHR = ['str', False], ['char', False]


def _rec(kind, *ftys):
    return [kind] + [[i + 1, t, 'none'] for i, t in enumerate(ftys)]


def _arr(elem, count=(2, False, True)):
    return ['arr', elem] + list(count)


# (name, body record): field 1 is always the token
SHAPES = [
    ('flat', _rec('record', _I8, _I4, _STR, 'bool')),
    ('arr-int', _rec('record', _I8, _arr(_I4))),
    ('arr-char', _rec('record', _I8, _arr(_CHR, (2, True, False)))),
    ('arr-str', _rec('record', _I8, _arr(_STR), _arr('bool', (1, False, False)))),
    ('arr-rec', _rec('record', _I8, _arr(_rec('record', _I4, _I4)))),
    ('emb-rec', _rec('record', _I8, _rec('record', _I4, _STR))),
    ('nested', _rec('record', _I8,
                    _rec('record', _I2, _rec('record', _I8, _arr(_I2))),
                    _arr(_rec('record', _CHR, _arr(_I4LE, (2, False, False)))))),
    ('optrec', _rec('record', _I8, _rec('optrec', _I4, _STR), _I2)),
    ('arr-recrec', _rec('record', _I8, _arr(_rec('record', _I4, _rec('record', 'bool', _U2), _rec('optrec', _I1))))),
    ('blob', _rec('record', _I8, _STR)),
    ('mixed', _rec('record', _I8, _arr(_I8, (2, True, False)), _rec('optrec', _arr(_CHR)), _rec('record', _arr(_rec('record', _I1))), _I4)),
]
K = len(SHAPES)
VARIANTS = ('empty', 'single', 'several', 'several')
LETTERS = 'ABCDEFGHIJKLMNOPQRSTUVWXYZabcdefghijklmnopqrstuvwxyz0123456789'


def shape_of(n):
    return n % K, VARIANTS[(n // K) % 4]


def _fill(ty, r, variant, as_elem=False, blob=False):
    """a value of type `ty` (val tree of bincodec_common) inside the codec's round-trip domain; sizes by variant"""
    k = BC.kind(ty)
    size = 0 if variant == 'empty' else 1 if variant == 'single' else r.randint(2, 5)
    if k == 'int':
        return ['i', BC.gen_int(r, ty[1], ty[2])]
    if k == 'bool':
        return ['b', r.random() < 0.5]
    if k == 'char':
        return ['s', ord(r.choice(LETTERS))]
    if k == 'str':
        n = r.randint(300, 1200) if blob else (size if size < 2 else r.randint(2, 12))
        return ['s'] + [ord(r.choice(LETTERS)) for _ in range(n)]
    if k in ('record', 'optrec'):
        if k == 'optrec' and not as_elem and variant == 'empty':
            return ['r']                   # nothing assigned: an absent optional record
        return ['r'] + [[n, _fill(fty, r, variant, blob=blob)] for n, fty, _d in BC.fields_of(ty)]
    if k == 'arr':
        return ['l'] + [_fill(ty[1], r, variant, as_elem=True) for _ in range(size)]
    raise ValueError(ty)


def value_of(n):
    """(shape index, body value) the token n stands for"""
    k, variant = shape_of(n)
    name, body = SHAPES[k]
    r = random.Random(f'{VERSION}:{n}')
    v = _fill(body, r, variant, blob=(name == 'blob'))
    v[1] = [1, ['i', n]]
    return k, v


class Defs:
    """the rich application of one protocol: session class, payload(n), token(decoded)"""

    def __init__(self, kind):
        from nasdaq_protocols.common import Record, Field, LongBE
        from nasdaq_protocols import itch, ouch, sqf
        self.kind = kind
        self.B = BC.Builder()
        self.base, self.classes = BC.build_messages(self.B, None, kind, [(20 + k, body) for k, (_name, body) in enumerate(SHAPES)])
        base = self.base
        extra = {} if kind == 'itch' else {'direction': 'outgoing'}

        class VfMsg(base, indicator=7, **extra):          # what the script item ('send',) sends (as the flat application)
            class BodyRecord(Record):
                Fields = [Field('n', LongBE)]

        impl = {'itch': itch, 'ouch': ouch, 'sqf': sqf}[kind]

        class Sess0(impl.ClientSession):
            @classmethod
            def decode(cls, bytes_):
                return base.from_bytes(bytes_)

        self.session_cls = AS._wrap_session(Sess0)
        self.session_cls.VfMsg = VfMsg
        self._msgs = {}

    def message(self, n):
        """the message object token n stands for (built once through the typed attributes)"""
        if n not in self._msgs:
            k, v = value_of(n)
            body = SHAPES[k][1]
            msg = self.classes[k]()
            rec = self.B.from_val(body, v, typed=True)
            for name in list(rec.values):
                setattr(msg, name, rec.values[name])
            if len(self._msgs) > 20000:
                self._msgs.clear()
            self._msgs[n] = (k, msg, bytes(msg.to_bytes()[1]))
        return self._msgs[n]

    def payload(self, n):
        return self.message(n)[2]

    def token(self, m):
        if not isinstance(m, self.base) or type(m) not in self.classes:
            return AS.INVENTED
        try:
            n = m.f1
            if not isinstance(n, int) or isinstance(n, bool) or not 0 < n < AS.INVENTED:
                return AS.INVENTED
            k, msg, _b = self.message(n)
            if type(m) is not self.classes[k]:
                return AS.INVENTED
            body = SHAPES[k][1]
            if BC.reads_differ(body, msg.record, m.record):
                return AS.INVENTED
        except Exception:   # noqa — an object that cannot even be read is not a message that was sent
            return AS.INVENTED
        return n

    def as_tuple(self):
        return self.session_cls, self.payload, self.token


_RICH = {}


def defs(kind):
    if kind not in _RICH:
        _RICH[kind] = Defs(kind)
    return _RICH[kind]


@contextlib.contextmanager
def rich(kind):
    """run app_sessions with the rich application of `kind` in place of its flat one"""
    missing = object()
    flat = AS._DEFS.get(kind, missing)
    AS._DEFS[kind] = defs(kind).as_tuple()
    try:
        yield
    finally:
        if flat is missing:
            AS._DEFS.pop(kind, None)
        else:
            AS._DEFS[kind] = flat


def run_sc(sc):
    with rich(sc['kind']):
        return AS.run_sc(sc)


# ------------------------------------------------------------------ scenarios
def renumber(sc, base, step):
    """token n -> base + n * step everywhere (data items, the segment of the login acceptance, callback behaviours)"""
    f = lambda n: base + n * step

    def tok(t):
        if isinstance(t, int):
            return f(t)
        if isinstance(t, (tuple, list)) and t[0] in ('bad', 'dbg', 'empty'):
            return (t[0], f(t[1]))
        return t
    out = dict(sc)
    out['script'] = [('data', [tok(t) for t in it[1]]) if it[0] == 'data' else it for it in sc['script']]
    out['first'] = [tok(t) for t in sc.get('first', [])]
    out['msg_beh'] = {f(n): b for n, b in sc['msg_beh'].items()}
    return out


def gen_scenario(rng):
    sc = AS.gen_app_scenario(rng, kinds=KINDS)
    if rng.random() < 0.5:
        # more traffic: the random scripts of app_sessions carry 1 - 4 messages per segment
        extra, n0 = [], 500
        for _ in range(rng.randint(1, 3)):
            k = rng.randint(2, 6)
            extra += [('data', list(range(n0, n0 + k))), ('advance', rng.choice([0.0001, 0.0003, 0.001]))]
            n0 += k
        pos = rng.randint(0, min(2, len(sc['script'])))
        sc['script'] = sc['script'][:pos] + extra + sc['script'][pos:]
        if sc['mode'] == 'pull':
            u0 = 50
            for j in range(rng.randint(1, 4)):
                sc['script'] += [('recv', u0 + j), ('turns', rng.randint(1, 3))]
    return renumber(sc, rng.randrange(0, 4 * K) + 1, rng.choice([1, 1, K + 1, 2 * K + 1]))


def tokens_of(sc):
    out = []
    for it in [('data', sc.get('first', []))] + list(sc['script']):
        if it[0] == 'data':
            out += [t for t in it[1] if isinstance(t, int)]
    return out


def replay_dict(sc, kind='scenario'):
    return {'kind': kind, 'app_schema': VERSION, 'app_scenario': AS.sc_to_json(sc)}


def shrink(sc, prop, key, budget=40):
    """drop script items / messages while the same oracle failure persists"""
    def fails(c):
        try:
            return any(w[:40] == key for w, _k in AS.app_oracle(c, run_sc(c), prop))
        except Exception:   # noqa
            return False
    cur, tries, changed = sc, 0, True
    while changed and tries < budget:
        changed = False
        for i in range(len(cur['script']) - 1, -1, -1):
            if tries >= budget:
                break
            it = cur['script'][i]
            cands = [dict(cur, script=cur['script'][:i] + cur['script'][i + 1:])]
            if it[0] == 'data' and len(it[1]) > 1:
                cands += [dict(cur, script=cur['script'][:i] + [('data', it[1][:j] + it[1][j + 1:])] + cur['script'][i + 1:])
                          for j in range(len(it[1]))]
            for cand in cands:
                tries += 1
                if fails(cand):
                    cur, changed = cand, True
                    break
            if changed:
                break
    return cur


def run(ctx, prop='C04'):
    rng = ctx.rng
    n = 100 if ctx.tier == 'quick' else 2500
    cases = []
    cdir = os.path.join(VERIF, 'corpus', 'C04-schema')
    if os.path.isdir(cdir):
        for fn in sorted(os.listdir(cdir)):
            if fn.endswith('.json'):
                cases.append(AS.sc_from_json(json.load(open(os.path.join(cdir, fn)))['app_scenario']))
    cases += [gen_scenario(random.Random(rng.random())) for _ in range(n)]
    done, reqs = [], []
    for sc in cases:
        try:
            out = run_sc(sc)
        except Exception as e:   # noqa — the (possibly modified) library broke the run itself: an observation
            ctx.violation(f'running the application-session scenario (rich schema) raised {type(e).__name__}: {e}', replay_dict(sc))
            continue
        done.append((sc, out))
        reqs.append(AS.model_request(sc, out['log']))
    use_model = bool(ctx.driver and ctx.driver.available and ctx.lean.build_ok)
    answers = ctx.driver.ask(reqs) if use_model else [None] * len(reqs)
    n_events = 0
    for (sc, out), ans in zip(done, answers):
        n_events += len(out['log'])
        ctx.case({'app_schema': VERSION, 'app_scenario': {k: (v if k != 'script' else v[:8]) for k, v in AS.sc_to_json(sc).items()}},
                 nontrivial=len(out['obs']) >= 2, sample_every=29)
        ctx.count('schema-app:' + sc['kind'] + ':' + sc['mode'])
        for t in tokens_of(sc):
            k, variant = shape_of(t)
            ctx.count(f'schema-msg:{SHAPES[k][0]}:{variant}')
        rep = replay_dict(sc)
        for what, kind in AS.app_oracle(sc, out, prop):
            if kind == 'scenario' and len(ctx.violations) < 3:
                small = shrink(sc, prop, what[:40])
                outs = AS.app_oracle(small, run_sc(small), prop)
                what = next((w for w, _k in outs if w[:40] == what[:40]), what)
                rep = replay_dict(small)
                shapes = sorted({'%s/%s' % (SHAPES[shape_of(t)[0]][0], shape_of(t)[1]) for t in tokens_of(small)})
                what += f'  [rich application schema {VERSION}; message shapes in this scenario: {", ".join(shapes)}]'
            ctx.violation(what, dict(rep, kind=kind))
        if ans is not None:
            try:
                dis = AS.compare(sc, out, ans)
            except Exception as e:   # noqa
                dis = [f'could not compare: {type(e).__name__}: {e}']
            if dis:
                ctx.disagree('application session (rich schema): ' + dis[0], rep)
    ctx.cov['schema_app_events_replayed'] = n_events
    ctx.notes.append(f'application sessions over a rich message schema ({VERSION}: {K} message classes per protocol — '
                     + ', '.join(name for name, _ in SHAPES) + '; per token one of 4 size variants: all arrays empty and optional records '
                     'absent / one element / several): the scenarios of the application layer (pull and callback consumers) with these '
                     'messages; the Lean product machine takes `decode` as a parameter (Model/AppSession.lean), so model and theorems are '
                     'unchanged — the token of a message is its decoded value' + ('' if use_model else ' — MODEL UNAVAILABLE in this run: oracle only'))


def replay(ctx, prop, rep):
    if rep.get('app_schema') != VERSION:
        print(f'note: replay written for schema {rep.get("app_schema")}, this harness has {VERSION}')
    sc = AS.sc_from_json(rep['app_scenario'])
    for t in tokens_of(sc):
        k, variant = shape_of(t)
        print(f'message {t}: {SHAPES[k][0]} / {variant}: {BC.short(BC.sx(value_of(t)[1]), 160)}')
    with rich(sc['kind']):
        AS.replay_app(ctx, prop, rep)
