"""C11 at the connectors: `soup.connect_async`, `fix.connect_async`, `itch/ouch/sqf.connect_async`, `asn1_app.connect_async_soup`.

Oracle scenarios (no model involved: the Lean side of C11 is Props/C11.lean + Props/C11Trace.lean, tied to the soup session by the
step-log replay of sess_checks; the connectors add `create_connection`, the `EndOfQueue -> ConnectionRefusedError` mapping and the
application wrapper, which are exercised here on the implementation alone).

One scenario = one connect/login attempt against a scripted peer on the virtual-time loop, `loop.create_connection` replaced by a
function that builds the protocol with the caller's factory and hands it a fake transport:

  kind      soup | fix | itch | ouch | sqf | asn1
  reply     the server's answer: accept | reject A | reject S | debug | seq (sequenced data) | unseq | eos (end of session) |
            hb (a heartbeat only: not an answer) | bad i (a frame the parser rejects) | none
  tail      application data frames that follow the reply in the byte stream (data piggy-backed on the acceptance)
  cuts      byte offsets at which the stream is cut into segments (every offset is enumerated), gaps between segments
  eof       the peer disconnects after that many bytes of the stream (every offset is enumerated); after the complete stream also at the
            reader poll + 0..5 loop turns
  connect   ok | hang (the connection is never established: `connect_timeout` expires -> ConnectionError) | refuse (the OS refuses)
  factory   itch/ouch/sqf: the caller's `session_factory`, or the connector's default `ClientSession(...)` branch
  cancel    the caller cancels / times out the attempt: before any reply byte, or at the instant of the reader poll that follows the
            last reply bytes plus 0..5 loop turns (the window in which the reply is handed from the reader to the receive helper
            to `login()`), or via `asyncio.wait_for`
  the connector's own parameters (every key optional; absent = the value all the families above use):
  seq       the `sequence` the caller asks for (absent: the connector's default — 1 for soup, 0 = "whatever comes next" for the
            application connectors); FIX: the MsgSeqNum of the logon message
  acc_seq   the sequence number the acceptance states (equal to the requested one, or any other: the server no longer has / never had
            the requested position); FIX: the MsgSeqNum of the logon response
  sid / acc_sid   the session name asked for ('' = any) and the one the acceptance states;  user / pw
  chb / shb the heartbeat intervals handed to the connector (None: the connector's defaults of 10 s)
  on_close  False: no close callback;   mode = pull: no message callback
  factory   itch/ouch/sqf (see above);  soup_factory: soup.connect_async gets the caller's `session_factory`;  ctimeout: `connect_timeout`
  fixver    42 | 44 | 50: the FIX session class the caller's factory builds
  before    the attempts the SAME asyncio task made earlier (a list of scenarios, each run and judged like any other): a reconnect loop
            whose watchdog cancelled an attempt and which caught that CancelledError by hand (`uncancel`: and called `Task.uncancel()`),
            whose attempt timed out through `asyncio.wait_for` (cancel = timeout) / `async with asyncio.timeout()` (cancel = timeout_ctx),
            was refused, never connected, was rejected, dropped, or returned a session that was used and closed (`close_by: caller`: by
            the task itself) — what a task carries from one attempt to the next (`Task.cancelling()`, its context) is no input of C11

The oracle is the statement of C11: the attempt returns an active, logged-in session — login request written first, heartbeating
started (a client heartbeat is written within two intervals of silence), no application message handed to a callback before the
connector returned, piggy-backed data delivered afterwards in order — or raises `ConnectionRefusedError` / `ConnectionError` and
leaves the session closed, the transport closed once, no task running, no exception unretrieved, nothing written afterwards; a
cancellation / timeout of the caller propagates unchanged and likewise leaves nothing open or running.  The leftovers of EVERY
attempt that did not return a session are inspected, whatever made it fail: every connection the attempt opened is closed (session
and transport), no library task is alive after settling, nothing is written and no callback runs from the moment the error was raised.
An acceptance at another sequence number than a specific (non-zero) requested one may be taken either way — the unchanged connectors
adopt it (C10) — but whichever way it is taken must be one of the two outcomes in full.
"""
import asyncio
import os
import random
import sys
import tempfile

from common import err_name
from vloop import VirtualLoop, FakeTransport

KINDS = ['soup', 'itch', 'ouch', 'sqf', 'asn1', 'fix']
HB = 0.004               # client heartbeat interval (virtual seconds)
SERVER_HB = 1.0          # the scripted peer is silent after its script: keep the remote monitor from tripping
TICK = 0.0001            # reader poll period of the library
CONNECT_TIMEOUT = 0.05   # `connect_timeout` handed to the connectors that take one (virtual seconds)
_DEFS = {}
_ASN1_OK = None
_FIXENV = {}


_ABSENT = object()


def P(sc):
    """the connector parameters of a scenario, defaults filled in (the defaults are what every scenario used before the parameters
    became part of the scenario: old replays and corpus entries mean what they meant)"""
    kind = sc['kind']
    p = {'user': sc.get('user', 'u'), 'pw': sc.get('pw', 'p'), 'sid': sc.get('sid', 's'), 'acc_sid': sc.get('acc_sid', 'sess'),
         'seq': sc.get('seq'), 'acc_seq': sc.get('acc_seq', 1),
         'chb': sc.get('chb', HB), 'shb': sc.get('shb', SERVER_HB), 'on_close': sc.get('on_close', True),
         'ctimeout': sc.get('ctimeout', CONNECT_TIMEOUT), 'fixver': sc.get('fixver', 44)}
    # what the login request on the wire must state
    p['req_seq'] = p['seq'] if p['seq'] is not None else (1 if kind == 'soup' else 0)
    # the effective client heartbeat interval (virtual seconds) the observation windows are scaled with
    p['hb'] = p['chb'] if p['chb'] is not None else 10.0
    return p


def asn1_available():
    global _ASN1_OK
    if _ASN1_OK is None:
        try:
            import asn1tools  # noqa
            from nasdaq_protocols import asn1_app  # noqa
            _ASN1_OK = True
        except Exception:   # noqa
            _ASN1_OK = False
    return _ASN1_OK


def kinds_available():
    return [k for k in KINDS if k != 'asn1' or asn1_available()]


# ------------------------------------------------------------------ tiny applications (registries are process-global: unique names)
def app_defs(kind):
    """-> (session class, payload(n) -> bytes of a decodable application message carrying n, token(decoded message) -> n)"""
    if kind in _DEFS:
        return _DEFS[kind]
    if kind == 'asn1':
        from nasdaq_protocols import asn1_app
        d = tempfile.mkdtemp(prefix='vl_asn1_')
        pkg = os.path.join(d, 'vl_asn1spec')
        os.makedirs(pkg)
        open(os.path.join(pkg, '__init__.py'), 'w').close()
        with open(os.path.join(pkg, 'vl.asn1'), 'w') as f:
            f.write('VlApp DEFINITIONS AUTOMATIC TAGS ::= BEGIN\nVlMsg ::= SEQUENCE { n INTEGER OPTIONAL }\nEND\n')
        sys.path.insert(0, d)

        class VlSpec(asn1_app.Asn1Spec, spec_name='VlAsn1App', spec_pkg_dir='vl_asn1spec'):
            pass

        class VlAsnMsg(asn1_app.Asn1Message, spec=VlSpec, pdu_name='VlMsg'):
            pass

        class Sess(asn1_app.Asn1SoupClientSession, asn1_message=VlAsnMsg):
            pass

        _DEFS[kind] = (Sess, lambda n: bytes(VlSpec.Spec.encode('VlMsg', {'n': n})), lambda m: m['n'] if m else -3)
        return _DEFS[kind]
    from nasdaq_protocols.common import Record, Field, LongBE
    from nasdaq_protocols import itch, ouch, sqf
    impl = {'itch': itch, 'ouch': ouch, 'sqf': sqf}[kind]
    app = 'vl_' + kind

    class Base(impl.Message, app_name=app):
        def __init_subclass__(cls, **kwargs):
            kwargs['app_name'] = app
            super().__init_subclass__(**kwargs)

    extra = {} if kind == 'itch' else {'direction': 'outgoing'}

    class VlMsg(Base, indicator=7, **extra):
        class BodyRecord(Record):
            Fields = [Field('n', LongBE)]

    class Sess(impl.ClientSession):
        @classmethod
        def decode(cls, bytes_):
            return Base.from_bytes(bytes_)

    def payload(n):
        m = VlMsg()
        m.n = n
        return m.to_bytes()[1]
    _DEFS[kind] = (Sess, payload, lambda m: m.n)
    return _DEFS[kind]


def fixenv():
    """the test-suite dictionary of the repository under test (a Logon-like message `Login`, type L)"""
    if _FIXENV:
        return _FIXENV
    import importlib.util
    import common
    from nasdaq_protocols import fix
    path = os.path.join(common.REPO, 'tests', 'fix_messages.py')
    spec = importlib.util.spec_from_file_location('login_app_fix_messages', path)
    fm = importlib.util.module_from_spec(spec)
    spec.loader.exec_module(fm)
    _FIXENV.update(fix=fix, fm=fm)
    return _FIXENV


SOH = b'\x01'


FIX_REQUIRED = [34, 49, 56, 52]            # header fields the suite's dictionary marks required (besides the framing fields 8, 9, 35)
FIX_OPTIONAL = [[50, 'SUB'], [57, 'TSUB'], [553, 'user']]      # optional header / body fields of its logon message
FIX_UNKNOWN = [[9999, 'x'], [20001, '1'], [58, 'welcome']]      # tags the dictionary does not know at all


def fix_frame(mtype, begin=b'FIX.4.4', seq=1, omit=(), extra=()):
    """a well-formed frame (BodyLength and CheckSum right); `omit`: tags left out, `extra`: (tag, value) pairs appended"""
    flds = [(34, str(seq)), (49, 'SERVER'), (56, 'CLIENT'), (52, '20240101-00:00:00')]
    body = b'35=' + mtype + SOH + b''.join(str(t).encode() + b'=' + v.encode() + SOH for t, v in flds if t not in omit)
    body += b''.join(str(t).encode() + b'=' + str(v).encode() + SOH for t, v in extra)
    head = b'8=' + begin + SOH + b'9=' + str(len(body)).encode() + SOH
    data = head + body
    return data + b'10=' + str(sum(data) % 256).rjust(3, '0').encode() + SOH


BAD_SOUP = [b'\x00\x01?', b'\x00\x00', b'\x00\x02Hx', b'\x00\x02JX', b'\x00\x03+\xff\xfe', b'\x00\x05A1234',
            b'\x00\x1fA' + b's' * 10 + b'x' * 20]
FIX_BEGIN = {42: b'FIX.4.2', 44: b'FIX.4.4', 50: b'FIXT.1.1'}
BAD_FIX = [b'8=FIX.4.4\x019=zz\x0135=L\x0110=000\x01', b'8=FIX.4.4\x019=5\x0135=?\x0110=000\x01']


# ------------------------------------------------------------------ the byte stream of a scenario
def reply_bytes(sc):
    """(bytes of the reply, is it a complete answer, is it the acceptance)"""
    r = sc['reply']
    p = P(sc)
    if sc['kind'] == 'fix':
        begin = FIX_BEGIN[p['fixver']]
        if r[0] == 'accept':
            return fix_frame(b'L', begin=begin, seq=p['acc_seq'], omit=sc.get('fix_omit', ()), extra=sc.get('fix_extra', ())), True, True
        if r[0] in ('reject', 'debug', 'seq', 'unseq', 'eos'):
            return fix_frame(b'N', begin=begin), True, False          # any message other than the logon response
        if r[0] == 'hb':
            return fix_frame(b'0', begin=begin), True, False           # FIX: a heartbeat *is* a message, and it is not the logon response
        if r[0] == 'bad':
            return BAD_FIX[r[1] % len(BAD_FIX)], True, False
        return b'', False, False
    from nasdaq_protocols import soup
    if r[0] == 'accept':
        return soup.LoginAccepted(p['acc_sid'], p['acc_seq']).to_bytes()[1], True, True
    if r[0] == 'reject':
        return soup.LoginRejected(r[1]).to_bytes()[1], True, False
    if r[0] == 'debug':
        return soup.Debug('dbg').to_bytes()[1], True, False
    if r[0] == 'seq':
        return soup.SequencedData(b'\x07early').to_bytes()[1], True, False
    if r[0] == 'unseq':
        return soup.UnSequencedData(b'\x07early').to_bytes()[1], True, False
    if r[0] == 'eos':
        return soup.EndOfSession().to_bytes()[1], True, False
    if r[0] == 'hb':
        return soup.ServerHeartbeat().to_bytes()[1], False, False
    if r[0] == 'bad':
        return BAD_SOUP[r[1] % len(BAD_SOUP)], True, False
    return b'', False, False


def data_frame(sc, n):
    """an application data frame carrying n (the token the consumer will report)"""
    if sc['kind'] == 'fix':
        return fix_frame(b'0', begin=FIX_BEGIN[P(sc)['fixver']], seq=n)          # heartbeats: the FIX session under test has no other inbound message to decode
    from nasdaq_protocols import soup
    if sc['kind'] == 'soup':
        return soup.SequencedData(str(n).encode()).to_bytes()[1]
    _, payload, _ = app_defs(sc['kind'])
    return soup.SequencedData(payload(n)).to_bytes()[1]


def pre_frame(sc, t):
    if sc['kind'] == 'fix':
        return fix_frame(b'0' if t == 'hb' else b'N', begin=FIX_BEGIN[P(sc)['fixver']])
    from nasdaq_protocols import soup
    return (soup.ServerHeartbeat() if t == 'hb' else soup.Debug('dbg')).to_bytes()[1]


def logon_deviates(sc):
    """FIX: the logon reply is of the right type and well-formed as a frame, but lacks fields the dictionary requires or carries tags
    the dictionary does not know — whether that is still "an acceptance" is the library's to decide, either way it must be one of
    the two outcomes in full"""
    known = {t for t, _ in FIX_OPTIONAL}
    return sc['kind'] == 'fix' and (bool(sc.get('fix_omit')) or any(t not in known for t, _ in sc.get('fix_extra', ())))


def stream_of(sc):
    """(bytes up to the end of the peer's answer, whole stream, is there an answer, is it the acceptance); when the reply proper is
    no answer (a heartbeat, nothing) the first data frame that follows is what `login()` gets as its reply: not an acceptance"""
    rb, complete, accept = reply_bytes(sc)
    frames = [data_frame(sc, n) for n in sc.get('tail', [])]
    pre = sc.get('pre', [])
    if pre:
        # what the server says BEFORE its reply (its heartbeat timer fired between accepting the connection and answering; a debug
        # packet).  A heartbeat is not an answer (both readers consume heartbeats without handing them on); the first frame that is
        # one — a debug packet, FIX: any other message — is the reply
        pb = [pre_frame(sc, t) for t in pre]
        first = next((i for i, t in enumerate(pre) if t != 'hb'), None)
        if first is not None:
            return b''.join(pb[:first + 1]), b''.join(pb) + rb + b''.join(frames), True, False
        rb = b''.join(pb) + rb
    if not complete and frames:
        return rb + frames[0], rb + b''.join(frames), True, False
    return rb, rb + b''.join(frames), complete, accept


async def next_timer(loop):
    """sleep until the instant of the next timer that is already scheduled (the reader's poll): our wake-up and that timer fire in the
    same loop iteration, so the turns that follow land inside the hand-over reader -> receive helper -> login()"""
    whens = [h._when for h in loop._scheduled if not h._cancelled]
    if whens:
        d = min(whens) - loop.time()
        await asyncio.sleep(max(d, 0))
    else:
        await asyncio.sleep(TICK)


# ------------------------------------------------------------------ running one attempt / a history of attempts in one task
def run_attempt(sc):
    """-> dict of observations of the attempt `sc`.  `sc['before']` (optional): the attempts the SAME asyncio task made earlier, each a
    scenario of its own (a reconnect loop: the task catches whatever an attempt raised — a cancellation by hand, without `uncancel()` —
    and tries again); their observations are in `out['earlier']`, every one of them is judged like a stand-alone attempt"""
    outs = run_history(list(sc.get('before', [])) + [sc])
    out = outs[-1]
    if len(outs) > 1:
        out['earlier'] = outs[:-1]
    return out


def run_history(scs):
    """the attempts `scs` made one after the other by ONE task on one loop -> list of observation dicts (one per attempt)"""
    loop = VirtualLoop()
    cur = {}                 # the attempt in progress (what the replaced `create_connection` serves)

    def new_state(sc):
        ev = []              # ordered log: ['w', bytes] ['tclose'] ['msg', n] ['closecb'] ['ret', outcome] ['fed', k] ['eof'] ['cancel', pending]
        p = P(sc)
        return {'sc': sc, 'kind': sc['kind'], 'ev': ev, 'out': {'ev': ev}, 'p': p, 'hb': p['hb'], 'done': False,
                'created': {'all': []},     # every connection the attempt opened: [(protocol, transport)]
                'gate': None}

    async def fake_create_connection(factory, host=None, port=None, **kw):
        A = cur['A']
        sc, created, ev = A['sc'], A['created'], A['ev']

        class T(FakeTransport):
            def write(tself, data):
                FakeTransport.write(tself, data)
                ev.append(['w', bytes(data)])

            def close(tself):
                FakeTransport.close(tself)
                ev.append(['tclose'])

        for _ in range(sc.get('delay', 0)):
            await asyncio.sleep(0)
        if sc.get('connect') == 'hang':
            await loop.create_future()          # never connects: only `connect_timeout` ends this
        if sc.get('connect') == 'refuse':
            raise ConnectionRefusedError('scripted: nobody listens')
        proto = factory()
        tr = T(loop)
        tr.protocol = proto
        created['proto'], created['tr'] = proto, tr
        created['all'].append((proto, tr))
        proto.connection_made(tr)
        return tr, proto

    loop.create_connection = fake_create_connection

    def soup_token(m):
        from nasdaq_protocols import soup
        try:
            if isinstance(m, (soup.SequencedData, soup.UnSequencedData)):
                return int(bytes(m.data))
        except ValueError:
            return -2
        return -1

    def connector(A):
        sc, kind, p, ev = A['sc'], A['kind'], A['p'], A['ev']

        async def on_msg(m):
            if kind == 'soup':
                ev.append(['msg', soup_token(m)])
            elif kind == 'fix':
                ev.append(['msg', int(m.Header.MsgSeqNum) if hasattr(m, 'Header') else -1])
            else:
                ev.append(['msg', app_defs(kind)[2](m)])

        async def on_close():
            ev.append(['closecb'])

        msg_cb = on_msg if sc['mode'] == 'callback' else None
        close_cb = on_close if p['on_close'] else None
        remote = ('peer', 1)
        # only what the scenario states is handed over: an absent `seq` / a `chb`,`shb` of None exercise the connector's defaults
        kw = {}
        if p['seq'] is not None:
            kw['sequence'] = p['seq']
        if p['chb'] is not None:
            kw['client_heartbeat_interval'] = p['chb']
        if p['shb'] is not None:
            kw['server_heartbeat_interval'] = p['shb']
        ident = (p['user'], p['pw'], p['sid'])
        if kind == 'soup':
            from nasdaq_protocols import soup
            if sc.get('soup_factory'):
                hbkw = {k: v for k, v in kw.items() if k != 'sequence'}
                return soup.connect_async(remote, *ident, session_factory=lambda: soup.SoupClientSession(
                    on_msg_coro=msg_cb, on_close_coro=close_cb, **hbkw), connect_timeout=p['ctimeout'],
                    **{k: v for k, v in kw.items() if k == 'sequence'})
            return soup.connect_async(remote, *ident, on_msg_coro=msg_cb, on_close_coro=close_cb, connect_timeout=p['ctimeout'], **kw)
        if kind == 'fix':
            env = fixenv()
            fix, fm = env['fix'], env['fm']
            m = fm.Login()
            m.Username = 'user' if 'user' not in sc else p['user']
            if p['seq'] is not None:
                m.Header.MsgSeqNum = p['seq']
            scls = {42: fix.Fix42Session, 44: fix.Fix44Session, 50: fix.Fix50Session}[p['fixver']]
            hbkw = {k: v for k, v in kw.items() if k != 'sequence'}
            return fix.connect_async(remote, m, lambda: scls(on_msg_coro=msg_cb, on_close_coro=close_cb, **hbkw))
        cls = app_defs(kind)[0]
        fac = lambda ss: cls(ss, on_msg_coro=msg_cb, on_close_coro=close_cb)   # noqa: E731
        if kind == 'asn1':
            from nasdaq_protocols import asn1_app
            return asn1_app.connect_async_soup(remote, *ident, fac, **kw)
        from nasdaq_protocols import itch, ouch, sqf
        impl = {'itch': itch, 'ouch': ouch, 'sqf': sqf}[kind]
        if not sc.get('factory', True):
            # the connector's own `ClientSession(soup_session, on_msg_coro=…, on_close_coro=…)` branch
            return impl.connect_async(remote, *ident, on_msg_coro=msg_cb, on_close_coro=close_cb, connect_timeout=p['ctimeout'], **kw)
        return impl.connect_async(remote, *ident, session_factory=fac, connect_timeout=p['ctimeout'], **kw)

    async def attempt(A):
        sc, kind, ev, out, created = A['sc'], A['kind'], A['ev'], A['out'], A['created']
        me = asyncio.current_task()
        out['task_cancelling'] = me.cancelling()       # what this task carries from its earlier attempts (0 in a fresh task)
        try:
            c = sc.get('cancel')
            if c and c[0] == 'timeout':
                s = await asyncio.wait_for(connector(A), c[1] * TICK)
            elif c and c[0] == 'timeout_ctx':
                async with asyncio.timeout(c[1] * TICK):
                    s = await connector(A)
            else:
                s = await connector(A)
            out['session'] = s
            inner = s if kind in ('soup', 'fix') else s.soup_session
            # observed in the very step in which the connector returned
            out['active_at_return'] = bool(inner.is_active()) and not inner.is_closed()
            out['monitors'] = [inner._local_hb_monitor is not None and inner._local_hb_monitor.is_running(),
                               inner._remote_hb_monitor is not None and inner._remote_hb_monitor.is_running()]
            out['wraps'] = inner is created.get('proto')          # the session handed back is the one that logged in
            r = 'session'
        except asyncio.CancelledError:
            # caught by hand: the task's cancellation count (`Task.cancelling()`) stays raised for every later attempt of this task
            r = 'cancelled'
            if sc.get('uncancel'):
                me.uncancel()                          # the caller that tells asyncio it has dealt with the request
        except (asyncio.TimeoutError, TimeoutError):
            r = 'timeout'
        except ConnectionRefusedError:
            r = 'refused'
        except ConnectionError:
            r = 'connerror'
        except Exception as e:   # noqa
            r = 'exc:' + type(e).__name__ + ':' + err_name(e)
        ev.append(['ret', r])
        out['outcome'] = r
        A['done'] = True

    async def client(states):
        """the caller: one task, its attempts one after the other (between two attempts it waits for the peer script of the next one)"""
        for A in states:
            await attempt(A)
            if A['gate'] is not None:
                s = await A['gate']
                if s is not None:
                    # the caller itself closes the session its earlier attempt returned (`close_by: caller`)
                    try:
                        await asyncio.wait_for(s.close(), 50 * A['hb'])
                        A['out']['close'] = 'ok'
                    except Exception as e:   # noqa
                        A['out']['close'] = 'raised:' + err_name(e)
                    await A['gate2']

    async def drive(A, task, last):
        """the peer's script, the caller's watchdog and the inspection of what one attempt left behind"""
        sc, kind, ev, out, created, p, hb = A['sc'], A['kind'], A['ev'], A['out'], A['created'], A['p'], A['hb']
        cb = sc['mode'] == 'callback'
        t0, x0 = len(loop.tasks_created), len(loop.loop_exceptions)
        rb, stream, complete, accept = stream_of(sc)
        # wait for the request
        for _ in range(60):
            if any(e[0] == 'w' for e in ev) or A['done']:
                break
            await asyncio.sleep(0)
        c = sc.get('cancel')

        def do_cancel():
            pending = not A['done']
            ev.append(['cancel', pending])
            if pending:
                task.cancel()

        fed_all = False
        if c and c[0] == 'before':
            for _ in range(c[1]):
                await asyncio.sleep(0)
            do_cancel()
        else:
            proto, tr = created.get('proto'), created.get('tr')
            cuts = [x for x in sc.get('cuts', []) if 0 < x < len(stream)] + [len(stream)]
            eof = sc.get('eof')
            if eof is not None:
                cuts = sorted({x for x in cuts if x < eof} | {eof})
            prev = 0
            gaps = sc.get('gaps', [])
            for i, x in enumerate(cuts):
                seg = stream[prev:x]
                if seg and proto is not None:
                    proto.data_received(seg)
                    ev.append(['fed', x])
                prev = x
                if i + 1 < len(cuts):
                    g = gaps[i % len(gaps)] if gaps else 0
                    if g < 0:
                        await next_timer(loop)
                    else:
                        for _ in range(g):
                            await asyncio.sleep(0)
            fed_all = True
            if eof is not None and proto is not None:
                g = sc.get('eof_gap', 0)
                if g < 0:
                    await next_timer(loop)
                else:
                    for _ in range(g):
                        await asyncio.sleep(0)
                for _ in range(sc.get('eof_turns', 0)):      # turns after the reader poll: inside the hand-over to login()
                    await asyncio.sleep(0)
                ev.append(['eof'])
                proto.connection_lost(None)
            if c and c[0] == 'after':
                if c[1]:
                    await next_timer(loop)
                for _ in range(c[2]):
                    await asyncio.sleep(0)
                do_cancel()
        out['fed_all'] = fed_all
        # let the attempt end (a timeout needs its timer)
        for _ in range(400):
            if A['done']:
                break
            await asyncio.sleep(TICK)
        if not A['done'] and sc.get('connect') == 'hang' and kind != 'fix':
            await asyncio.sleep(6.0)           # the ASN.1 connector takes no `connect_timeout`: the default of 5 s applies
        out['returned'] = A['done']
        if not A['done']:
            task.cancel()
            await asyncio.sleep(hb)
        k_ret = len(ev)
        out['k_ret'] = next((i for i, e in enumerate(ev) if e[0] == 'ret'), k_ret)
        proto, tr = created.get('proto'), created.get('tr')
        out['had_session_object'] = proto is not None
        if out.get('outcome') == 'session':
            s = out['session']
            inner = s if kind in ('soup', 'fix') else s.soup_session
            w0 = len(ev)
            await asyncio.sleep(2.5 * hb)                    # silence: the local monitor must send a heartbeat
            out['hb_written'] = any(e[0] == 'w' for e in ev[w0:])
            out['open_after_silence'] = not inner.is_closed()
            # pull mode: what was piggy-backed is waiting in the queue, in order
            if not cb and kind != 'fix':
                got = []
                try:
                    for _ in sc.get('tail', []):
                        m = await asyncio.wait_for(s.receive_msg() if kind == 'soup' else s.receive_message(), 20 * TICK)
                        got.append(soup_token(m) if kind == 'soup' else app_defs(kind)[2](m))
                except Exception as e:   # noqa
                    got.append('raised:' + err_name(e))
                out['pulled'] = got
            # one more message after the return, then a normal close
            if not inner.is_closed():
                proto.data_received(data_frame(sc, 99))
                await asyncio.sleep(6 * TICK)
                if not cb and kind != 'fix':
                    try:
                        m = await asyncio.wait_for(s.receive_msg() if kind == 'soup' else s.receive_message(), 20 * TICK)
                        out['post'] = soup_token(m) if kind == 'soup' else app_defs(kind)[2](m)
                    except Exception as e:   # noqa
                        out['post'] = 'raised:' + err_name(e)
                if not last and sc.get('close_by') == 'caller':
                    # the reconnect loop closes the session it got before it connects again
                    A['gate2'] = loop.create_future()
                    A['gate'].set_result(s)
                    for _ in range(4000):
                        if 'close' in out:
                            break
                        await asyncio.sleep(TICK)
                    else:
                        out['close'] = 'raised:never-returned'
                else:
                    try:
                        await asyncio.wait_for(s.close(), 50 * hb)
                        out['close'] = 'ok'
                    except Exception as e:   # noqa
                        out['close'] = 'raised:' + err_name(e)
        # the attempt has returned (and a returned session was closed): a close that is still under way — the closing task of a
        # disconnect finishes after `login()` has raised — gets one heartbeat interval to complete; then three intervals of silence
        await asyncio.sleep(hb)
        A['k_end'] = len(ev)
        await asyncio.sleep(3 * hb)
        A['t_range'], A['x_range'] = (t0, len(loop.tasks_created)), (x0, len(loop.loop_exceptions))
        collect(A)

    def collect(A):
        """the leftovers of one attempt (taken when its observation window ends; once more when the whole history is over: whatever an
        earlier attempt's connection still does while the task makes its later attempts is that earlier attempt's leftover)"""
        ev, out, created = A['ev'], A['out'], A['created']
        proto, tr = created.get('proto'), created.get('tr')
        out['late'] = [e for e in ev[A['k_end']:] if e[0] in ('w', 'msg', 'closecb', 'tclose')]
        out['closed'] = (proto.is_closed() if proto is not None else None)
        out['tcloses'] = len(tr.closes) if tr is not None else 0
        # the leftovers of every connection the attempt opened (one, unless the connector under test opens more)
        out['connections'] = [{'closed': bool(pr.is_closed()), 'tcloses': len(t.closes), 'writes': len(t.writes)} for pr, t in created['all']]
        # what happened from the moment the attempt's result was known to its caller
        k = out['k_ret']
        out['after_ret'] = [e for e in ev[k + 1:] if e[0] in ('w', 'msg')]
        mine = loop.tasks_created[A['t_range'][0]:A['t_range'][1]]
        out['alive'] = sorted(t.get_name() for t in mine if not t.done() and not t.get_name().startswith('H:'))
        bad = []
        for t in mine:
            if t.done() and not t.cancelled() and not t.get_name().startswith('H:') and t.exception() is not None:
                bad.append((t.get_name(), err_name(t.exception())))
        out['task_exceptions'] = bad

    states = [new_state(sc) for sc in scs]

    async def main():
        me = asyncio.current_task()
        me.set_name('H:main')
        for A in states[:-1]:
            A['gate'] = loop.create_future()
        cur['A'] = states[0]
        task = loop.create_task(client(states), name='H:attempt')
        for i, A in enumerate(states):
            cur['A'] = A
            await drive(A, task, last=(i + 1 == len(states)))
            if A['gate'] is not None:
                cur['A'] = states[i + 1]                 # (the caller takes its next turn only after this one yields)
                if not A['gate'].done():
                    A['gate'].set_result(None)
                elif A.get('gate2') is not None:
                    A['gate2'].set_result(None)
        for A in states[:-1]:
            collect(A)

    try:
        loop.run(main())
    finally:
        exc = [str(c.get('message')) + (':' + err_name(c['exception']) if c.get('exception') else '') for c in loop.loop_exceptions]
        for A in states:
            lo, hi = A.get('x_range', (0, len(exc)))
            A['out']['loop_exceptions'] = exc[lo:hi] if A is not states[-1] else exc[lo:]
        loop.shutdown()
    for A in states:
        A['out'].pop('session', None)
    return [A['out'] for A in states]


# ------------------------------------------------------------------ the oracle (statement of C11, on the implementation alone)
def login_request_ok(sc, first):
    p = P(sc)
    if sc['kind'] == 'fix':
        ok = first.startswith(b'8=' + FIX_BEGIN[p['fixver']] + b'\x01') and b'\x0135=L\x01' in first
        if p['seq'] is not None:
            ok = ok and (b'\x0134=' + str(p['seq']).encode() + b'\x01') in first
        return ok
    from nasdaq_protocols import soup
    return first == soup.LoginRequest(p['user'], p['pw'], p['sid'], str(p['req_seq'])).to_bytes()[1]


def seq_mismatch(sc):
    """the caller asked for one specific position of the stream and the acceptance states another one"""
    p = P(sc)
    return sc['kind'] != 'fix' and p['req_seq'] > 0 and p['acc_seq'] != p['req_seq']


def describe_attempt(sc, out):
    """one earlier attempt of the task, for the text of a violation"""
    c = sc.get('cancel')
    how = ('connect ' + sc['connect']) if sc.get('connect') else ('reply ' + '/'.join(map(str, sc['reply'])))
    if sc.get('eof') is not None:
        how += f', disconnect at {sc["eof"]}'
    if c:
        how += ', ' + {'before': 'watchdog cancel', 'after': 'watchdog cancel', 'timeout': 'wait_for', 'timeout_ctx': 'asyncio.timeout'}[c[0]]
    r = str(out.get('outcome'))
    if r == 'cancelled':
        r += ' (caught by the caller' + (', uncancel()ed)' if sc.get('uncancel') else ')')
    return f'{sc["kind"]}: {how} -> {r}'


def oracle(sc, out):
    """-> list of violation strings.  Every attempt of a history is judged by the statement of C11 for THAT attempt alone (`oracle_one`):
    what the task went through before — attempts that were cancelled and caught, timed out, refused, sessions used and closed — is not
    among the things the statement lets an outcome depend on"""
    before = sc.get('before', [])
    if not before:
        return oracle_one(sc, out)
    v = []
    outs = list(out.get('earlier', [])) + [out]
    scs = list(before) + [sc]
    n = len(scs)
    for i in reversed(range(n)):              # the judged (last) attempt first
        hist = '; '.join(describe_attempt(s_, o_) for s_, o_ in zip(scs[:i], outs[:i]))
        for what in oracle_one(scs[i], outs[i]):
            v.append(what + (f'  [attempt {i + 1} of {n} made by one task; before it: {hist}]' if i else f'  [attempt 1 of {n} made by one task]'))
    return v


def oracle_one(sc, out):
    """-> list of violation strings (one attempt)"""
    v = []
    ev = out['ev']
    rb, stream, complete, accept = stream_of(sc)
    r = out.get('outcome')
    eof = sc.get('eof')
    c = sc.get('cancel')
    cancel_hit = any(e[0] == 'cancel' and e[1] for e in ev)
    timed = bool(c and c[0] in ('timeout', 'timeout_ctx'))          # asyncio.wait_for / `async with asyncio.timeout()` around the connector
    reply_delivered = complete and (eof is None or eof >= len(rb)) and not (c and c[0] == 'before')
    if not out.get('returned'):
        if sc.get('connect') == 'hang' and sc['kind'] == 'fix' and not cancel_hit and not timed:
            return v           # fix.connect_async takes no connect timeout: a connection that never comes up is the caller's to bound
        if eof is not None or reply_delivered or cancel_hit or sc.get('connect') in ('hang', 'refuse'):
            v.append(f'the peer answered / disconnected / the caller cancelled, but the attempt never returned (reply {sc["reply"]}, eof {eof}, cancel {c})')
        return v
    # ---- which outcome
    allowed = None
    if sc.get('connect') == 'hang' and not cancel_hit:
        allowed = {'connerror'} | ({'timeout'} if timed else set())
    elif sc.get('connect') == 'refuse' and not cancel_hit:
        allowed = {'refused'} | ({'timeout'} if timed else set())
    elif cancel_hit:
        # the cancellation propagates unchanged; only an attempt that was already failing (disconnect / refusal under way) may
        # still end with the refusal
        allowed = {'cancelled'} | ({'refused'} if (eof is not None or (reply_delivered and not accept)) else set())
    elif timed and r == 'timeout':
        allowed = {'timeout'}
    elif reply_delivered and accept:
        allowed = {'session'} if eof is None else {'session', 'refused'}
        if seq_mismatch(sc) or logon_deviates(sc):
            # accepted, but not at the position asked for: adopting it (what the unchanged connectors do, C10) and refusing it are
            # both within the statement — each with everything the statement attaches to that outcome.  Likewise a FIX logon reply
            # that lacks required fields / carries unknown tags: a session or a refusal, nothing else (no ValueError, no KeyError)
            allowed = {'session', 'refused'}
    elif reply_delivered and not accept:
        allowed = {'refused'}
    elif eof is not None:
        allowed = {'refused'}
    if timed and allowed is not None:
        allowed = allowed | {'timeout'}
    if allowed is not None and r not in allowed:
        v.append(f'attempt ended with {r!r}; the statement allows {sorted(allowed)} (reply {sc["reply"]}, eof {eof}, cancel {c})')
        return v
    writes = [e[1] for e in ev if e[0] == 'w']
    if writes and not login_request_ok(sc, writes[0]):
        v.append(f'the first bytes written were {writes[0][:24]!r}, not the login request')
    k_ret = out['k_ret']
    if r == 'session':
        if not writes:
            v.append('a session was returned but nothing was ever written (no login request)')
        early = [e for e in ev[:k_ret] if e[0] == 'msg']
        if early:
            v.append(f'application message {early[0][1]} handed to the callback before the connector returned the session')
        if not out.get('active_at_return'):
            v.append('the connector returned a session that is not active (closed or closing)')
        if not all(out.get('monitors', [False, False])):
            v.append(f'the connector returned a session whose heartbeat monitors are not running {out.get("monitors")}')
        if out.get('wraps') is False:
            v.append('the session the connector returned is not (a wrapper of) the session that logged in over the connection it opened')
        if out.get('open_after_silence'):
            if not out.get('hb_written'):
                v.append('logged in, 2.5 heartbeat intervals of silence, and no heartbeat was written: heartbeating not started')
        tail = sc.get('tail', [])
        # (without a session_factory the generic `ClientSession.decode` knows no application message: nothing decodable to deliver)
        if sc['kind'] != 'fix' and sc.get('factory', True) and eof is None and out.get('open_after_silence'):
            if sc['mode'] == 'callback':
                got = [e[1] for e in ev if e[0] == 'msg']
                want = tail + [99]
                if got != want:
                    v.append(f'callback saw {got}, the peer sent {want} after the acceptance')
            else:
                if out.get('pulled') != tail or out.get('post') != 99:
                    v.append(f'receive returned {out.get("pulled")} then {out.get("post")}, the peer sent {tail} then 99')
        if out.get('close') not in (None, 'ok'):
            v.append(f'close() of the returned session ended with {out.get("close")}')
    else:
        if out.get('had_session_object') and out.get('closed') is False:
            v.append(f'attempt ended with {r} but the session was left open')
        if out.get('had_session_object') and out.get('tcloses', 0) < 1:
            v.append(f'attempt ended with {r} but the transport was never closed')
        if out.get('after_ret'):
            e = out['after_ret'][0]
            v.append(f'attempt ended with {r}, and afterwards ' + (f'{e[1][:8]!r} was still written to the peer' if e[0] == 'w'
                     else f'message {e[1]} was still handed to the callback'))
    # ---- nothing left open or running, silence afterwards (both outcomes: the returned session was closed by the scenario)
    # (a connector that opens more than one connection: the ones before the last are nobody's but the attempt's to close)
    for i, cn in enumerate(out.get('connections', [])[:-1]):
        if not cn['closed'] or cn['tcloses'] < 1:
            v.append(f'attempt ended with {r}; connection #{i + 1} of the {len(out["connections"])} it opened was left '
                     + ('open' if not cn['closed'] else 'with its transport never closed'))
    if out.get('tcloses', 0) > 1:
        v.append(f'transport closed {out["tcloses"]} times')
    if out.get('closed') is True or r != 'session':
        if out.get('alive'):
            v.append(f'tasks still running three heartbeat intervals after the end: {out["alive"]}')
        if out.get('late'):
            v.append(f'activity after everything had ended: {[(e[0], e[1][:8] if e[0] == "w" else e[1:]) for e in out["late"][:3]]}')
    if sum(1 for e in ev if e[0] == 'closecb') > 1:
        v.append('close callback invoked more than once')
    if out.get('task_exceptions'):
        v.append(f'task ended with an exception nobody retrieved: {out["task_exceptions"][0]}')
    if out.get('loop_exceptions'):
        v.append(f'exception reached the event loop: {out["loop_exceptions"][0]}')
    return v


# ------------------------------------------------------------------ scenario families
REPLIES = [['accept'], ['reject', 'A'], ['reject', 'S'], ['debug'], ['seq'], ['unseq'], ['eos'], ['bad', 0], ['bad', 1], ['bad', 3],
           ['bad', 5], ['bad', 6]]


def enumerate_scenarios(kind, rng, full):
    """the exhaustive families for one connector; `full`: every offset, else a seeded sample of the offsets"""
    out = []
    base = {'kind': kind, 'mode': 'callback', 'reply': ['accept'], 'tail': [], 'cuts': [], 'gaps': [0]}

    def offsets(n):
        allo = list(range(0, n + 1))
        if full or len(allo) <= 6:
            return allo
        return sorted(set([0, 1, n - 1, n] + rng.sample(allo, 4)))
    for mode in ('callback', 'pull'):
        # 1. acceptance (+ piggy-backed data) split at every byte offset, three gap styles
        for tail in ([], [1, 2]):
            sc0 = dict(base, mode=mode, tail=tail)
            n = len(stream_of(sc0)[1])
            for x in offsets(n)[1:-1]:
                for g in (0, 2, -1):
                    out.append(dict(sc0, cuts=[x], gaps=[g]))
            out.append(dict(sc0))
            out.append(dict(sc0, cuts=list(range(1, n)), gaps=[0]))          # byte by byte
            out.append(dict(sc0, cuts=list(range(1, n)), gaps=[-1]))
    # 2. every other reply, whole and split
    for rep in REPLIES[1:]:
        sc0 = dict(base, reply=rep)
        n = len(stream_of(sc0)[1])
        out.append(dict(sc0))
        for x in offsets(n)[1:-1]:
            out.append(dict(sc0, cuts=[x], gaps=[rng.choice([0, 1, -1])]))
        out.append(dict(sc0, tail=[1]))                                       # followed at once by data
    # 3. disconnect after every byte offset of the reply (and of reply + data), gap before the disconnect 0 turns / a poll
    for rep, tail in ((['accept'], []), (['accept'], [1]), (['reject', 'A'], []), (['hb'], []), (['none'], [])):
        sc0 = dict(base, reply=rep, tail=tail)
        n = len(stream_of(sc0)[1])
        for x in offsets(n):
            for g in (0, -1):
                out.append(dict(sc0, eof=x, eof_gap=g))
        # the disconnect is reported 1..5 loop turns after the reader poll that parsed the (complete) stream: the window in which the
        # reply travels reader -> queue -> receive helper -> login()
        for g in (0, -1):
            for k in range(1, 6):
                out.append(dict(sc0, eof=n, eof_gap=g, eof_turns=k))
    # 4. the caller gives up: before any reply byte; at the poll after the reply bytes + 0..5 turns; by timeout
    for k in (0, 1, 3):
        out.append(dict(base, reply=['none'], cancel=['before', k]))
        out.append(dict(base, reply=['hb'], cancel=['after', 1, k]))
    for rep, tail in ((['accept'], []), (['accept'], [1]), (['reject', 'A'], []), (['debug'], [])):
        for poll in (0, 1):
            for k in range(0, 6):
                out.append(dict(base, reply=rep, tail=tail, cancel=['after', poll, k]))
        n = len(stream_of(dict(base, reply=rep, tail=tail))[0])
        for x in offsets(n)[1:-1][:: (1 if full else 3)]:
            out.append(dict(base, reply=rep, tail=tail, cuts=[x], gaps=[-1], cancel=['after', 1, rng.randint(0, 4)]))
    for t in (1, 2, 3, 5, 8):
        out.append(dict(base, reply=['accept'], cuts=[3], gaps=[-1], cancel=['timeout', t]))
        out.append(dict(base, reply=['none'], cancel=['timeout', t]))
    # 5. slow connect; a connection that is never established / is refused; the attempt given up while connecting
    out.append(dict(base, delay=2))
    out.append(dict(base, delay=2, reply=['reject', 'A']))
    out.append(dict(base, connect='hang', reply=['none']))
    out.append(dict(base, connect='refuse', reply=['none']))
    out.append(dict(base, connect='hang', reply=['none'], cancel=['before', 2]))
    out.append(dict(base, connect='hang', reply=['none'], cancel=['timeout', 3]))
    # 7. the server says something BEFORE its reply: heartbeat(s) (its timer fired between accepting the connection and answering), a
    # debug packet — the concatenation cut at EVERY byte offset ("all segmentations/timings of the reply"), three gap styles; an
    # accepted login whose bytes all arrive must end as a session however TCP cut them
    for pre in ((['hb'], ['hb', 'hb'], ['debug'], ['hb', 'debug']) if kind != 'fix' else (['hb'], ['debug'])):
        for mode, tail in (('callback', []), ('pull', [1])) if pre[-1] == 'hb' and kind != 'fix' else (('callback', []),):
            sc0 = dict(base, mode=mode, tail=tail, pre=pre)
            n = len(stream_of(sc0)[1])
            out.append(dict(sc0))
            for x in range(1, n):
                for g in ((0, 2, -1) if full else (rng.choice([0, 2, -1]),)):
                    out.append(dict(sc0, cuts=[x], gaps=[g]))
            out.append(dict(sc0, cuts=list(range(1, n)), gaps=[-1]))
        out.append(dict(base, pre=pre, eof=rng.randint(1, 30), eof_gap=-1))
        out.append(dict(base, pre=pre, cancel=['after', 1, rng.randint(0, 5)]))
    # 8. FIX: logon replies of the right type with every subset of the required header fields missing, with optional fields present,
    # with tags the dictionary does not know (all well-formed frames: BodyLength and CheckSum right)
    if kind == 'fix':
        import itertools
        for r_ in range(len(FIX_REQUIRED) + 1):
            for omit in itertools.combinations(FIX_REQUIRED, r_):
                opt = [f for f in FIX_OPTIONAL if rng.random() < 0.4]
                unk = [rng.choice(FIX_UNKNOWN)] if rng.random() < 0.3 else []
                sc0 = dict(base, fix_omit=list(omit), mode=rng.choice(['callback', 'pull']))
                out.append(dict(sc0))
                out.append(dict(sc0, fix_extra=opt + unk, tail=[1] if rng.random() < 0.5 else []))
                if omit:
                    n = len(stream_of(sc0)[1])
                    out.append(dict(sc0, cuts=[rng.randint(1, n - 1)], gaps=[-1]))
        for r_ in range(1, len(FIX_OPTIONAL) + 1):
            for opt in itertools.combinations(FIX_OPTIONAL, r_):
                out.append(dict(base, fix_extra=[list(f) for f in opt]))
        for unk in FIX_UNKNOWN:
            out.append(dict(base, fix_extra=[unk]))
            out.append(dict(base, fix_extra=[unk] + FIX_OPTIONAL[:1], fixver=rng.choice([42, 50])))
        out.append(dict(base, fix_omit=[52], eof=rng.randint(1, 40), eof_gap=-1))
        out.append(dict(base, fix_omit=[56], cancel=['after', 1, rng.randint(0, 5)]))
    # 6. itch / ouch / sqf: the connector's default session (no session_factory)
    if kind in ('itch', 'ouch', 'sqf'):
        for mode in ('callback', 'pull'):
            out.append(dict(base, mode=mode, factory=False))
            out.append(dict(base, mode=mode, factory=False, tail=[1, 2], cuts=[5], gaps=[-1]))
            out.append(dict(base, mode=mode, factory=False, reply=['reject', 'A']))
            out.append(dict(base, mode=mode, factory=False, eof=7))
            out.append(dict(base, mode=mode, factory=False, cancel=['after', 0, 1]))
    return out


# ---- the connector's own parameters
SEQS = [None, 0, 1, 5, 1 << 31, 10 ** 19]          # absent (the connector's default), "whatever comes next", the start, a position, large
SIDS = [('s', 'sess'), ('', 'anysess'), ('ABCDEFGHIJ', 'ABCDEFGHIJ'), ('s', 's'), ('day1', 'day2')]
CHBS = [HB, 0.002, 0.007]
SHBS = [SERVER_HB, 0.5, 2.5]                        # (well above every observation window: a leftover session must not be hidden by
#                                                     its own remote monitor closing it for silence)


def accepted_at(req):
    """the sequence numbers an acceptance may state for a requested one: the same, and different ones (the server no longer has the
    position / starts over / is far ahead / states 0)"""
    if req == 0:
        return [1, 7, 1 << 40]
    return [req, req + 1, req + 2, 1 if req > 1 else 3, 0, req * 3 + 11]


def other_params(rng, kind):
    """a draw of every connector parameter except the sequence"""
    d = {}
    sid, acc_sid = rng.choice(SIDS)
    if (sid, acc_sid) != ('s', 'sess'):
        d['sid'], d['acc_sid'] = sid, acc_sid
    if rng.random() < 0.5:
        d['chb'] = rng.choice(CHBS)
    if rng.random() < 0.5:
        d['shb'] = rng.choice(SHBS)
    if rng.random() < 0.3:
        d['on_close'] = False
    if rng.random() < 0.3:
        d['user'], d['pw'] = rng.choice([('user1', 'secret'), ('', ''), ('abcdef', 'abcdefghij')])
    if rng.random() < 0.2:
        d['ctimeout'] = rng.choice([0.01, 0.2])
    if kind in ('itch', 'ouch', 'sqf') and rng.random() < 0.4:
        d['factory'] = False
    if kind == 'soup' and rng.random() < 0.4:
        d['soup_factory'] = True
    if kind == 'fix':
        d['fixver'] = rng.choice([42, 44, 50])
        d.pop('sid', None), d.pop('acc_sid', None), d.pop('pw', None), d.pop('ctimeout', None)
    return d


def param_scenarios(kind, rng, thorough):
    """requested sequence x sequence stated by the acceptance x stream shape, every other parameter drawn per scenario; then the same
    parameters under the other replies, a disconnect, a cancellation in the hand-over window"""
    out = []
    base = {'kind': kind, 'reply': ['accept'], 'tail': [], 'cuts': [], 'gaps': [0]}
    seqs = SEQS if kind != 'fix' else [None, 1, 5, 1 << 31]
    for seq in seqs:
        req = seq if seq is not None else (1 if kind == 'soup' else 0)
        for acc in (accepted_at(req) if kind != 'fix' else [1, req, req + 2]):
            b = dict(base, acc_seq=acc)
            if seq is not None:
                b['seq'] = seq
            n = len(stream_of(dict(b, mode='pull'))[0])
            shapes = [{}, {'cuts': [rng.randint(1, n - 1)], 'gaps': [-1]}, {'tail': [1, 2]}, {'tail': [3], 'cuts': [n], 'gaps': [rng.choice([0, 1, -1])]}]
            for shape in shapes:
                out.append(dict(b, mode=rng.choice(['callback', 'pull']), **shape, **other_params(rng, kind)))
            # the acceptance, then the peer disconnects / the caller gives up while it is handed to login()
            out.append(dict(b, mode='callback', eof=n, eof_gap=-1, eof_turns=rng.randint(0, 5), **other_params(rng, kind)))
            out.append(dict(b, mode='callback', cancel=['after', 1, rng.randint(0, 5)], **other_params(rng, kind)))
        for rep_ in (['reject', 'A'], ['reject', 'S'], ['debug'], ['seq'], ['eos'], ['bad', 3]):
            b = dict(base, reply=rep_, mode=rng.choice(['callback', 'pull']))
            if seq is not None:
                b['seq'] = seq
            out.append(dict(b, **other_params(rng, kind)))
        b = dict(base, mode='callback', **({'seq': seq} if seq is not None else {}))
        out.append(dict(b, eof=rng.randint(0, 20), eof_gap=-1, **other_params(rng, kind)))
        out.append(dict(b, reply=['none'], cancel=['before', rng.randint(0, 3)], **other_params(rng, kind)))
        out.append(dict(b, reply=['none'], cancel=['timeout', rng.randint(1, 8)], **other_params(rng, kind)))
        out.append(dict(b, connect='refuse', reply=['none'], **other_params(rng, kind)))
    # the connector's default heartbeat intervals (10 s: a returned session costs 25 virtual seconds of reader polls — thorough tier)
    for seq in ([5] if kind != 'fix' else [None]):
        b = dict(base, mode='callback', **({'seq': seq} if seq is not None else {}))
        for rep_, acc in ((['reject', 'A'], 1), (['accept'], 7), (['accept'], 5)):
            if rep_[0] == 'accept' and not thorough:
                continue
            out.append(dict(b, reply=rep_, acc_seq=acc, chb=None, shb=40.0))
            out.append(dict(b, reply=rep_, acc_seq=acc, shb=None))
    return out


# ---- attempt histories: what the task that makes the attempt went through before
def earlier_attempts(kind):
    """the kinds of earlier attempt a reconnect loop lives through, by name -> scenario (each is an ordinary scenario, run by the same
    task before the judged one and judged itself)"""
    base = {'kind': kind, 'mode': 'callback', 'reply': ['none'], 'tail': [], 'cuts': [], 'gaps': [0]}
    d = {
        # (a) the peer stays silent / only heartbeats, the caller's watchdog cancels the task, the task catches the CancelledError by
        #     hand and tries again (no `uncancel()`: `Task.cancelling()` stays raised for the rest of the task's life); the polite variant
        'caught': dict(base, cancel=['before', 1]),
        'caught-hb': dict(base, reply=['hb'], cancel=['after', 1, 2]),
        'caught-uncancel': dict(base, cancel=['before', 1], uncancel=True),
        # (b) timed out through asyncio.wait_for / `async with asyncio.timeout()` (both uncancel)
        'wait_for': dict(base, cancel=['timeout', 3]),
        'timeout': dict(base, cancel=['timeout_ctx', 3]),
        # (c) refused by the OS / never established
        'refused': dict(base, connect='refuse'),
        'unreachable': dict(base, connect='hang'),
        # (d) accepted, used, closed (by another task / by the task itself)
        'closed': dict(base, reply=['accept']),
        'closed-self': dict(base, reply=['accept'], tail=[1], mode='pull', close_by='caller'),
        # rejected by the server; dropped inside the reply
        'rejected': dict(base, reply=['reject', 'A']),
        'dropped': dict(base, reply=['accept'], eof=5, eof_gap=-1),
    }
    if kind == 'fix':
        del d['unreachable']          # fix.connect_async takes no connect timeout: such an attempt never ends by itself
    return d


def later_attempts(kind, rng, full):
    """what the judged attempt of a history meets: every kind of reply whole and followed at once by data, a disconnect at every byte
    offset of the reply (and in the hand-over window after it), the caller giving up at every point (the mirror: an attempt that IS
    cancelled after an earlier, hand-caught cancellation) — the families 2–5 of `enumerate_scenarios` without the pure segmentations"""
    out = []
    for sc in enumerate_scenarios(kind, rng, full):
        if 'pre' in sc or 'fix_omit' in sc or 'fix_extra' in sc or sc.get('factory') is False:
            continue
        if sc.get('eof') is not None or sc.get('cancel') or sc.get('connect') or not sc.get('cuts') or len(sc['cuts']) > 3:
            out.append(sc)
    return out


def history_scenarios(kind, kinds, rng, full, thorough):
    """attempt histories of one task: 2–4 attempts, the last one judged under every later_attempts() scenario"""
    out = []
    names = earlier_attempts(kind)
    later = later_attempts(kind, rng, full)
    core = later_attempts(kind, rng, False) if full else later          # (every offset / a seeded sample of the offsets)
    # 1. after a hand-caught cancellation: everything (the fully enumerated connector: every offset)
    for sc in (later if full else core):
        out.append(dict(sc, before=[names['caught']]))
    if thorough:
        for sc in later:
            out.append(dict(sc, before=[names['caught-hb']]))
    # 2. after each other kind of earlier attempt: a seeded sample of the later scenarios (thorough: all of the sampled-offset list)
    for nm, e in names.items():
        if nm == 'caught':
            continue
        for sc in (core if thorough else rng.sample(core, 5)):
            out.append(dict(sc, before=[e]))
    # 3. two and three earlier attempts, now and then through another connector
    for _ in range(200 if thorough else 14):
        before = []
        for _ in range(rng.choice([2, 2, 3])):
            k2 = rng.choice(kinds) if rng.random() < 0.3 else kind
            d2 = earlier_attempts(k2)
            before.append(d2[rng.choice(sorted(d2))])
        if not any(b.get('cancel', [''])[0] in ('before', 'after') and not b.get('uncancel') for b in before) and rng.random() < 0.6:
            before[rng.randrange(len(before))] = names[rng.choice(['caught', 'caught-hb'])]
        out.append(dict(rng.choice(core), before=before))
    return out


def random_history(rng, kinds, sc):
    """1–3 random earlier attempts in front of a random scenario"""
    before = []
    for _ in range(rng.choice([1, 1, 2, 3])):
        kind = sc['kind'] if rng.random() < 0.7 else rng.choice(kinds)
        if rng.random() < 0.5:
            d = earlier_attempts(kind)
            before.append(d[rng.choice(sorted(d))])
        else:
            e = random_scenario(rng, [kind])
            if e.get('connect') == 'hang' and kind == 'fix' and not e.get('cancel'):
                e['cancel'] = ['before', 2]
            if e.get('cancel') and rng.random() < 0.3:
                e['cancel'] = ['timeout_ctx', rng.randint(1, 9)] if e['cancel'][0] == 'timeout' else e['cancel']
                if rng.random() < 0.3:
                    e['uncancel'] = True
            if rng.random() < 0.3:
                e['close_by'] = 'caller'
            before.append(e)
    return dict(sc, before=before)


def random_scenario(rng, kinds):
    kind = rng.choice(kinds)
    sc = {'kind': kind, 'mode': rng.choice(['callback', 'pull']), 'reply': rng.choice(REPLIES + [['accept']] * 6 + [['hb'], ['none']]),
          'tail': [rng.randint(1, 50) for _ in range(rng.choice([0, 0, 1, 2, 3]))], 'gaps': [rng.choice([0, 0, 1, 2, -1]) for _ in range(3)],
          'delay': rng.choice([0, 0, 1])}
    if kind in ('itch', 'ouch', 'sqf') and rng.random() < 0.2:
        sc['factory'] = False
    if rng.random() < 0.5:
        # the connector's own parameters: requested sequence, the one the acceptance states, session names, intervals, callbacks
        sc.update(other_params(rng, kind))
        seq = rng.choice(SEQS + [rng.randint(2, 10 ** 6)]) if kind != 'fix' else rng.choice([None, 1, rng.randint(2, 10 ** 6)])
        if seq is not None:
            sc['seq'] = seq
        req = seq if seq is not None else (1 if kind == 'soup' else 0)
        sc['acc_seq'] = rng.choice(accepted_at(req) + [req if req else 1] * 3)
    if rng.random() < 0.15:
        sc['pre'] = rng.choice([['hb'], ['hb'], ['hb', 'hb'], ['debug'], ['hb', 'hb', 'hb']])
    if kind == 'fix' and sc['reply'] == ['accept'] and rng.random() < 0.4:
        sc['fix_omit'] = [t for t in FIX_REQUIRED if rng.random() < 0.3]
        sc['fix_extra'] = [f for f in FIX_OPTIONAL + FIX_UNKNOWN if rng.random() < 0.2]
    n = len(stream_of(sc)[1])
    sc['cuts'] = sorted(set(rng.randint(1, max(1, n)) for _ in range(rng.choice([0, 1, 2, 4]))))
    if sc.get('pre') and rng.random() < 0.5:
        sc['cuts'] = sorted(set(sc['cuts']) | {max(1, n - rng.randint(1, 4))})
    c = rng.random()
    if c < 0.3:
        sc['eof'] = rng.randint(0, n)
        sc['eof_gap'] = rng.choice([0, 1, -1])
        sc['eof_turns'] = rng.choice([0, 0, 1, 2, 3])
    c = rng.random()
    if c < 0.3:
        sc['cancel'] = ['after', rng.choice([0, 1]), rng.randint(0, 5)]
    elif c < 0.36:
        sc['cancel'] = ['timeout', rng.randint(1, 9)]
    elif c < 0.4:
        sc['cancel'] = ['before', rng.randint(0, 3)]
    if sc['reply'][0] in ('hb', 'none') and 'eof' not in sc and 'cancel' not in sc:
        sc['eof'] = n
    return sc


def shrink(sc, what):
    """drop scenario features while the same oracle failure persists"""
    key = what[:40]
    cur = dict(sc)

    def still(cand):
        try:
            return any(x[:40] == key for x in oracle(cand, run_attempt(cand)))
        except Exception:   # noqa
            return False
    if cur.get('before'):
        # does it need the history at all?  which of the earlier attempts?  (then: the plainest form of each that is needed)
        cand = {k: v for k, v in cur.items() if k != 'before'}
        if still(cand):
            cur = cand
        else:
            for e in list(cur['before']):
                if len(cur['before']) > 1 and still(dict(cur, before=[e])):
                    cur = dict(cur, before=[e])
                    break
            i = 0
            while len(cur['before']) > 1 and i < len(cur['before']):
                cand = dict(cur, before=cur['before'][:i] + cur['before'][i + 1:])
                if still(cand):
                    cur = cand
                else:
                    i += 1
            for i, e in enumerate(cur['before']):
                plains = list(earlier_attempts(e['kind']).values())
                for plain in ([] if e in plains else plains):
                    if len(plain) <= len(e):
                        cand = dict(cur, before=cur['before'][:i] + [plain] + cur['before'][i + 1:])
                        if still(cand):
                            cur = cand
                            break
    for field, val in (('tail', []), ('cuts', []), ('gaps', [0]), ('delay', 0), ('eof_turns', 0), ('eof_gap', 0), ('mode', 'callback'),
                       ('user', _ABSENT), ('pw', _ABSENT), ('sid', _ABSENT), ('acc_sid', _ABSENT), ('chb', _ABSENT), ('shb', _ABSENT),
                       ('on_close', _ABSENT), ('ctimeout', _ABSENT), ('factory', _ABSENT), ('soup_factory', _ABSENT), ('fixver', _ABSENT),
                       ('acc_seq', _ABSENT), ('seq', _ABSENT), ('seq', 5), ('acc_seq', 7), ('fix_extra', _ABSENT), ('fix_omit', _ABSENT),
                       ('pre', _ABSENT), ('pre', ['hb'])):
        if (field not in cur) if val is _ABSENT else (cur.get(field) in (None, val)):
            continue
        cand = dict(cur)
        if val is _ABSENT:
            del cand[field]
        else:
            cand[field] = val
        try:
            if any(x[:40] == key for x in oracle(cand, run_attempt(cand))):
                cur = cand
        except Exception:   # noqa
            pass
    return cur


def run_connectors(ctx):
    rng = ctx.rng
    quick = ctx.tier == 'quick'
    kinds = kinds_available()
    cases = []
    # the exhaustive families: in the quick tier every offset for one connector (rotating with the seed), a sample for the others
    pick = kinds[ctx.seed % len(kinds)]
    for k in kinds:
        r = random.Random(rng.random())
        for sc in enumerate_scenarios(k, r, full=(not quick) or k == pick):
            cases.append(sc)
    if quick:
        # keep the quick tier quick: all of the fully enumerated connector, every third scenario of the others
        # (the hand-over windows — disconnect / cancellation a few loop turns after the reply — are never sampled away)
        cases = [sc for i, sc in enumerate(cases)
                 if sc['kind'] == pick or i % 3 == ctx.seed % 3 or sc.get('eof_turns') or (sc.get('cancel') or [''])[0] == 'after'
                 or sc.get('pre') or 'fix_omit' in sc or 'fix_extra' in sc]
    # the connector's own parameters (requested sequence x accepted sequence x ...): small, never sampled away
    for k in kinds:
        cases.extend(param_scenarios(k, random.Random(rng.random()), thorough=not quick))
    # attempt histories: the same task made other attempts before (cancelled and caught, timed out, refused, accepted and closed, ...)
    for k in kinds:
        cases.extend(history_scenarios(k, kinds, random.Random(rng.random()), full=(not quick) or k == pick, thorough=not quick))
    n_rand = 300 if quick else 6000
    for _ in range(n_rand):
        r = random.Random(rng.random())
        sc = random_scenario(r, kinds)
        cases.append(random_history(r, kinds, sc) if r.random() < 0.25 else sc)
    n_bad = 0
    for sc in cases:
        rep = {'kind': 'login-connector', 'login_app': sc}
        try:
            out = run_attempt(sc)
        except Exception as e:   # noqa — the (possibly modified) library broke the run itself: an observation
            ctx.violation(f'running the connector scenario raised {type(e).__name__}: {e}', rep)
            continue
        ctx.case({'login_app': sc}, nontrivial=len(out['ev']) >= 2, sample_every=1499)
        ctx.count('connector:' + sc['kind'])
        ctx.count('connector-outcome:' + str(out.get('outcome')))
        ctx.count('connector-reply:' + sc['reply'][0])
        if sc.get('eof') is not None:
            ctx.count('connector:eof')
        if sc.get('cancel'):
            ctx.count('connector-cancel:' + sc['cancel'][0])
        if 'seq' in sc or 'acc_seq' in sc:
            pp = P(sc)
            ctx.count('connector-seq:' + ('default' if pp['seq'] is None else 'zero' if pp['seq'] == 0 else 'given')
                      + ('/accepted-elsewhere' if seq_mismatch(sc) else '/accepted-there'))
        for key in ('sid', 'chb', 'shb', 'on_close', 'soup_factory', 'user', 'ctimeout', 'fixver'):
            if key in sc:
                ctx.count('connector-param:' + key)
        if sc.get('factory') is False:
            ctx.count('connector-param:default-session-class')
        if sc.get('pre'):
            ctx.count('connector-before-reply:' + '+'.join(sc['pre']))
        if sc.get('before'):
            ctx.count(f'connector-history:{len(sc["before"]) + 1}-attempts-in-one-task')
            ctx.count('connector-history:caller-cancelling=' + str(out.get('task_cancelling')))
            for e, o in zip(sc['before'], out.get('earlier', [])):
                ec = e.get('cancel')
                ctx.count('connector-history-earlier:' + str(o.get('outcome')).split(':')[0]
                          + (('-uncancelled' if e.get('uncancel') else '-caught') if o.get('outcome') == 'cancelled' else '')
                          + (('-' + ec[0]) if ec and ec[0].startswith('timeout') and o.get('outcome') == 'timeout' else '')
                          + ('-closed-by-caller' if o.get('outcome') == 'session' and e.get('close_by') == 'caller' else ''))
        if sc.get('fix_omit') or sc.get('fix_extra'):
            ctx.count('connector-fix-logon:' + ('required-missing' if sc.get('fix_omit') else 'complete')
                      + ('+unknown-tag' if logon_deviates(dict(sc, fix_omit=[])) else '') + ('+optional' if sc.get('fix_extra') else ''))
        v = oracle(sc, out)
        if v:
            n_bad += 1
            small = shrink(sc, v[0]) if n_bad <= 3 else sc
            ctx.violation('connector ' + sc['kind'] + ': ' + v[0], {'kind': 'login-connector', 'login_app': small})
    ctx.cov['connector_scenarios'] = len(cases)
    ctx.cov['connector_histories'] = sum(1 for sc in cases if sc.get('before'))
    ctx.notes.append('attempt histories in one task: Props/C11Trace quantifies over all event lists from the FRESH session of one attempt, and '
                     'every attempt of a history is a separate session object, so the per-attempt theorems speak about each of them; what '
                     'the model has no notion of is state of the CALLING task that outlives an attempt (Task.cancelling() after a '
                     'hand-caught cancellation, the task\'s context) — that such state is no input of an attempt is checked on the '
                     'implementation by the property oracle only')
    ctx.notes.append('connectors (soup/fix/itch/ouch/sqf/asn1 connect_async through a replaced create_connection): reply split at every byte '
                     'offset, reply followed at once by data, disconnect after every byte offset, cancellation before the reply and at the '
                     'reader poll after it + 0..5 turns, wait_for timeouts; the connector\'s own parameters: requested sequence (default, 0, 1, 5, '
                     'large) x sequence stated by the acceptance (equal / different) x session names x heartbeat intervals x callbacks x '
                     'session_factory / default class; the leftovers of every failed attempt inspected; attempt histories: 2-4 attempts made '
                     'by ONE task (earlier ones cancelled and caught by hand with/without uncancel(), timed out through wait_for / '
                     'asyncio.timeout, refused, unreachable, rejected, dropped, accepted and closed), the last one under every reply / '
                     'disconnect offset / cancellation point, every attempt judged by the statement for that attempt alone; '
                     'property oracle only (the model tie is the soup step-log replay)'
                     + ('' if asn1_available() else ' — asn1tools unavailable: ASN.1 connector skipped'))


def replay(ctx, rep):
    sc = rep['login_app']
    out = run_attempt(sc)
    ctx.cov['rule'] = 'replay of a connector scenario'
    ctx.case('login-app-replay')
    ctx.case('replay-marker')
    for i, (e, o) in enumerate(zip(sc.get('before', []), out.get('earlier', []))):
        print(f'earlier attempt {i + 1} of the same task:', e)
        print('  events:', [(x[0], x[1][:12] if x[0] == 'w' else x[1:]) for x in o['ev']])
        print('  ', {k: v for k, v in o.items() if k != 'ev'})
    print('scenario:', {k: v for k, v in sc.items() if k != 'before'})
    print('events:', [(e[0], e[1][:12] if e[0] == 'w' else e[1:]) for e in out['ev']])
    print({k: v for k, v in out.items() if k not in ('ev', 'earlier')})
    for what in oracle(sc, out):
        print('ORACLE:', what)
        ctx.violation('connector ' + sc['kind'] + ': ' + what, {'kind': 'login-connector', 'login_app': sc})
