"""C12 — SoupBinTCP packets: layout, round trip, kind.  Correspondence with Model/Soup.lean + Spec/SoupLayout.lean, and the
property oracle evaluated on the implementation alone."""
import json
import string

from common import sx, cps, parse_sx, err_name

WIDTHS = {'user': 6, 'password': 10, 'session': 10, 'sequence': 20}
PY_WS = ' \t\n\r\x0b\x0c\x1c\x1d\x1e\x1f'


def soup():
    from nasdaq_protocols import soup as s
    return s


# ------------------------------------------------------------------ packet <-> canonical s-expression
def pkt_to_sx(p):
    s = soup()
    if isinstance(p, s.LoginRequest):
        return ['loginReq', cps(p.user), cps(p.password), cps(p.session), cps(p.sequence)]
    if isinstance(p, s.LoginAccepted):
        return ['loginAcc', cps(p.session_id), int(p.sequence)]
    if isinstance(p, s.LoginRejected):
        return ['loginRej', ord(p.reason.value)]
    if isinstance(p, s.SequencedData):
        return ['seqData', bytes(p.data)]
    if isinstance(p, s.UnSequencedData):
        return ['unseqData', bytes(p.data)]
    if isinstance(p, s.Debug):
        return ['debug', cps(p.msg)]
    for cls, name in ((s.ClientHeartbeat, 'clientHb'), (s.ServerHeartbeat, 'serverHb'),
                      (s.EndOfSession, 'endOfSession'), (s.LogoutRequest, 'logoutReq')):
        if type(p) is cls:
            return name
    raise TypeError(type(p))


def sx_to_pkt(t):
    s = soup()
    if isinstance(t, str):
        return {'clientHb': s.ClientHeartbeat, 'serverHb': s.ServerHeartbeat,
                'endOfSession': s.EndOfSession, 'logoutReq': s.LogoutRequest}[t]()
    k = t[0]
    txt = lambda l: ''.join(chr(int(c)) for c in l)
    if k == 'loginReq':
        return s.LoginRequest(txt(t[1]), txt(t[2]), txt(t[3]), txt(t[4]))
    if k == 'loginAcc':
        return s.LoginAccepted(txt(t[1]), int(t[2]))
    if k == 'loginRej':
        return s.LoginRejected(chr(int(t[1])))
    hexb = lambda a: bytes.fromhex(a[1:]) if isinstance(a, str) else bytes(a)
    if k == 'seqData':
        return s.SequencedData(hexb(t[1]))
    if k == 'unseqData':
        return s.UnSequencedData(hexb(t[1]))
    if k == 'debug':
        return s.Debug(txt(t[1]))
    raise ValueError(k)


TYPE_CHAR = {'loginReq': 'L', 'loginAcc': 'A', 'loginRej': 'J', 'seqData': 'S', 'unseqData': 'U', 'debug': '+',
             'clientHb': 'R', 'serverHb': 'H', 'endOfSession': 'Z', 'logoutReq': 'O'}


def kind_of(t):
    return t if isinstance(t, str) else t[0]


def reference_layout(t):
    """independent reference encoder written from the protocol description (not from the library)"""
    k = kind_of(t)
    pad = lambda cp, n: bytes(cp) + b' ' * (n - len(cp))
    if k == 'loginReq':
        payload = pad(t[1], 6) + pad(t[2], 10) + pad(t[3], 10) + pad(t[4], 20)
    elif k == 'loginAcc':
        payload = pad(t[1], 10) + pad(cps(str(t[2])), 20)
    elif k == 'loginRej':
        payload = bytes([t[1]])
    elif k in ('seqData', 'unseqData'):
        payload = bytes(t[1])
    elif k == 'debug':
        payload = bytes(t[1])
    else:
        payload = b''
    n = len(payload) + 1
    return bytes([n >> 8, n & 0xff]) + TYPE_CHAR[k].encode() + payload


# ------------------------------------------------------------------ generators
def gen_text(rng, width, allow_empty=True):
    n = rng.randint(0 if allow_empty else 1, width)
    alphabet = string.ascii_letters + string.digits + '_-.@#$%^&*()[]{}<>?/\\|~`\'"+=,;:! '
    s = ''.join(rng.choice(alphabet) for _ in range(n))
    return s.strip(PY_WS) if s.strip() == s.strip(PY_WS) else s.strip()


def gen_seq_int(rng):
    c = rng.random()
    if c < 0.2:
        return rng.choice([0, 1, 9, 10, 99, 100, 10**19, 10**20 - 1, 2**63, 2**64 - 1])
    if c < 0.3:
        return -rng.randint(1, 10**18)       # '-' + 18 digits still fits in 20 characters
    return rng.randint(0, 10 ** rng.randint(1, 20) - 1)


def gen_payload(rng, tier):
    c = rng.random()
    if c < 0.25:
        return bytes([rng.randrange(256)])
    if c < 0.4:      # looks like a packet header / contains type characters
        inner = rng.choice(b'LAJSU+RHZO')
        n = rng.randint(0, 40)
        return bytes([n >> 8, n & 0xff, inner]) + bytes(rng.randrange(256) for _ in range(rng.randint(0, 6)))
    if c < 0.5:
        return bytes(rng.choice([0, 0x20, 0xff, 0x0a]) for _ in range(rng.randint(0, 8)))
    if c < 0.6:
        return rng.randbytes(rng.choice([0, 1, 2, 254, 255, 256, 257]))
    if c < 0.63 or (tier == 'thorough' and c < 0.7):
        return rng.randbytes(rng.choice([32765, 32766, 32766, 16384, 511, 512]))
    return rng.randbytes(rng.randint(0, 64))


def gen_wf_packet(rng, tier):
    k = rng.choice(['loginReq', 'loginAcc', 'loginRej', 'seqData', 'seqData', 'unseqData', 'unseqData', 'debug',
                    'clientHb', 'serverHb', 'endOfSession', 'logoutReq'])
    if k == 'loginReq':
        return [k, cps(gen_text(rng, 6)), cps(gen_text(rng, 10)), cps(gen_text(rng, 10)), cps(str(gen_seq_int(rng)))]
    if k == 'loginAcc':
        return [k, cps(gen_text(rng, 10)), gen_seq_int(rng)]
    if k == 'loginRej':
        return [k, rng.choice([65, 83])]
    if k in ('seqData', 'unseqData'):
        return [k, gen_payload(rng, tier)]
    if k == 'debug':
        n = rng.choice([0, 1, 2, 30, 255, 256, 32766]) if rng.random() < 0.3 else rng.randint(0, 50)
        return [k, [rng.randrange(128) for _ in range(n)]]
    return k


def boundary_packets():
    out = []
    for b in range(256):
        out.append(['seqData', bytes([b])])
        out.append(['unseqData', bytes([b])])
    for n in (0, 1, 2, 253, 254, 255, 256, 257, 32765, 32766):
        out.append(['seqData', bytes((i * 7 + n) % 256 for i in range(n))])
        out.append(['unseqData', bytes((i * 13 + n) % 256 for i in range(n))])
        out.append(['debug', [(i * 5 + n) % 128 for i in range(n)]])
    for ws in (' ', '\t', '\n', ' x ', 'a b', ' a', 'a ', '\x1f', '\x00'):
        out.append(['debug', cps(ws)])
    for u in ('', 'a', 'abcdef', 'a b', 'x' * 6):
        out.append(['loginReq', cps(u), cps('pw'), cps('sess'), cps('1')])
        out.append(['loginAcc', cps(u + u[:4]), 1])
    for q in (0, 1, 10**19, 10**20 - 1, -1, -(10**18)):
        out.append(['loginReq', cps('u'), cps(''), cps(''), cps(str(q))])
        out.append(['loginAcc', cps(''), q])
    out += [['loginRej', 65], ['loginRej', 83], 'clientHb', 'serverHb', 'endOfSession', 'logoutReq']
    return out


def gen_malformed_packet(rng):
    """outside the property's quantifier: compared for model/implementation agreement only"""
    c = rng.randrange(6)
    if c == 0:   # over-long fields are truncated by struct
        return ['loginReq', cps('toolonguser'), cps('p' * rng.randint(11, 14)), cps('s' * 12), cps('1' * rng.randint(21, 25))]
    if c == 1:   # non-ascii text
        return ['debug', cps('héllo')]
    if c == 2:
        return ['loginReq', cps('café'), cps(''), cps(''), cps('1')]
    if c == 3:   # one past the largest packet
        return [rng.choice(['seqData', 'unseqData']), bytes(32767 + rng.randint(0, 3))]
    if c == 4:   # fields with edge whitespace: encode fine, do not round trip (outside wf)
        return ['loginAcc', cps(' s '), rng.randint(0, 99)]
    return ['loginReq', cps('u'), cps('p'), cps('s'), cps(rng.choice(['007', '+5', ' 5', '1_0', 'abc', '']))]


def gen_decode_input(rng, seeds):
    """byte strings for the decoder: truncations / extensions / corruptions of valid packets and random bytes"""
    c = rng.randrange(7)
    base = bytearray(rng.choice(seeds))
    if c == 0 and len(base) > 0:
        return bytes(base[:rng.randrange(len(base) + 1)])
    if c == 1:
        return bytes(base + rng.randbytes(rng.randint(1, 4)))
    if c == 2 and len(base) > 3:
        i = rng.randrange(len(base))
        base[i] = rng.randrange(256)
        return bytes(base)
    if c == 3 and len(base) >= 3:
        base[2] = rng.randrange(256)
        return bytes(base)
    if c == 4 and len(base) >= 3:
        base[0], base[1] = rng.randrange(256), rng.randrange(256)
        return bytes(base)
    if c == 5:
        return rng.randbytes(rng.randint(0, 60))
    t = rng.choice(b'LAJ')
    n = {76: 49, 65: 33, 74: 4}[t]
    body = bytearray(rng.choice([b' ', b'\x00', b'1', b'-', b'+', b'_', b'a', b'\t', b'A', b'S', b'\x80']) [0]
                     for _ in range(n - 3))
    if rng.random() < 0.7:
        for i in range(max(0, n - 3 - rng.randint(1, 6)), n - 3):
            body[i] = rng.choice(b'0123456789 ')
    return bytes([0, n - 2, t]) + bytes(body)


# ------------------------------------------------------------------ re-encoding one packet OBJECT after its fields changed
# The packet classes are mutable attrs classes (slots=False, not frozen) and `to_bytes()` accepts bytearray payloads: "every packet
# the library can build" includes a packet that was encoded, then had a field assigned (or its bytearray payload changed in
# place), and is encoded again.  A case = (start packet, how the object came to be, list of operations); the object is encoded
# after it was made and after every operation, and every one of these encodings must be the layout of the object's CURRENT fields.
FIELDS = {'loginReq': ['user', 'password', 'session', 'sequence'], 'loginAcc': ['session_id', 'sequence'],
          'loginRej': ['reason'], 'seqData': ['data'], 'unseqData': ['data'], 'debug': ['msg']}
SOURCES = ('new', 'new-ba', 'decoded', 'decoded-ba')


def fields_of(t):
    return FIELDS.get(kind_of(t), [])


def with_field(t, f, v):
    t = list(t)
    t[1 + FIELDS[t[0]].index(f)] = v
    return t


def field_sx(t, f):
    return t[1 + FIELDS[t[0]].index(f)]


def py_field_value(k, f, v, as_bytearray=False):
    """python value to assign to attribute f of a packet of kind k, from the s-expression form v"""
    if f == 'data':
        return bytearray(v) if as_bytearray else bytes(v)
    if f == 'reason':
        return chr(v)
    if f == 'sequence' and k == 'loginAcc':
        return int(v)
    return ''.join(chr(c) for c in v)


def apply_op(t, op):
    """the packet (s-expression form) the object must be equal to after op — computed without the library"""
    o = op[0]
    if o == 'again':
        return t
    if o in ('set', 'setba'):
        return with_field(t, op[1], op[2])
    if o == 'setall':
        return op[1]
    d = bytes(t[1])
    if o == 'ba-slice':
        return [t[0], bytes(op[1])]
    if o == 'ba-extend':
        return [t[0], d + bytes(op[1])]
    if o == 'ba-poke':
        return [t[0], d[:op[1]] + bytes([op[2]]) + d[op[1] + 1:]]
    if o == 'ba-clear':
        return [t[0], b'']
    raise ValueError(o)


def make_object(t, source):
    s = soup()
    k = kind_of(t)
    if source == 'new':
        return sx_to_pkt(t)
    if source == 'new-ba':
        return {'seqData': s.SequencedData, 'unseqData': s.UnSequencedData}[k](bytearray(t[1]))
    ref = reference_layout(t)
    return s.SoupMessage.from_bytes(bytearray(ref) if source == 'decoded-ba' else ref)[1]


def do_op(p, k, op):
    o = op[0]
    if o == 'again':
        return
    if o in ('set', 'setba'):
        setattr(p, op[1], py_field_value(k, op[1], op[2], o == 'setba'))
    elif o == 'setall':
        for f in FIELDS[k]:
            setattr(p, f, py_field_value(k, f, field_sx(op[1], f)))
    elif o == 'ba-slice':
        p.data[:] = bytes(op[1])
    elif o == 'ba-extend':
        p.data.extend(bytes(op[1]))
    elif o == 'ba-poke':
        p.data[op[1]] = op[2]
    elif o == 'ba-clear':
        p.data.clear()
    else:
        raise ValueError(o)


def reencode_expected(case):
    """the packets the object has to equal at each stage (stage 0: as made)"""
    out = [case['packet']]
    for op in case['ops']:
        out.append(apply_op(out[-1], op))
    return out


def reencode_stage_failure(p, t, lay):
    """property statement for the object p whose fields are those of t, on the implementation alone (lay: Lean layout or None)"""
    k = kind_of(t)
    try:
        n, b = p.to_bytes()
        b = bytes(b)
    except Exception as e:  # noqa
        return f'encoding raised {err_name(e)}'
    ref = reference_layout(t)
    if n != len(b):
        return f'reported length {n} != {len(b)} bytes produced'
    if b != ref:
        return (f'bytes are not the layout of the packet\'s current fields: got {b[:24].hex()}… ({len(b)} bytes), '
                f'expected {ref[:24].hex()}… ({len(ref)} bytes)')
    if lay is not None and lay != sx(b):
        return 'bytes differ from Spec.SoupLayout.layout of the current fields'
    try:
        if pkt_to_sx(p) != t:
            return f'the object does not hold the assigned fields: {sx(pkt_to_sx(p))[:80]}'
    except Exception as e:  # noqa
        return f'the object cannot be read back: {err_name(e)}'
    for as_ba in (False, True):
        d = impl_decode(b, as_ba)
        if d[0] != 'ok':
            return f'decoding its own encoding raised {d[1]}'
        if type(d[2]) is not type(p) or not (d[2] == p) or pkt_to_sx(d[2]) != t:
            return f'decoded packet differs from the object: {str(d[2])[:60]!r} vs {str(p)[:60]!r}'
        if d[1] != len(b):
            return f'decode reported {d[1]} bytes consumed of {len(b)}'
    return None


def reencode_failure(case, lays=None):
    """first failing stage of a re-encoding case: (stage, text) or None"""
    exp = reencode_expected(case)
    k = kind_of(case['packet'])
    try:
        p = make_object(case['packet'], case['source'])
    except Exception as e:  # noqa
        return (0, f'building the packet raised {err_name(e)}')
    for i, t in enumerate(exp):
        if i > 0:
            try:
                do_op(p, k, case['ops'][i - 1])
            except Exception as e:  # noqa
                return (i, f'operation {case["ops"][i - 1][0]} raised {err_name(e)}')
        f = reencode_stage_failure(p, t, lays[i] if lays else None)
        if f:
            return (i, f)
    return None


def reencode_valid(case):
    """in-place operations need a bytearray payload at that moment; every stage must be a packet of the same kind"""
    k = kind_of(case['packet'])
    t = case['packet']
    if case['source'] == 'new-ba' and k not in ('seqData', 'unseqData'):
        return False
    ba = k in ('seqData', 'unseqData') and (case['source'] == 'new-ba' or (case['source'] == 'decoded-ba' and len(t[1]) > 0))
    for op in case['ops']:
        o = op[0]
        if o.startswith('ba-'):
            if not ba or (o == 'ba-poke' and op[1] >= len(t[1])):
                return False
        elif o == 'setba':
            if op[1] != 'data':
                return False
            ba = True
        elif o in ('set', 'setall') and k in ('seqData', 'unseqData'):
            ba = False
        if o == 'setall' and kind_of(op[1]) != k:
            return False
        t = apply_op(t, op)
        if k in ('seqData', 'unseqData') and len(t[1]) > 32766:
            return False
    return True


def shrink_reencode(case):
    """greedy: fewer operations, shorter payloads / texts, plain source — keeping the failure"""
    def smaller_vals(v):
        if isinstance(v, (bytes, bytearray)):
            v = bytes(v)
            return [v[:n] for n in sorted({0, 1, 2, len(v) // 2}) if n < len(v)]
        if isinstance(v, list) and v and isinstance(v[0], int):
            return [v[:n] for n in sorted({0, 1, len(v) // 2}) if n < len(v)]
        return []

    def candidates(c):
        for i in range(len(c['ops'])):
            yield dict(c, ops=c['ops'][:i] + c['ops'][i + 1:])
        if c['source'] != 'new':
            yield dict(c, source='new')
        t = c['packet']
        for f in fields_of(t):
            if f == 'sequence':
                continue
            for v in smaller_vals(field_sx(t, f)):
                yield dict(c, packet=with_field(t, f, v))
        for i, op in enumerate(c['ops']):
            if op[0] in ('set', 'setba') and op[1] != 'sequence':
                for v in smaller_vals(op[2]):
                    yield dict(c, ops=c['ops'][:i] + [[op[0], op[1], v]] + c['ops'][i + 1:])
            if op[0] in ('ba-slice', 'ba-extend'):
                for v in smaller_vals(op[1]):
                    yield dict(c, ops=c['ops'][:i] + [[op[0], v]] + c['ops'][i + 1:])
    f = reencode_failure(case)
    if f is None:
        return case
    case = dict(case, ops=case['ops'][:f[0]])
    for _ in range(200):
        for c in candidates(case):
            if reencode_valid(c) and reencode_failure(c) is not None:
                case = c
                break
        else:
            break
    return case


def reencode_replay_dict(case):
    ops = []
    for op in case['ops']:
        ops.append([op[0]] + [({'hex': bytes(x).hex()} if isinstance(x, (bytes, bytearray)) else
                               ({'packet': sx(x)} if op[0] == 'setall' else x)) for x in op[1:]])
    return {'kind': 'reencode', 'packet': sx(case['packet']), 'packet_kind': kind_of(case['packet']),
            'source': case['source'], 'ops': ops}


def reencode_from_replay(rep):
    ops = []
    for op in rep['ops']:
        args = []
        for x in op[1:]:
            if isinstance(x, dict) and 'hex' in x:
                args.append(bytes.fromhex(x['hex']))
            elif isinstance(x, dict) and 'packet' in x:
                args.append(normalise(parse_sx(x['packet'])[0]))
            else:
                args.append(x)
        ops.append([op[0]] + args)
    return {'packet': normalise(parse_sx(rep['packet'])[0]), 'source': rep['source'], 'ops': ops}


def gen_reencode_case(rng, t, pool):
    """one re-encoding case starting from the well-formed packet t; new field values come from other well-formed packets"""
    k = kind_of(t)
    fs = fields_of(t)
    data = k in ('seqData', 'unseqData')
    source = rng.choice(SOURCES if data else ('new', 'decoded', 'decoded-ba'))
    if not fs:
        return {'packet': t, 'source': source, 'ops': [['again'] for _ in range(rng.randint(1, 2))]}
    case = {'packet': t, 'source': source, 'ops': []}
    cur = t
    ba = data and (source == 'new-ba' or (source == 'decoded-ba' and len(t[1]) > 0))
    for _ in range(rng.randint(1, 3)):
        other = rng.choice(pool[k])
        c = rng.random()
        if ba and rng.random() < 0.5:
            o = rng.choice(['ba-slice', 'ba-extend', 'ba-poke', 'ba-clear'])
            if o == 'ba-poke' and len(cur[1]) == 0:
                o = 'ba-extend'
            if o == 'ba-slice':
                op = [o, bytes(other[1])]
            elif o == 'ba-extend':
                op = [o, bytes(other[1])[:max(0, min(len(other[1]), 32766 - len(cur[1])))] or bytes([rng.randrange(256)])]
                if len(cur[1]) + len(op[1]) > 32766:
                    op = ['ba-clear']
            elif o == 'ba-poke':
                i = rng.randrange(len(cur[1]))
                op = [o, i, (cur[1][i] + rng.randint(1, 255)) % 256]
            else:
                op = [o]
        elif c < 0.1:
            op = ['again']
        elif c < 0.25 and len(fs) > 1:
            op = ['setall', other]
        else:
            f = rng.choice(fs)
            op = ['setba' if (data and rng.random() < 0.4) else 'set', f, field_sx(other, f)]
        case['ops'].append(op)
        cur = apply_op(cur, op)
        if op[0] == 'setba':
            ba = True
        elif op[0] in ('set', 'setall') and data:
            ba = False
    return case


def boundary_reencode():
    """every kind x every field x every way the object came to be x every kind of change, with values that change the length"""
    out = []
    a = {'loginReq': ['loginReq', cps('u1'), cps('pw'), cps('sess'), cps('1')], 'loginAcc': ['loginAcc', cps('sess'), 1],
         'loginRej': ['loginRej', 65], 'debug': ['debug', cps('hello')]}
    b = {'loginReq': ['loginReq', cps('user66'), cps('p' * 10), cps(''), cps('-12345')], 'loginAcc': ['loginAcc', cps('abcdefghij'), 10**20 - 1],
         'loginRej': ['loginRej', 83], 'debug': ['debug', cps('')]}
    for k in a:
        for src in ('new', 'decoded', 'decoded-ba'):
            for x, y in ((a[k], b[k]), (b[k], a[k])):
                for f in FIELDS[k]:
                    out.append({'packet': x, 'source': src, 'ops': [['set', f, field_sx(y, f)], ['again'], ['set', f, field_sx(x, f)]]})
                out.append({'packet': x, 'source': src, 'ops': [['setall', y], ['setall', x]]})
    big = bytes((i * 11) % 256 for i in range(32766))
    for k in ('seqData', 'unseqData'):
        for src in SOURCES:
            for d0, d1 in ((b'', b'\x00'), (b'\x00', b''), (b'ab', b'cd'), (b'abc', big), (big, b'x'), (b'\x00\x03S', b'\x00\x02+x'),
                           (b'A', b'A' * 255), (b'A' * 254, b'B' * 256)):
                out.append({'packet': [k, d0], 'source': src, 'ops': [['set', 'data', d1], ['again']]})
                out.append({'packet': [k, d0], 'source': src, 'ops': [['setba', 'data', d1], ['ba-extend', b'\xff'], ['ba-poke', 0, 7], ['ba-clear']]
                            if len(d1) < 32766 else [['setba', 'data', d1], ['ba-poke', 0, 7], ['ba-clear']]})
                if src in ('new-ba', 'decoded-ba') and d0:
                    out.append({'packet': [k, d0], 'source': src, 'ops': [['ba-slice', d1]]})
                    out.append({'packet': [k, d0], 'source': src, 'ops': [['ba-poke', len(d0) - 1, (d0[-1] + 1) % 256]]})
                    out.append({'packet': [k, d0], 'source': src, 'ops': [['ba-clear'], ['ba-extend', d1 or b'z']]})
                    if len(d0) + len(d1) <= 32766:
                        out.append({'packet': [k, d0], 'source': src, 'ops': [['ba-extend', d1 or b'z']]})
    for k in ('clientHb', 'serverHb', 'endOfSession', 'logoutReq'):
        for src in ('new', 'decoded', 'decoded-ba'):
            out.append({'packet': k, 'source': src, 'ops': [['again'], ['again']]})
    return out


def model_val(k, f, v):
    if f == 'data':
        return ['b', bytes(v)]
    if f == 'reason':
        return ['r', v]
    if f == 'sequence' and k == 'loginAcc':
        return ['i', v]
    return ['t', list(v)]


def model_obj_line(case):
    """the same history for Model/SoupObj.lean: every change becomes the assignment(s) of the resulting field value(s)"""
    k = kind_of(case['packet'])
    ops, cur = ['enc'], case['packet']
    for op in case['ops']:
        nxt = apply_op(cur, op)
        if op[0] in ('set', 'setba'):
            ops.append(['set', op[1], model_val(k, op[1], op[2])])
        elif op[0] == 'setall':
            ops += [['set', f, model_val(k, f, field_sx(nxt, f))] for f in FIELDS[k]]
        elif op[0] != 'again':
            ops.append(['set', 'data', ['b', bytes(nxt[1])]])
        ops.append('enc')
        cur = nxt
    return f'soup.obj {sx(case["packet"])} {sx(ops)}'


def impl_obj_trace(case):
    """what every to_bytes() of the history returned on the implementation, in the driver's format"""
    k = kind_of(case['packet'])
    out = []
    try:
        p = make_object(case['packet'], case['source'])
    except Exception as e:  # noqa
        return '(make:' + err_name(e) + ')'
    for i in range(len(case['ops']) + 1):
        if i > 0:
            try:
                do_op(p, k, case['ops'][i - 1])
            except Exception as e:  # noqa
                out.append('op:' + err_name(e))
                break
        try:
            out.append(sx(bytes(p.to_bytes()[1])))
        except Exception as e:  # noqa
            out.append('err:' + err_name(e))
    return '(' + ' '.join(out) + ')'


def check_reencode(ctx, case, lays, model_trace=None):
    k = kind_of(case['packet'])
    if model_trace is not None:
        got = impl_obj_trace(case)
        if got != model_trace:
            i = next((j for j, (a, b) in enumerate(zip(got, model_trace)) if a != b), min(len(got), len(model_trace)))
            ctx.disagree(f'soup.obj {k} ({case["source"]}): the to_bytes() results of the history differ at character {i}: model '
                         f'…{model_trace[max(0, i - 20):i + 40]} vs implementation …{got[max(0, i - 20):i + 40]}', reencode_replay_dict(case))
    ctx.count('reencode:' + k + ':' + case['source'])
    for op in case['ops']:
        ctx.count('reencode-op:' + op[0] + (':' + op[1] if op[0] in ('set', 'setba') else ''))
    f = reencode_failure(case, lays)
    if f is None:
        return
    small = shrink_reencode(case) if reencode_failure(case) is not None else case
    g = reencode_failure(small) or f
    ops = ' → '.join(o[0] + (' ' + o[1] if o[0] in ('set', 'setba') else '') for o in small['ops'][:g[0]]) or 'as made'
    ctx.violation(f'{k} object ({small["source"]}) encoded, then [{ops}], encoded again: {g[1]}', reencode_replay_dict(small))



# ------------------------------------------------------------------ every decode ENTRY POINT
# `from_bytes` is a classmethod defined on SoupMessage and inherited by the ten packet classes: `LogoutRequest.from_bytes(b)`,
# `SequencedData.from_bytes(b)` … are decode calls the library offers (public, documented through `Serializable.from_bytes`) next to
# `SoupMessage.from_bytes(b)`.  The statement's "decoding … yields an equal packet of the same type" and "decoding never returns a packet
# of a type other than the one named by the type character" speak about decoding, not about one spelling of it, so every clause that is
# evaluated on `SoupMessage.from_bytes` is evaluated on each of the eleven entry points.  (`<Class>.unpack` is NOT a decode entry point:
# it is the stage the type character has already selected and takes no notice of that character; model and implementation are compared
# on it — `Soup.unpackAs`, Extracted.soupUnpackTable — but the oracle does not judge it.)
ENTRY_CLASSES = ['SoupMessage', 'LoginRequest', 'LoginAccepted', 'LoginRejected', 'SequencedData', 'UnSequencedData', 'Debug',
                 'ClientHeartbeat', 'ServerHeartbeat', 'EndOfSession', 'LogoutRequest']
def class_type_char(cls_name):
    """type character of a packet class, from the protocol description (not from the library's registry)"""
    return TYPE_CHAR[CLASS_KIND[cls_name]]


def impl_decode_via(cls_name, b, as_bytearray=False):
    """`<cls_name>.from_bytes(b)`: ('ok', n, packet) | ('err', name)"""
    try:
        n, m = getattr(soup(), cls_name).from_bytes(bytearray(b) if as_bytearray else b)
        return ('ok', n, m)
    except Exception as e:  # noqa
        return ('err', err_name(e))


def outcome_text(d):
    if d[0] != 'ok':
        return 'err ' + d[1]
    try:
        return 'ok ' + sx(pkt_to_sx(d[2]))
    except Exception as e:  # noqa   -- an object that is none of the ten packet classes
        return f'ok <{type(d[2]).__name__}:{err_name(e)}>'


def via_failure(cls_name, b):
    """the kind clause on one entry point and one byte string (implementation alone): None when it holds"""
    d = impl_decode_via(cls_name, b)
    if d[0] != 'ok':
        return None
    got = type(d[2]).__name__
    if len(b) < 3:
        return f'{cls_name}.from_bytes returned a {got} for {len(b)} bytes: there is no type character'
    if got not in CLASS_KIND or class_type_char(got) != chr(b[2]):
        named = next((c for c in CLASS_KIND if class_type_char(c) == chr(b[2])), None)
        return (f'{cls_name}.from_bytes({bytes(b[:24])!r}{"…" if len(b) > 24 else ""}) returned a {got}; the type character '
                f'{b[2:3]!r} names {named or "no packet"}')
    return None


def via_wf_failure(p, b):
    """round-trip clause through every entry point for a packet p inside the documented widths and its encoding b"""
    for c in ENTRY_CLASSES:
        for as_ba in (False, True):
            d = impl_decode_via(c, b, as_ba)
            if d[0] != 'ok':
                return c, f'{c}.from_bytes of its encoding raised {d[1]}'
            if type(d[2]) is not type(p) or not (d[2] == p) or pkt_to_sx(d[2]) != pkt_to_sx(p):
                return c, f'{c}.from_bytes of its encoding gave {str(d[2])[:60]!r}, the packet is {str(p)[:60]!r}'
            if d[1] != len(b):
                return c, f'{c}.from_bytes reported {d[1]} bytes consumed of {len(b)}'
    return None


def shrink_via(cls_name, b):
    """shorter byte string with the same failing entry point: drop the tail (keeping the length prefix honest where possible)"""
    b = bytes(b)
    for _ in range(64):
        cands = []
        if len(b) > 3:
            for n in sorted({3, 4, 3 + (len(b) - 3) // 2, len(b) - 1}):
                if 3 <= n < len(b):
                    cands.append(bytes([(n - 2) >> 8 & 0xff, (n - 2) & 0xff]) + b[2:n])
                    cands.append(b[:n])
        if len(b) >= 3 and (b[0], b[1]) != ((len(b) - 2) >> 8 & 0xff, (len(b) - 2) & 0xff):
            cands.append(bytes([(len(b) - 2) >> 8 & 0xff, (len(b) - 2) & 0xff]) + b[2:])
        for c in cands:
            if via_failure(cls_name, c) is not None:
                b = c
                break
        else:
            break
    return b


def check_via(ctx, b, model_line):
    """one byte string through every entry point: kind clause (oracle) + outcome per entry point vs `Soup.decodeVia` (correspondence)"""
    got = []
    for c in ENTRY_CLASSES:
        got.append(outcome_text(impl_decode_via(c, b)))
        f = via_failure(c, b)
        if f is not None and not ctx.cov.get('_via_reported', {}).get(c):
            ctx.cov.setdefault('_via_reported', {})[c] = True          # one minimised report per entry point is enough
            small = shrink_via(c, b)
            ctx.violation(via_failure(c, small) or f, {'kind': 'decode-via', 'cls': c, 'bytes': small.hex()})
    if model_line is not None:
        want = model_line.split(' | ')
        if want != got:
            i = next((j for j, (x, y) in enumerate(zip(want, got)) if x != y), 0)
            ctx.disagree(f'soup.decvia {ENTRY_CLASSES[i]}.from_bytes: model {want[i][:70]} vs implementation {got[i][:70]}',
                         {'kind': 'decode-via', 'cls': ENTRY_CLASSES[i], 'bytes': bytes(b).hex()})
    if len(set(got)) > 1:
        ctx.count('via:entry-points-differ')


def via_boundary_inputs():
    """the encodings every class's unpack could be tempted by: for each type character the packets of 3, 4, 5, 33 and 49 bytes
    (the sizes of the base / LoginRejected / data / LoginAccepted / LoginRequest layouts), digits as filler so that integer columns
    parse, plus 'A' / 'S' for the reject reason; inputs too short to have a type character"""
    out = [b'', b'\x00', b'\x00\x01']
    for t in b'LAJSU+RHZO':
        for n in (3, 4, 5, 33, 49):
            out.append(bytes([0, n - 2, t]) + b'1' * (n - 3))
        out.append(bytes([0, 2, t]) + b'A')
        out.append(bytes([0, 2, t]) + b'S')
    return out


def impl_unpack(cls_name, b):
    """`<cls_name>.unpack(b)` — the stage the dispatch selects (compared with `Soup.unpackAs`, not judged by the oracle)"""
    try:
        return ('ok', len(b), getattr(soup(), cls_name).unpack(b))
    except Exception as e:  # noqa
        return ('err', err_name(e))


def check_unpack(ctx, b, model_line):
    got = [outcome_text(impl_unpack(c, b)) for c in ENTRY_CLASSES[1:]]
    want = model_line.split(' | ')
    if want != got:
        i = next((j for j, (x, y) in enumerate(zip(want, got)) if x != y), 0)
        ctx.disagree(f'soup.unpack {ENTRY_CLASSES[1 + i]}.unpack: model {want[i][:70]} vs implementation {got[i][:70]}',
                     {'kind': 'unpack', 'cls': ENTRY_CLASSES[1 + i], 'bytes': bytes(b).hex()})


def unpack_model_line(b):
    return f'soup.unpack {sx(ENTRY_CLASSES[1:])} {sx(bytes(b))}'


def via_model_line(b):
    return f'soup.decvia {sx(ENTRY_CLASSES)} {sx(bytes(b))}'


# ------------------------------------------------------------------ one case
def impl_encode(t):
    try:
        p = sx_to_pkt(t)
        n, b = p.to_bytes()
        return ('ok', n, bytes(b), p)
    except Exception as e:  # noqa
        return ('err', err_name(e))


def impl_decode(b, as_bytearray=False):
    s = soup()
    try:
        n, m = s.SoupMessage.from_bytes(bytearray(b) if as_bytearray else b)
        return ('ok', n, m)
    except Exception as e:  # noqa
        return ('err', err_name(e))


def check_wf_packet(ctx, t, model_enc, model_dec_of):
    """oracle (property statement on the implementation) + correspondence for one well-formed packet"""
    k = kind_of(t)
    rep = {'kind': 'wf-packet', 'packet': sx(t) if len(sx(t)) < 400 else sx(t)[:400] + '...', 'packet_kind': k}
    full = {'kind': 'wf-packet', 'packet': sx(t), 'packet_kind': k}
    r = impl_encode(t)
    if r[0] != 'ok':
        ctx.violation(f'encoding a well-formed {k} packet raised {r[1]}', full)
        return None
    _, n, b, p = r
    ref = reference_layout(t)
    if n != len(b):
        ctx.violation(f'{k}: reported length {n} != {len(b)} bytes produced', full)
    if b != ref:
        ctx.violation(f'{k}: bytes differ from the protocol layout: got {b[:40].hex()}… expected {ref[:40].hex()}…', full)
    elif int.from_bytes(b[:2], 'big') != len(b) - 2 or chr(b[2]) != TYPE_CHAR[k]:
        ctx.violation(f'{k}: length prefix / type character wrong', full)
    for as_ba in (False, True):
        d = impl_decode(b, as_ba)
        if d[0] != 'ok':
            ctx.violation(f'{k}: decoding its own encoding raised {d[1]}', full)
            break
        _, dn, m = d
        if type(m) is not type(p) or not (m == p) or pkt_to_sx(m) != pkt_to_sx(p):
            ctx.violation(f'{k}: decoded packet differs from the original: {str(m)[:80]!r} vs {str(p)[:80]!r}', full)
            break
        if dn != len(b):
            ctx.violation(f'{k}: decode reported {dn} bytes consumed of {len(b)}', full)
            break
    vf = via_wf_failure(p, b)
    if vf is not None:
        ctx.violation(f'{k}: {vf[1]}', {'kind': 'wf-packet', 'packet': sx(t), 'packet_kind': k, 'entry_point': vf[0]})
    # correspondence with the Lean model
    if model_enc is not None:
        exp = 'ok ' + sx(b)
        if model_enc != exp:
            ctx.disagree(f'soup.enc {k}: model {model_enc[:60]} vs implementation {exp[:60]}', full)
    return b


# ------------------------------------------------------------------ EVERY packet the library can build
# The statement starts "Every SoupBinTCP packet the library can build …".  Whether a constructor call + to_bytes() succeeds is decided
# by the library, not by `wfPkt`: texts outside ASCII, fields wider than their column, integer / None / bytes arguments where a str
# is documented, payloads given as bytearray / memoryview / list of ints.  A case = constructor name + argument values; when the
# library builds AND encodes it, the framing clauses of the statement must hold for the bytes it produced:
#   reported length = bytes produced; 2-byte big-endian prefix = number of bytes that follow; third byte = the class's type
#   character; decoding those bytes gives a packet of that class (never another one); a following packet on the same stream is
#   framed correctly by the library's own reader (SoupMessageReader.deserialize on  encoding ++ next packet).
# "decodes to an EQUAL packet" is demanded for debug text and data payloads of every content (they have no width), and for login
# packets only inside the documented widths (that is `check_wf_packet`): a login field wider than its column is cut by design.
ANY_CLASSES = {'LoginRequest': 4, 'LoginAccepted': 2, 'LoginRejected': 1, 'SequencedData': 1, 'UnSequencedData': 1, 'Debug': 1,
               'ClientHeartbeat': 0, 'ServerHeartbeat': 0, 'EndOfSession': 0, 'LogoutRequest': 0}
CLASS_KIND = {'LoginRequest': 'loginReq', 'LoginAccepted': 'loginAcc', 'LoginRejected': 'loginRej', 'SequencedData': 'seqData',
              'UnSequencedData': 'unseqData', 'Debug': 'debug', 'ClientHeartbeat': 'clientHb', 'ServerHeartbeat': 'serverHb',
              'EndOfSession': 'endOfSession', 'LogoutRequest': 'logoutReq'}
# code points by repertoire: 7-bit, ISO-8859-1 upper half, other BMP (2- and 3-byte UTF-8), astral (4-byte UTF-8), lone surrogates
REPERTOIRES = {
    'ascii': lambda rng: rng.choice([rng.randrange(32, 127), rng.randrange(128), 32, 0]),
    'latin1': lambda rng: rng.randrange(0x80, 0x100),
    'bmp': lambda rng: rng.choice([0x20ac, 0x3b1, 0x416, 0x4e2d, 0xff21, 0x100, 0x7ff, 0x800, 0xfffd, rng.randrange(0x100, 0xd800)]),
    'astral': lambda rng: rng.choice([0x1f600, 0x10000, 0x10ffff, rng.randrange(0x10000, 0x110000)]),
    'surrogate': lambda rng: rng.randrange(0xd800, 0xe000),
}


def gen_any_text(rng, width=None):
    """text for a str argument: any repertoire (pure or mixed into ASCII), any length relative to the column width"""
    rep = rng.choice(['ascii', 'ascii', 'latin1', 'latin1', 'bmp', 'bmp', 'astral', 'surrogate'])
    if width is None:
        n = rng.choice([0, 1, 1, 2, 3, 5, 8, 30, 127, 128, 255, 256, 1000]) if rng.random() < 0.6 else rng.randint(0, 40)
    else:
        n = rng.choice([0, 1, width - 1, width, width, width + 1, width + 5, 3 * width]) if rng.random() < 0.7 else rng.randint(0, width)
    mix = rng.random() < 0.5
    return [REPERTOIRES[rep](rng) if (not mix or rng.random() < 0.3) else rng.randrange(33, 127) for _ in range(n)]


def gen_any_arg(rng, cls, i):
    """argument i of the constructor of cls, as a JSON-able tagged value"""
    c = rng.random()
    if cls in ('SequencedData', 'UnSequencedData'):
        d = gen_payload(rng, 'quick')
        if len(d) > 300 and c >= 0.3:
            d = d[:300]
        if c < 0.3:
            return {'bytes': d.hex()}
        if c < 0.5:
            return {'bytearray': d.hex()}
        if c < 0.65:
            return {'memoryview': d.hex()}
        if c < 0.8:
            return {'ints': list(d[:64])}
        if c < 0.86:
            return {'str': gen_any_text(rng)[:40]}
        if c < 0.92:
            return {'int': rng.choice([0, 1, 3, 255, 70000])}
        if c < 0.96:
            return {'none': 1}
        return {'bytes': bytes(rng.choice([32766, 32767, 32768, 40000, 65534, 65535, 65536])).hex()}
    if cls == 'Debug':
        if c < 0.8:
            return {'str': gen_any_text(rng)}
        if c < 0.86:
            return {'str': [rng.randrange(32, 127)] * rng.choice([32765, 32766, 32767, 32768, 65535, 65536])}
        if c < 0.9:   # the largest texts whose character count fits while the byte count may not
            return {'str': [rng.choice([0xe9, 0x20ac, 0x1f600])] * rng.choice([10922, 16383, 16384, 21845, 32766, 32767])}
        if c < 0.94:
            return {'bytes': rng.randbytes(rng.randint(0, 8)).hex()}
        if c < 0.97:
            return {'int': rng.randint(0, 99)}
        return {'none': 1}
    if cls == 'LoginRejected':
        if c < 0.5:
            return {'str': [rng.choice([65, 83])]}
        if c < 0.7:
            return {'reason': rng.choice(['A', 'S'])}
        if c < 0.9:
            return {'str': gen_any_text(rng, 1)}
        return {'int': rng.choice([65, 83, 0])}
    # login packets: LoginRequest(user, password, session, sequence), LoginAccepted(session_id, sequence)
    width = {'LoginRequest': [6, 10, 10, 20], 'LoginAccepted': [10, 20]}[cls][i]
    if rng.random() < 0.6:      # most arguments plain, so that one odd argument at a time decides what happens
        if width == 20:
            q = gen_seq_int(rng)
            return {'int': q} if rng.random() < 0.5 else {'str': cps(str(q))}
        return {'str': cps(gen_text(rng, width))}
    if width == 20:
        if c < 0.35:
            return {'int': gen_seq_int(rng)}
        if c < 0.45:
            return {'int': rng.choice([10**20, -10**19, 10**25, -(10**30), 2**70])}
        if c < 0.7:
            return {'str': cps(str(gen_seq_int(rng)))}
        if c < 0.8:
            return {'str': cps(rng.choice(['007', '+5', ' 5', '5 ', '1_0', 'abc', '', '-', '٣', '１２', '1e3', '0x10', '²']))}
        if c < 0.95:
            return {'str': gen_any_text(rng, 20)}
        return {'none': 1}
    if c < 0.85:
        return {'str': gen_any_text(rng, width)}
    if c < 0.9:
        return {'int': rng.randint(0, 10**8)}
    if c < 0.95:
        return {'bytes': rng.randbytes(rng.randint(0, width + 2)).hex()}
    return {'none': 1}


def gen_any_case(rng):
    cls = rng.choice(['LoginRequest', 'LoginRequest', 'LoginAccepted', 'LoginAccepted', 'LoginRejected', 'SequencedData',
                      'UnSequencedData', 'Debug', 'Debug', 'Debug', 'ClientHeartbeat', 'ServerHeartbeat', 'EndOfSession', 'LogoutRequest'])
    return {'cls': cls, 'args': [gen_any_arg(rng, cls, i) for i in range(ANY_CLASSES[cls])]}


def boundary_any():
    """every repertoire x every str-typed argument, alone and between ASCII, short and at the column width"""
    out = []
    txt = lambda s: {'str': cps(s)}
    samples = ['é', 'ÿ', '\x80', '€', 'α', '中', '\U0001f600', '\ud800', 'é€', 'café closed', 'a€b', '€' * 5, 'é' * 6, 'é' * 10, 'é' * 20,
               'x\x7f', '\x7f', '\x00']
    for s in samples:
        out.append({'cls': 'Debug', 'args': [txt(s)]})
        out.append({'cls': 'LoginRequest', 'args': [txt(s), txt('pw'), txt('s'), txt('1')]})
        out.append({'cls': 'LoginRequest', 'args': [txt('u'), txt(s), txt('s'), txt('1')]})
        out.append({'cls': 'LoginRequest', 'args': [txt('u'), txt('pw'), txt(s), txt('1')]})
        out.append({'cls': 'LoginRequest', 'args': [txt('u'), txt('pw'), txt('s'), txt(s)]})
        out.append({'cls': 'LoginAccepted', 'args': [txt(s), {'int': 1}]})
        out.append({'cls': 'LoginAccepted', 'args': [txt('s'), txt(s)]})
        out.append({'cls': 'LoginRejected', 'args': [txt(s)]})
        out.append({'cls': 'SequencedData', 'args': [txt(s)]})
    for n in (32765, 32766, 32767, 32768):
        out.append({'cls': 'Debug', 'args': [{'str': [97] * n}]})
        out.append({'cls': 'Debug', 'args': [{'str': [97] * (n - 1) + [0xe9]}]})
        for tag in ('bytes', 'bytearray', 'memoryview'):
            out.append({'cls': 'SequencedData', 'args': [{tag: bytes(n).hex()}]})
    for tag in ('bytes', 'bytearray', 'memoryview'):
        for d in (b'', b'\x00', b'\x00\x03S', b'abc'):
            out.append({'cls': 'UnSequencedData', 'args': [{tag: d.hex()}]})
    out.append({'cls': 'UnSequencedData', 'args': [{'ints': [0, 3, 83, 255]}]})
    out.append({'cls': 'SequencedData', 'args': [{'ints': []}]})
    out.append({'cls': 'SequencedData', 'args': [{'int': 3}]})
    for a in ({'int': 5}, {'none': 1}, txt('x' * 7), txt('x' * 21)):
        out.append({'cls': 'LoginRequest', 'args': [a, a, a, a]})
        out.append({'cls': 'LoginAccepted', 'args': [a, a]})
    return out


def any_value(v):
    """the python object for a tagged value"""
    (tag, x), = v.items()
    if tag == 'str':
        return ''.join(chr(c) for c in x)
    if tag == 'bytes':
        return bytes.fromhex(x)
    if tag == 'bytearray':
        return bytearray.fromhex(x)
    if tag == 'memoryview':
        return memoryview(bytes.fromhex(x))
    if tag == 'ints':
        return list(x)
    if tag == 'int':
        return int(x)
    if tag == 'none':
        return None
    if tag == 'reason':
        return soup().LoginRejectReason(x)
    raise ValueError(tag)


def any_repr(case):
    def one(v):
        (tag, x), = v.items()
        if tag in ('str', 'ints') and len(x) > 24:
            return f'{tag}:{x[:24]}…({len(x)})'
        if isinstance(x, str) and len(x) > 48:
            return f'{tag}:{x[:48]}…({len(x) // 2})'
        return f'{tag}:{x}'
    return case['cls'] + '(' + ', '.join(one(v) for v in case['args']) + ')'


def any_model_form(case):
    """the packet as a `Pkt` s-expression when the model can express these arguments (str / bytes-like / int sequence), else None"""
    k = CLASS_KIND[case['cls']]
    a = case['args']
    tag = lambda v: next(iter(v))
    if not a:
        return k
    if k == 'loginReq':
        if all(tag(v) == 'str' for v in a[:3]) and tag(a[3]) in ('str', 'int'):
            q = a[3]['str'] if tag(a[3]) == 'str' else cps(str(a[3]['int']))
            return [k, a[0]['str'], a[1]['str'], a[2]['str'], q]
        return None
    if k == 'loginAcc':
        if tag(a[0]) == 'str' and tag(a[1]) == 'int':
            return [k, a[0]['str'], a[1]['int']]
        return None
    if k == 'loginRej':
        if tag(a[0]) == 'str' and a[0]['str'] in ([65], [83]):
            return [k, a[0]['str'][0]]
        if tag(a[0]) == 'reason':
            return [k, ord(a[0]['reason'])]
        return None
    if k in ('seqData', 'unseqData'):
        if tag(a[0]) in ('bytes', 'bytearray', 'memoryview'):
            return [k, bytes.fromhex(a[0][tag(a[0])])]
        if tag(a[0]) == 'ints':
            return [k, bytes(a[0]['ints'])]
        return None
    if tag(a[0]) == 'str':
        return [k, a[0]['str']]
    return None


_NEXT = None
_LOOP = []


def following_packets():
    """(bytes, packet) that follow the packet under test on the stream; encoded by the reference, not by the library"""
    global _NEXT
    if _NEXT is None:
        _NEXT = [['seqData', b'\x00\x03S'], 'serverHb', ['debug', cps('next')], ['unseqData', b'']]
    return _NEXT


def read_stream(stream, cuts=()):
    """feed `stream` (in the pieces given by cuts) to the library's SoupMessageReader and take messages out with its own
    deserialize() until it has nothing more: ([(consumed bytes, message)], left-over, error-or-None)"""
    import asyncio
    from nasdaq_protocols.soup._reader import SoupMessageReader
    res = {}

    async def main():
        async def on_msg(_m):
            return None

        async def on_close():
            return None
        rd = SoupMessageReader('c12', on_msg, on_close)
        rd._task.cancel()
        out, err = [], None
        pieces, last = [], 0
        for c in list(cuts) + [len(stream)]:
            pieces.append(stream[last:c])
            last = c
        try:
            for pc in pieces:
                rd.on_data(pc)
                for _ in range(len(stream) + 2):
                    before = bytes(rd._buffer)
                    msg, _stop, _skip = rd.deserialize()
                    if msg is None:
                        break
                    out.append((before[:len(before) - len(rd._buffer)], msg))
        except Exception as e:  # noqa
            err = err_name(e)
        res['r'] = (out, bytes(rd._buffer), err)
        try:
            await asyncio.sleep(0)
        except BaseException:  # noqa
            pass
    if not _LOOP:
        _LOOP.append(asyncio.new_event_loop())      # one loop for the whole run (the reader only needs one to be constructed in)
    _LOOP[0].run_until_complete(main())
    return res['r']


def any_build(case):
    """('ok', n, bytes, packet) | ('err', stage, name)"""
    s = soup()
    try:
        p = getattr(s, case['cls'])(*[any_value(v) for v in case['args']])
    except Exception as e:  # noqa
        return ('err', 'construct', err_name(e))
    try:
        n, b = p.to_bytes()
        return ('ok', n, b, p)
    except Exception as e:  # noqa
        return ('err', 'encode', err_name(e))


def any_failure(case, nxt_i=0, cut=None):
    """the framing clauses of the statement on a packet the library built and encoded; None when they hold or nothing was built"""
    s = soup()
    r = any_build(case)
    if r[0] != 'ok':
        return None
    _, n, b, p = r
    cls = type(p)
    if not isinstance(b, (bytes, bytearray)):
        return f'to_bytes() returned a {type(b).__name__}, not bytes'
    b = bytes(b)
    if n != len(b):
        return f'reported length {n} != {len(b)} bytes produced'
    if len(b) < 3:
        return f'only {len(b)} bytes produced: no room for length prefix and type character'
    if int.from_bytes(b[:2], 'big') != len(b) - 2:
        return (f'length prefix says {int.from_bytes(b[:2], "big")} but {len(b) - 2} bytes follow; wire={b[:40].hex()}'
                + ('…' if len(b) > 40 else ''))
    if chr(b[2]) != cls.Indicator or s.SoupMessage.ClassByIndicator.get(chr(b[2])) is not cls:
        return f'type character {b[2:3]!r} is not the one of {cls.__name__}'
    exact = case['cls'] in ('Debug', 'SequencedData', 'UnSequencedData') and \
        all(next(iter(v)) in ('str', 'bytes', 'bytearray', 'memoryview') for v in case['args'])
    d = impl_decode(b)
    if d[0] == 'ok':
        if type(d[2]) is not cls:
            return f'decoding its own encoding gave a {type(d[2]).__name__}'
        if d[1] != len(b):
            return f'decode reported {d[1]} bytes consumed of {len(b)}'
        if exact and not (d[2] == p and pkt_to_sx(d[2]) == pkt_to_sx(p)):
            return f'decoded packet differs from the original: {str(d[2])[:60]!r} vs {str(p)[:60]!r}'
    elif exact:
        return f'decoding its own encoding raised {d[1]}'
    for c in ENTRY_CLASSES[1:]:      # … through every entry point: never another class; an equal packet where equality is demanded
        dv = impl_decode_via(c, b)
        if dv[0] == 'ok':
            if type(dv[2]) is not cls:
                return f'{c}.from_bytes of its encoding gave a {type(dv[2]).__name__}'
            if dv[1] != len(b):
                return f'{c}.from_bytes reported {dv[1]} bytes consumed of {len(b)}'
            if exact and not (dv[2] == p and pkt_to_sx(dv[2]) == pkt_to_sx(p)):
                return f'{c}.from_bytes of its encoding differs from the original: {str(dv[2])[:60]!r} vs {str(p)[:60]!r}'
        elif exact:
            return f'{c}.from_bytes of its encoding raised {dv[1]}'
    # the same bytes on a stream, followed by another packet, through the library's own reader
    nt = following_packets()[nxt_i % len(following_packets())]
    nb = reference_layout(nt)
    out, left, err = read_stream(b + nb, () if cut is None else (cut % (len(b) + len(nb) + 1),))
    if d[0] != 'ok':
        # a login packet whose fields cannot be read back (e.g. sequence 'abc'): the reader fails on it in the same way, the stream
        # ends there by design (C07); the prefix clause above is what says the frame itself is sound
        if err != d[1] or out:
            return f'the reader took {len(out)} packet(s) and ended with {err} where decoding raises {d[1]}'
        return None
    if err is not None:
        return f'reading the encoding followed by a {kind_of(nt)} packet from one stream raised {err} after {len(out)} packet(s)'
    if len(out) != 2 or left:
        return (f'the encoding followed by a {kind_of(nt)} packet came out of the reader as {len(out)} packet(s) '
                f'({", ".join(type(m).__name__ for _, m in out[:4])}) with {len(left)} bytes left over')
    if out[0][0] != b or type(out[0][1]) is not cls or (exact and not out[0][1] == p):
        return f'the reader framed {len(out[0][0])} bytes as a {type(out[0][1]).__name__}, the packet is {len(b)} bytes of {cls.__name__}'
    if out[1][0] != nb or pkt_to_sx(out[1][1]) != nt:
        return f'the packet FOLLOWING it on the stream came out as {str(out[1][1])[:60]!r}, sent {sx(nt)[:60]}'
    return None


def shrink_any(case, nxt_i, cut):
    """shorter texts / payloads, fewer non-default arguments — keeping a failure"""
    def cands(c):
        for i, v in enumerate(c['args']):
            (tag, x), = v.items()
            if tag in ('str', 'ints') and x:
                for y in ([x[:len(x) // 2], x[len(x) // 2:]] if len(x) > 1 else []) + [x[:j] + x[j + 1:] for j in range(min(len(x), 12))]:
                    yield dict(c, args=c['args'][:i] + [{tag: y}] + c['args'][i + 1:])
            if tag in ('bytes', 'bytearray', 'memoryview') and x:
                for y in (x[:(len(x) // 4) * 2], x[2:]):
                    if y != x:
                        yield dict(c, args=c['args'][:i] + [{tag: y}] + c['args'][i + 1:])
    for _ in range(300):
        for c in cands(case):
            if any_failure(c, nxt_i, cut) is not None:
                case = c
                break
        else:
            break
    return case


def check_any(ctx, case, model_enc, nxt_i=0, cut=None):
    r = any_build(case)
    ctx.count('any:' + case['cls'] + ':' + ('built' if r[0] == 'ok' else r[1] + ':' + r[2]))
    for v in case['args']:
        tag = next(iter(v))
        if tag == 'str':
            m = max(v['str'], default=0)
            tag = 'str:' + ('ascii' if m < 128 else 'latin1' if m < 256 else 'surrogate' if any(0xd800 <= c < 0xe000 for c in v['str'])
                            else 'bmp' if m < 0x10000 else 'astral')
        ctx.count('any-arg:' + tag)
    rep = {'kind': 'any-packet', 'case': case, 'next': nxt_i, 'cut': cut}
    t = any_model_form(case)
    if model_enc is not None and t is not None:
        got = ('ok ' + sx(bytes(r[2]))) if r[0] == 'ok' else 'err ' + r[2]
        if model_enc != got:
            ctx.disagree(f'soup.enc on {any_repr(case)[:100]}: model {model_enc[:60]} vs implementation {got[:60]}', rep)
    if r[0] != 'ok':
        return
    f = any_failure(case, nxt_i, cut)
    if f is None:
        return
    small = shrink_any(case, nxt_i, cut)
    g = any_failure(small, nxt_i, cut) or f
    ctx.violation(f'a packet the library builds and encodes, {any_repr(small)[:160]}: {g}',
                  {'kind': 'any-packet', 'case': small, 'next': nxt_i, 'cut': cut})


def run(ctx):
    rng = ctx.rng
    quick = ctx.tier == 'quick'
    n_rand = 1500 if quick else 20000
    n_mal = 300 if quick else 3000
    n_dec = 2500 if quick else 40000
    n_any = 2500 if quick else 30000
    ctx.cov['rule'] = ('well-formed packets: every kind x field values within widths x payloads (all 256 single bytes, header-like, '
                       'lengths 0/1/2/255/256/32765/32766, random); distinct = distinct packet s-expression; '
                       'plus one packet OBJECT encoded, changed (every field assigned, bytearray payload changed in place; object built, '
                       'built on a bytearray, or decoded) and encoded again: every encoding is the layout of the current fields and decodes '
                       'to an equal packet; plus EVERY packet the library builds and encodes (constructor arguments of any repertoire '
                       '- ASCII, ISO-8859-1, BMP, astral, surrogates -, any length relative to the column, str/int/None/bytes-like/list '
                       'arguments): reported length, length prefix = bytes that follow, type character, decode gives the same class '
                       '(an equal packet for debug text and data payloads), and the library\'s own reader frames it and the packet that '
                       'FOLLOWS it on the stream; plus malformed packets and decoder inputs (agreement model/implementation on result or error '
                       'class only); every decoder input and every encoding goes through EACH of the eleven decode entry points '
                       '(SoupMessage.from_bytes and <Class>.from_bytes of the ten packet classes): a result is a packet of the class the type '
                       'character names, an encoding decodes to an equal packet through every one of them')
    # ---- corpus first
    import os
    from common import VERIF
    corpus = []
    cdir = os.path.join(VERIF, 'corpus', 'C12')
    if os.path.isdir(cdir):
        for f in sorted(os.listdir(cdir)):
            corpus.append(json.load(open(os.path.join(cdir, f))))
    wf = [c['packet_sx'] for c in corpus if c.get('kind') == 'wf-packet']
    wf = [normalise(parse_sx(x)[0]) for x in wf]
    wf += boundary_packets()
    wf += [gen_wf_packet(rng, ctx.tier) for _ in range(n_rand)]
    mal = [gen_malformed_packet(rng) for _ in range(n_mal)]
    # ---- model answers in one batch
    lines = [f'soup.enc {sx(t)}' for t in wf + mal] + [f'soup.layout {sx(t)}' for t in wf]
    ans = ctx.driver.ask(lines) if ctx.driver.available else [None] * len(lines)
    enc_ans, lay_ans = ans[:len(wf) + len(mal)], ans[len(wf) + len(mal):]
    seeds = []
    for i, t in enumerate(wf):
        ctx.case(sx(t) if len(sx(t)) < 200 else sx(t)[:200] + '…', nontrivial=True, sample_every=97)
        ctx.count('wf:' + kind_of(t))
        b = check_wf_packet(ctx, t, enc_ans[i], None)
        if b is not None:
            if len(b) < 200:
                seeds.append(b)
            if lay_ans[i] is not None and lay_ans[i] != sx(b):
                # the Lean layout spec is the reference of C12_layout: a difference is a concrete deviation
                ctx.violation(f'{kind_of(t)}: implementation bytes differ from Spec.SoupLayout.layout', {'kind': 'wf-packet', 'packet': sx(t), 'packet_kind': kind_of(t)})
    for j, t in enumerate(mal):
        ctx.case(sx(t)[:200], nontrivial=True, sample_every=0)
        r = impl_encode(t)
        got = ('ok ' + sx(r[2])) if r[0] == 'ok' else 'err ' + r[1]
        ctx.count('malformed-enc:' + got.split()[0] + (':' + got.split()[1] if got.startswith('err') else ''))
        m = enc_ans[len(wf) + j]
        if m is not None and m != got:
            ctx.disagree(f'soup.enc on malformed {kind_of(t)}: model {m[:60]} vs implementation {got[:60]}',
                         {'kind': 'malformed-packet', 'packet': sx(t)})
        if r[0] == 'ok' and r[1] != len(r[2]):
            ctx.violation(f'{kind_of(t)}: reported length {r[1]} != {len(r[2])} bytes produced', {'kind': 'malformed-packet', 'packet': sx(t)})
    # ---- every packet the library can build (arguments of any repertoire / width / type): framing clauses on whatever encodes
    acases = [c['case'] for c in corpus if c.get('kind') == 'any-packet']
    acases += boundary_any()
    acases += [gen_any_case(rng) for _ in range(n_any)]
    forms = [any_model_form(c) for c in acases]
    alines = [f'soup.enc {sx(t)}' for t in forms if t is not None]
    aans = iter(ctx.driver.ask(alines) if ctx.driver.available else [None] * len(alines))
    any_seeds = []
    for i, (c, t) in enumerate(zip(acases, forms)):
        ctx.case('any ' + any_repr(c)[:200], nontrivial=True, sample_every=131)
        check_any(ctx, c, next(aans) if t is not None else None, nxt_i=i, cut=(None if i % 3 else rng.randrange(1 << 16)))
        if i % 5 == 0:
            r = any_build(c)
            if r[0] == 'ok' and isinstance(r[2], (bytes, bytearray)) and len(r[2]) < 120:
                any_seeds.append(bytes(r[2]))
    # ---- one packet object encoded, changed, encoded again (every kind x field x origin of the object x kind of change)
    pool = {}
    for t in wf:
        pool.setdefault(kind_of(t), []).append(t)
    rcases = [reencode_from_replay(c) for c in corpus if c.get('kind') == 'reencode']
    rcases += boundary_reencode()
    rcases += [gen_reencode_case(rng, t, pool) for t in wf]
    rcases = [c for c in rcases if reencode_valid(c)]
    stages = [reencode_expected(c) for c in rcases]
    flat = [f'soup.layout {sx(t)}' for st in stages for t in st]
    lans = ctx.driver.ask(flat) if ctx.driver.available else [None] * len(flat)
    oans = ctx.driver.ask([model_obj_line(c) for c in rcases]) if ctx.driver.available else [None] * len(rcases)
    pos = 0
    for ci, (c, st) in enumerate(zip(rcases, stages)):
        r = sx(c['packet'])
        ctx.case('reencode ' + c['source'] + ' ' + (r if len(r) < 120 else r[:120] + '…') + ' ' + repr(c['ops'])[:160], nontrivial=True,
                 sample_every=389)
        check_reencode(ctx, c, lans[pos:pos + len(st)], oans[ci])
        pos += len(st)
    # ---- decoder on arbitrary bytes
    dec_inputs = [bytes.fromhex(c['bytes']) for c in corpus if c.get('kind') in ('decode-bytes', 'decode-via')]
    dec_inputs += via_boundary_inputs()
    dec_inputs += seeds[:400]
    dec_inputs += any_seeds[:400]
    dec_inputs += [gen_decode_input(rng, seeds) for _ in range(n_dec)]
    dans = ctx.driver.ask([f'soup.dec {sx(b)}' for b in dec_inputs]) if ctx.driver.available else [None] * len(dec_inputs)
    vans = ctx.driver.ask([via_model_line(b) for b in dec_inputs]) if ctx.driver.available else [None] * len(dec_inputs)
    usample = dec_inputs[::4]
    uans = ctx.driver.ask([unpack_model_line(b) for b in usample]) if ctx.driver.available else []
    for b, um in zip(usample, uans):
        check_unpack(ctx, b, um)      # the per-class `unpack` (second stage of the dispatch) against `Soup.unpackAs`
    for b, m, vm in zip(dec_inputs, dans, vans):
        check_via(ctx, b, vm)         # the same bytes through each of the eleven entry points
        ctx.case('dec ' + b[:48].hex(), nontrivial=True, sample_every=211)
        d = impl_decode(b, as_bytearray=True)
        rep = {'kind': 'decode-bytes', 'bytes': b.hex()}
        if d[0] == 'ok':
            got = 'ok ' + sx(pkt_to_sx(d[2]))
            ctx.count('dec:ok:' + kind_of(pkt_to_sx(d[2])))
            if len(b) < 3 or chr(b[2]) != d[2].Indicator or TYPE_CHAR[kind_of(pkt_to_sx(d[2]))] != chr(b[2]):
                ctx.violation(f'decode returned a {type(d[2]).__name__} for type character {b[2:3]!r}', rep)
        else:
            got = 'err ' + d[1]
            ctx.count('dec:err:' + d[1])
        if m is not None and m != got:
            ctx.disagree(f'soup.dec: model {m[:70]} vs implementation {got[:70]}', rep)


def normalise(t):
    """parsed s-expression (all strings) -> typed generator form"""
    if isinstance(t, str):
        return t
    k = t[0]
    ints = lambda l: [int(x) for x in l]
    if k == 'loginReq':
        return [k, ints(t[1]), ints(t[2]), ints(t[3]), ints(t[4])]
    if k == 'loginAcc':
        return [k, ints(t[1]), int(t[2])]
    if k == 'loginRej':
        return [k, int(t[1])]
    if k in ('seqData', 'unseqData'):
        return [k, bytes.fromhex(t[1][1:])]
    if k == 'debug':
        return [k, ints(t[1])]
    raise ValueError(k)


def replay(ctx, path):
    r = json.load(open(path))
    rep = r.get('replay') or (r.get('no_longer_checks') or [{}])[-1].get('case') or {}
    ctx.cov['rule'] = 'replay of ' + path
    if rep.get('kind') in ('wf-packet', 'malformed-packet'):
        t = normalise(parse_sx(rep['packet'])[0])
        m = ctx.driver.ask([f'soup.enc {sx(t)}'])[0]
        ctx.case(rep['packet'][:200])
        ctx.case('replay-marker')
        check_wf_packet(ctx, t, m, None)
        print('implementation:', impl_encode(t)[:3], '\nmodel:', m[:200])
    elif rep.get('kind') == 'reencode':
        c = reencode_from_replay(rep)
        st = reencode_expected(c)
        lays = ctx.driver.ask([f'soup.layout {sx(t)}' for t in st]) if ctx.driver.available else None
        ctx.case(rep['packet'][:200])
        ctx.case('replay-marker')
        check_reencode(ctx, c, lays, ctx.driver.ask([model_obj_line(c)])[0] if ctx.driver.available else None)
        print('re-encoding case:', rep['source'], rep['packet'][:120], rep['ops'])
        print('first failing stage on the implementation:', reencode_failure(c, lays))
    elif rep.get('kind') == 'any-packet':
        c = rep['case']
        t = any_model_form(c)
        m = ctx.driver.ask([f'soup.enc {sx(t)}'])[0] if (t is not None and ctx.driver.available) else None
        ctx.case(any_repr(c)[:200])
        ctx.case('replay-marker')
        check_any(ctx, c, m, rep.get('next', 0), rep.get('cut'))
        r = any_build(c)
        print('packet:', any_repr(c)[:300])
        print('implementation:', (r[0], r[1], bytes(r[2])[:60].hex()) if r[0] == 'ok' else r, '\nmodel:', (m or '-')[:200])
        print('framing clauses on the implementation:', any_failure(c, rep.get('next', 0), rep.get('cut')) or 'hold')
    elif rep.get('kind') == 'unpack':
        b = bytes.fromhex(rep['bytes'])
        ctx.case('unpack ' + rep['cls'] + ' ' + rep['bytes'][:200])
        ctx.case('replay-marker')
        um = ctx.driver.ask([unpack_model_line(b)])[0]
        check_unpack(ctx, b, um)
        for c, w in zip(ENTRY_CLASSES[1:], um.split(' | ')):
            print(f'{c}.unpack({b[:40]!r}): implementation {outcome_text(impl_unpack(c, b))[:100]}   model {w}')
    elif rep.get('kind') == 'decode-via':
        b = bytes.fromhex(rep['bytes'])
        ctx.case(rep['cls'] + ' ' + rep['bytes'][:200])
        ctx.case('replay-marker')
        vm = ctx.driver.ask([via_model_line(b)])[0] if ctx.driver.available else None
        check_via(ctx, b, vm)
        for c, w in zip(ENTRY_CLASSES, (vm.split(' | ') if vm else [None] * len(ENTRY_CLASSES))):
            print(f'{c}.from_bytes({b[:40]!r}): implementation {outcome_text(impl_decode_via(c, b))[:100]}   model {w}')
        print('kind clause on the implementation:', via_failure(rep['cls'], b) or 'holds')
    elif rep.get('kind') == 'decode-bytes':
        b = bytes.fromhex(rep['bytes'])
        m = ctx.driver.ask([f'soup.dec {sx(b)}'])[0]
        d = impl_decode(b, True)
        ctx.case(rep['bytes'][:200])
        ctx.case('replay-marker')
        got = ('ok ' + sx(pkt_to_sx(d[2]))) if d[0] == 'ok' else 'err ' + d[1]
        print('implementation:', got[:200], '\nmodel:', m[:200])
        if got != m:
            ctx.disagree('soup.dec differs', rep)
