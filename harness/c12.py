"""C12 — SoupBinTCP packets: layout, round trip, kind.  Correspondence with Model/Soup.lean + Spec/SoupLayout.lean, and the
property oracle evaluated on the implementation alone."""
import json
import string

from common import sx, cps, parse_sx, err_name

WIDTHS = {'user': 6, 'password': 10, 'session': 10, 'sequence': 20}
PY_WS = ' \t\n\r\x0b\x0c\x1c\x1d\x1e\x1f'


def soup():
    from nasdaq_protocols import soup as s
    return s


# ------------------------------------------------------------------ packet <-> canonical s-expression
def pkt_to_sx(p):
    s = soup()
    if isinstance(p, s.LoginRequest):
        return ['loginReq', cps(p.user), cps(p.password), cps(p.session), cps(p.sequence)]
    if isinstance(p, s.LoginAccepted):
        return ['loginAcc', cps(p.session_id), int(p.sequence)]
    if isinstance(p, s.LoginRejected):
        return ['loginRej', ord(p.reason.value)]
    if isinstance(p, s.SequencedData):
        return ['seqData', bytes(p.data)]
    if isinstance(p, s.UnSequencedData):
        return ['unseqData', bytes(p.data)]
    if isinstance(p, s.Debug):
        return ['debug', cps(p.msg)]
    for cls, name in ((s.ClientHeartbeat, 'clientHb'), (s.ServerHeartbeat, 'serverHb'),
                      (s.EndOfSession, 'endOfSession'), (s.LogoutRequest, 'logoutReq')):
        if type(p) is cls:
            return name
    raise TypeError(type(p))


def sx_to_pkt(t):
    s = soup()
    if isinstance(t, str):
        return {'clientHb': s.ClientHeartbeat, 'serverHb': s.ServerHeartbeat,
                'endOfSession': s.EndOfSession, 'logoutReq': s.LogoutRequest}[t]()
    k = t[0]
    txt = lambda l: ''.join(chr(int(c)) for c in l)
    if k == 'loginReq':
        return s.LoginRequest(txt(t[1]), txt(t[2]), txt(t[3]), txt(t[4]))
    if k == 'loginAcc':
        return s.LoginAccepted(txt(t[1]), int(t[2]))
    if k == 'loginRej':
        return s.LoginRejected(chr(int(t[1])))
    hexb = lambda a: bytes.fromhex(a[1:]) if isinstance(a, str) else bytes(a)
    if k == 'seqData':
        return s.SequencedData(hexb(t[1]))
    if k == 'unseqData':
        return s.UnSequencedData(hexb(t[1]))
    if k == 'debug':
        return s.Debug(txt(t[1]))
    raise ValueError(k)


TYPE_CHAR = {'loginReq': 'L', 'loginAcc': 'A', 'loginRej': 'J', 'seqData': 'S', 'unseqData': 'U', 'debug': '+',
             'clientHb': 'R', 'serverHb': 'H', 'endOfSession': 'Z', 'logoutReq': 'O'}


def kind_of(t):
    return t if isinstance(t, str) else t[0]


def reference_layout(t):
    """independent reference encoder written from the protocol description (not from the library)"""
    k = kind_of(t)
    pad = lambda cp, n: bytes(cp) + b' ' * (n - len(cp))
    if k == 'loginReq':
        payload = pad(t[1], 6) + pad(t[2], 10) + pad(t[3], 10) + pad(t[4], 20)
    elif k == 'loginAcc':
        payload = pad(t[1], 10) + pad(cps(str(t[2])), 20)
    elif k == 'loginRej':
        payload = bytes([t[1]])
    elif k in ('seqData', 'unseqData'):
        payload = bytes(t[1])
    elif k == 'debug':
        payload = bytes(t[1])
    else:
        payload = b''
    n = len(payload) + 1
    return bytes([n >> 8, n & 0xff]) + TYPE_CHAR[k].encode() + payload


# ------------------------------------------------------------------ generators
def gen_text(rng, width, allow_empty=True):
    n = rng.randint(0 if allow_empty else 1, width)
    alphabet = string.ascii_letters + string.digits + '_-.@#$%^&*()[]{}<>?/\\|~`\'"+=,;:! '
    s = ''.join(rng.choice(alphabet) for _ in range(n))
    return s.strip(PY_WS) if s.strip() == s.strip(PY_WS) else s.strip()


def gen_seq_int(rng):
    c = rng.random()
    if c < 0.2:
        return rng.choice([0, 1, 9, 10, 99, 100, 10**19, 10**20 - 1, 2**63, 2**64 - 1])
    if c < 0.3:
        return -rng.randint(1, 10**18)       # '-' + 18 digits still fits in 20 characters
    return rng.randint(0, 10 ** rng.randint(1, 20) - 1)


def gen_payload(rng, tier):
    c = rng.random()
    if c < 0.25:
        return bytes([rng.randrange(256)])
    if c < 0.4:      # looks like a packet header / contains type characters
        inner = rng.choice(b'LAJSU+RHZO')
        n = rng.randint(0, 40)
        return bytes([n >> 8, n & 0xff, inner]) + bytes(rng.randrange(256) for _ in range(rng.randint(0, 6)))
    if c < 0.5:
        return bytes(rng.choice([0, 0x20, 0xff, 0x0a]) for _ in range(rng.randint(0, 8)))
    if c < 0.6:
        return rng.randbytes(rng.choice([0, 1, 2, 254, 255, 256, 257]))
    if c < 0.63 or (tier == 'thorough' and c < 0.7):
        return rng.randbytes(rng.choice([32765, 32766, 32766, 16384, 511, 512]))
    return rng.randbytes(rng.randint(0, 64))


def gen_wf_packet(rng, tier):
    k = rng.choice(['loginReq', 'loginAcc', 'loginRej', 'seqData', 'seqData', 'unseqData', 'unseqData', 'debug',
                    'clientHb', 'serverHb', 'endOfSession', 'logoutReq'])
    if k == 'loginReq':
        return [k, cps(gen_text(rng, 6)), cps(gen_text(rng, 10)), cps(gen_text(rng, 10)), cps(str(gen_seq_int(rng)))]
    if k == 'loginAcc':
        return [k, cps(gen_text(rng, 10)), gen_seq_int(rng)]
    if k == 'loginRej':
        return [k, rng.choice([65, 83])]
    if k in ('seqData', 'unseqData'):
        return [k, gen_payload(rng, tier)]
    if k == 'debug':
        n = rng.choice([0, 1, 2, 30, 255, 256, 32766]) if rng.random() < 0.3 else rng.randint(0, 50)
        return [k, [rng.randrange(128) for _ in range(n)]]
    return k


def boundary_packets():
    out = []
    for b in range(256):
        out.append(['seqData', bytes([b])])
        out.append(['unseqData', bytes([b])])
    for n in (0, 1, 2, 253, 254, 255, 256, 257, 32765, 32766):
        out.append(['seqData', bytes((i * 7 + n) % 256 for i in range(n))])
        out.append(['unseqData', bytes((i * 13 + n) % 256 for i in range(n))])
        out.append(['debug', [(i * 5 + n) % 128 for i in range(n)]])
    for ws in (' ', '\t', '\n', ' x ', 'a b', ' a', 'a ', '\x1f', '\x00'):
        out.append(['debug', cps(ws)])
    for u in ('', 'a', 'abcdef', 'a b', 'x' * 6):
        out.append(['loginReq', cps(u), cps('pw'), cps('sess'), cps('1')])
        out.append(['loginAcc', cps(u + u[:4]), 1])
    for q in (0, 1, 10**19, 10**20 - 1, -1, -(10**18)):
        out.append(['loginReq', cps('u'), cps(''), cps(''), cps(str(q))])
        out.append(['loginAcc', cps(''), q])
    out += [['loginRej', 65], ['loginRej', 83], 'clientHb', 'serverHb', 'endOfSession', 'logoutReq']
    return out


def gen_malformed_packet(rng):
    """outside the property's quantifier: compared for model/implementation agreement only"""
    c = rng.randrange(6)
    if c == 0:   # over-long fields are truncated by struct
        return ['loginReq', cps('toolonguser'), cps('p' * rng.randint(11, 14)), cps('s' * 12), cps('1' * rng.randint(21, 25))]
    if c == 1:   # non-ascii text
        return ['debug', cps('héllo')]
    if c == 2:
        return ['loginReq', cps('café'), cps(''), cps(''), cps('1')]
    if c == 3:   # one past the largest packet
        return [rng.choice(['seqData', 'unseqData']), bytes(32767 + rng.randint(0, 3))]
    if c == 4:   # fields with edge whitespace: encode fine, do not round trip (outside wf)
        return ['loginAcc', cps(' s '), rng.randint(0, 99)]
    return ['loginReq', cps('u'), cps('p'), cps('s'), cps(rng.choice(['007', '+5', ' 5', '1_0', 'abc', '']))]


def gen_decode_input(rng, seeds):
    """byte strings for the decoder: truncations / extensions / corruptions of valid packets and random bytes"""
    c = rng.randrange(7)
    base = bytearray(rng.choice(seeds))
    if c == 0 and len(base) > 0:
        return bytes(base[:rng.randrange(len(base) + 1)])
    if c == 1:
        return bytes(base + rng.randbytes(rng.randint(1, 4)))
    if c == 2 and len(base) > 3:
        i = rng.randrange(len(base))
        base[i] = rng.randrange(256)
        return bytes(base)
    if c == 3 and len(base) >= 3:
        base[2] = rng.randrange(256)
        return bytes(base)
    if c == 4 and len(base) >= 3:
        base[0], base[1] = rng.randrange(256), rng.randrange(256)
        return bytes(base)
    if c == 5:
        return rng.randbytes(rng.randint(0, 60))
    t = rng.choice(b'LAJ')
    n = {76: 49, 65: 33, 74: 4}[t]
    body = bytearray(rng.choice([b' ', b'\x00', b'1', b'-', b'+', b'_', b'a', b'\t', b'A', b'S', b'\x80']) [0]
                     for _ in range(n - 3))
    if rng.random() < 0.7:
        for i in range(max(0, n - 3 - rng.randint(1, 6)), n - 3):
            body[i] = rng.choice(b'0123456789 ')
    return bytes([0, n - 2, t]) + bytes(body)


# ------------------------------------------------------------------ re-encoding one packet OBJECT after its fields changed
# The packet classes are mutable attrs classes (slots=False, not frozen) and `to_bytes()` accepts bytearray payloads: "every packet
# the library can build" includes a packet that was encoded, then had a field assigned (or its bytearray payload changed in
# place), and is encoded again.  A case = (start packet, how the object came to be, list of operations); the object is encoded
# after it was made and after every operation, and every one of these encodings must be the layout of the object's CURRENT fields.
FIELDS = {'loginReq': ['user', 'password', 'session', 'sequence'], 'loginAcc': ['session_id', 'sequence'],
          'loginRej': ['reason'], 'seqData': ['data'], 'unseqData': ['data'], 'debug': ['msg']}
SOURCES = ('new', 'new-ba', 'decoded', 'decoded-ba')


def fields_of(t):
    return FIELDS.get(kind_of(t), [])


def with_field(t, f, v):
    t = list(t)
    t[1 + FIELDS[t[0]].index(f)] = v
    return t


def field_sx(t, f):
    return t[1 + FIELDS[t[0]].index(f)]


def py_field_value(k, f, v, as_bytearray=False):
    """python value to assign to attribute f of a packet of kind k, from the s-expression form v"""
    if f == 'data':
        return bytearray(v) if as_bytearray else bytes(v)
    if f == 'reason':
        return chr(v)
    if f == 'sequence' and k == 'loginAcc':
        return int(v)
    return ''.join(chr(c) for c in v)


def apply_op(t, op):
    """the packet (s-expression form) the object must be equal to after op — computed without the library"""
    o = op[0]
    if o == 'again':
        return t
    if o in ('set', 'setba'):
        return with_field(t, op[1], op[2])
    if o == 'setall':
        return op[1]
    d = bytes(t[1])
    if o == 'ba-slice':
        return [t[0], bytes(op[1])]
    if o == 'ba-extend':
        return [t[0], d + bytes(op[1])]
    if o == 'ba-poke':
        return [t[0], d[:op[1]] + bytes([op[2]]) + d[op[1] + 1:]]
    if o == 'ba-clear':
        return [t[0], b'']
    raise ValueError(o)


def make_object(t, source):
    s = soup()
    k = kind_of(t)
    if source == 'new':
        return sx_to_pkt(t)
    if source == 'new-ba':
        return {'seqData': s.SequencedData, 'unseqData': s.UnSequencedData}[k](bytearray(t[1]))
    ref = reference_layout(t)
    return s.SoupMessage.from_bytes(bytearray(ref) if source == 'decoded-ba' else ref)[1]


def do_op(p, k, op):
    o = op[0]
    if o == 'again':
        return
    if o in ('set', 'setba'):
        setattr(p, op[1], py_field_value(k, op[1], op[2], o == 'setba'))
    elif o == 'setall':
        for f in FIELDS[k]:
            setattr(p, f, py_field_value(k, f, field_sx(op[1], f)))
    elif o == 'ba-slice':
        p.data[:] = bytes(op[1])
    elif o == 'ba-extend':
        p.data.extend(bytes(op[1]))
    elif o == 'ba-poke':
        p.data[op[1]] = op[2]
    elif o == 'ba-clear':
        p.data.clear()
    else:
        raise ValueError(o)


def reencode_expected(case):
    """the packets the object has to equal at each stage (stage 0: as made)"""
    out = [case['packet']]
    for op in case['ops']:
        out.append(apply_op(out[-1], op))
    return out


def reencode_stage_failure(p, t, lay):
    """property statement for the object p whose fields are those of t, on the implementation alone (lay: Lean layout or None)"""
    k = kind_of(t)
    try:
        n, b = p.to_bytes()
        b = bytes(b)
    except Exception as e:  # noqa
        return f'encoding raised {err_name(e)}'
    ref = reference_layout(t)
    if n != len(b):
        return f'reported length {n} != {len(b)} bytes produced'
    if b != ref:
        return (f'bytes are not the layout of the packet\'s current fields: got {b[:24].hex()}… ({len(b)} bytes), '
                f'expected {ref[:24].hex()}… ({len(ref)} bytes)')
    if lay is not None and lay != sx(b):
        return 'bytes differ from Spec.SoupLayout.layout of the current fields'
    try:
        if pkt_to_sx(p) != t:
            return f'the object does not hold the assigned fields: {sx(pkt_to_sx(p))[:80]}'
    except Exception as e:  # noqa
        return f'the object cannot be read back: {err_name(e)}'
    for as_ba in (False, True):
        d = impl_decode(b, as_ba)
        if d[0] != 'ok':
            return f'decoding its own encoding raised {d[1]}'
        if type(d[2]) is not type(p) or not (d[2] == p) or pkt_to_sx(d[2]) != t:
            return f'decoded packet differs from the object: {str(d[2])[:60]!r} vs {str(p)[:60]!r}'
        if d[1] != len(b):
            return f'decode reported {d[1]} bytes consumed of {len(b)}'
    return None


def reencode_failure(case, lays=None):
    """first failing stage of a re-encoding case: (stage, text) or None"""
    exp = reencode_expected(case)
    k = kind_of(case['packet'])
    try:
        p = make_object(case['packet'], case['source'])
    except Exception as e:  # noqa
        return (0, f'building the packet raised {err_name(e)}')
    for i, t in enumerate(exp):
        if i > 0:
            try:
                do_op(p, k, case['ops'][i - 1])
            except Exception as e:  # noqa
                return (i, f'operation {case["ops"][i - 1][0]} raised {err_name(e)}')
        f = reencode_stage_failure(p, t, lays[i] if lays else None)
        if f:
            return (i, f)
    return None


def reencode_valid(case):
    """in-place operations need a bytearray payload at that moment; every stage must be a packet of the same kind"""
    k = kind_of(case['packet'])
    t = case['packet']
    if case['source'] == 'new-ba' and k not in ('seqData', 'unseqData'):
        return False
    ba = k in ('seqData', 'unseqData') and (case['source'] == 'new-ba' or (case['source'] == 'decoded-ba' and len(t[1]) > 0))
    for op in case['ops']:
        o = op[0]
        if o.startswith('ba-'):
            if not ba or (o == 'ba-poke' and op[1] >= len(t[1])):
                return False
        elif o == 'setba':
            if op[1] != 'data':
                return False
            ba = True
        elif o in ('set', 'setall') and k in ('seqData', 'unseqData'):
            ba = False
        if o == 'setall' and kind_of(op[1]) != k:
            return False
        t = apply_op(t, op)
        if k in ('seqData', 'unseqData') and len(t[1]) > 32766:
            return False
    return True


def shrink_reencode(case):
    """greedy: fewer operations, shorter payloads / texts, plain source — keeping the failure"""
    def smaller_vals(v):
        if isinstance(v, (bytes, bytearray)):
            v = bytes(v)
            return [v[:n] for n in sorted({0, 1, 2, len(v) // 2}) if n < len(v)]
        if isinstance(v, list) and v and isinstance(v[0], int):
            return [v[:n] for n in sorted({0, 1, len(v) // 2}) if n < len(v)]
        return []

    def candidates(c):
        for i in range(len(c['ops'])):
            yield dict(c, ops=c['ops'][:i] + c['ops'][i + 1:])
        if c['source'] != 'new':
            yield dict(c, source='new')
        t = c['packet']
        for f in fields_of(t):
            if f == 'sequence':
                continue
            for v in smaller_vals(field_sx(t, f)):
                yield dict(c, packet=with_field(t, f, v))
        for i, op in enumerate(c['ops']):
            if op[0] in ('set', 'setba') and op[1] != 'sequence':
                for v in smaller_vals(op[2]):
                    yield dict(c, ops=c['ops'][:i] + [[op[0], op[1], v]] + c['ops'][i + 1:])
            if op[0] in ('ba-slice', 'ba-extend'):
                for v in smaller_vals(op[1]):
                    yield dict(c, ops=c['ops'][:i] + [[op[0], v]] + c['ops'][i + 1:])
    f = reencode_failure(case)
    if f is None:
        return case
    case = dict(case, ops=case['ops'][:f[0]])
    for _ in range(200):
        for c in candidates(case):
            if reencode_valid(c) and reencode_failure(c) is not None:
                case = c
                break
        else:
            break
    return case


def reencode_replay_dict(case):
    ops = []
    for op in case['ops']:
        ops.append([op[0]] + [({'hex': bytes(x).hex()} if isinstance(x, (bytes, bytearray)) else
                               ({'packet': sx(x)} if op[0] == 'setall' else x)) for x in op[1:]])
    return {'kind': 'reencode', 'packet': sx(case['packet']), 'packet_kind': kind_of(case['packet']),
            'source': case['source'], 'ops': ops}


def reencode_from_replay(rep):
    ops = []
    for op in rep['ops']:
        args = []
        for x in op[1:]:
            if isinstance(x, dict) and 'hex' in x:
                args.append(bytes.fromhex(x['hex']))
            elif isinstance(x, dict) and 'packet' in x:
                args.append(normalise(parse_sx(x['packet'])[0]))
            else:
                args.append(x)
        ops.append([op[0]] + args)
    return {'packet': normalise(parse_sx(rep['packet'])[0]), 'source': rep['source'], 'ops': ops}


def gen_reencode_case(rng, t, pool):
    """one re-encoding case starting from the well-formed packet t; new field values come from other well-formed packets"""
    k = kind_of(t)
    fs = fields_of(t)
    data = k in ('seqData', 'unseqData')
    source = rng.choice(SOURCES if data else ('new', 'decoded', 'decoded-ba'))
    if not fs:
        return {'packet': t, 'source': source, 'ops': [['again'] for _ in range(rng.randint(1, 2))]}
    case = {'packet': t, 'source': source, 'ops': []}
    cur = t
    ba = data and (source == 'new-ba' or (source == 'decoded-ba' and len(t[1]) > 0))
    for _ in range(rng.randint(1, 3)):
        other = rng.choice(pool[k])
        c = rng.random()
        if ba and rng.random() < 0.5:
            o = rng.choice(['ba-slice', 'ba-extend', 'ba-poke', 'ba-clear'])
            if o == 'ba-poke' and len(cur[1]) == 0:
                o = 'ba-extend'
            if o == 'ba-slice':
                op = [o, bytes(other[1])]
            elif o == 'ba-extend':
                op = [o, bytes(other[1])[:max(0, min(len(other[1]), 32766 - len(cur[1])))] or bytes([rng.randrange(256)])]
                if len(cur[1]) + len(op[1]) > 32766:
                    op = ['ba-clear']
            elif o == 'ba-poke':
                i = rng.randrange(len(cur[1]))
                op = [o, i, (cur[1][i] + rng.randint(1, 255)) % 256]
            else:
                op = [o]
        elif c < 0.1:
            op = ['again']
        elif c < 0.25 and len(fs) > 1:
            op = ['setall', other]
        else:
            f = rng.choice(fs)
            op = ['setba' if (data and rng.random() < 0.4) else 'set', f, field_sx(other, f)]
        case['ops'].append(op)
        cur = apply_op(cur, op)
        if op[0] == 'setba':
            ba = True
        elif op[0] in ('set', 'setall') and data:
            ba = False
    return case


def boundary_reencode():
    """every kind x every field x every way the object came to be x every kind of change, with values that change the length"""
    out = []
    a = {'loginReq': ['loginReq', cps('u1'), cps('pw'), cps('sess'), cps('1')], 'loginAcc': ['loginAcc', cps('sess'), 1],
         'loginRej': ['loginRej', 65], 'debug': ['debug', cps('hello')]}
    b = {'loginReq': ['loginReq', cps('user66'), cps('p' * 10), cps(''), cps('-12345')], 'loginAcc': ['loginAcc', cps('abcdefghij'), 10**20 - 1],
         'loginRej': ['loginRej', 83], 'debug': ['debug', cps('')]}
    for k in a:
        for src in ('new', 'decoded', 'decoded-ba'):
            for x, y in ((a[k], b[k]), (b[k], a[k])):
                for f in FIELDS[k]:
                    out.append({'packet': x, 'source': src, 'ops': [['set', f, field_sx(y, f)], ['again'], ['set', f, field_sx(x, f)]]})
                out.append({'packet': x, 'source': src, 'ops': [['setall', y], ['setall', x]]})
    big = bytes((i * 11) % 256 for i in range(32766))
    for k in ('seqData', 'unseqData'):
        for src in SOURCES:
            for d0, d1 in ((b'', b'\x00'), (b'\x00', b''), (b'ab', b'cd'), (b'abc', big), (big, b'x'), (b'\x00\x03S', b'\x00\x02+x'),
                           (b'A', b'A' * 255), (b'A' * 254, b'B' * 256)):
                out.append({'packet': [k, d0], 'source': src, 'ops': [['set', 'data', d1], ['again']]})
                out.append({'packet': [k, d0], 'source': src, 'ops': [['setba', 'data', d1], ['ba-extend', b'\xff'], ['ba-poke', 0, 7], ['ba-clear']]
                            if len(d1) < 32766 else [['setba', 'data', d1], ['ba-poke', 0, 7], ['ba-clear']]})
                if src in ('new-ba', 'decoded-ba') and d0:
                    out.append({'packet': [k, d0], 'source': src, 'ops': [['ba-slice', d1]]})
                    out.append({'packet': [k, d0], 'source': src, 'ops': [['ba-poke', len(d0) - 1, (d0[-1] + 1) % 256]]})
                    out.append({'packet': [k, d0], 'source': src, 'ops': [['ba-clear'], ['ba-extend', d1 or b'z']]})
                    if len(d0) + len(d1) <= 32766:
                        out.append({'packet': [k, d0], 'source': src, 'ops': [['ba-extend', d1 or b'z']]})
    for k in ('clientHb', 'serverHb', 'endOfSession', 'logoutReq'):
        for src in ('new', 'decoded', 'decoded-ba'):
            out.append({'packet': k, 'source': src, 'ops': [['again'], ['again']]})
    return out


def model_val(k, f, v):
    if f == 'data':
        return ['b', bytes(v)]
    if f == 'reason':
        return ['r', v]
    if f == 'sequence' and k == 'loginAcc':
        return ['i', v]
    return ['t', list(v)]


def model_obj_line(case):
    """the same history for Model/SoupObj.lean: every change becomes the assignment(s) of the resulting field value(s)"""
    k = kind_of(case['packet'])
    ops, cur = ['enc'], case['packet']
    for op in case['ops']:
        nxt = apply_op(cur, op)
        if op[0] in ('set', 'setba'):
            ops.append(['set', op[1], model_val(k, op[1], op[2])])
        elif op[0] == 'setall':
            ops += [['set', f, model_val(k, f, field_sx(nxt, f))] for f in FIELDS[k]]
        elif op[0] != 'again':
            ops.append(['set', 'data', ['b', bytes(nxt[1])]])
        ops.append('enc')
        cur = nxt
    return f'soup.obj {sx(case["packet"])} {sx(ops)}'


def impl_obj_trace(case):
    """what every to_bytes() of the history returned on the implementation, in the driver's format"""
    k = kind_of(case['packet'])
    out = []
    try:
        p = make_object(case['packet'], case['source'])
    except Exception as e:  # noqa
        return '(make:' + err_name(e) + ')'
    for i in range(len(case['ops']) + 1):
        if i > 0:
            try:
                do_op(p, k, case['ops'][i - 1])
            except Exception as e:  # noqa
                out.append('op:' + err_name(e))
                break
        try:
            out.append(sx(bytes(p.to_bytes()[1])))
        except Exception as e:  # noqa
            out.append('err:' + err_name(e))
    return '(' + ' '.join(out) + ')'


def check_reencode(ctx, case, lays, model_trace=None):
    k = kind_of(case['packet'])
    if model_trace is not None:
        got = impl_obj_trace(case)
        if got != model_trace:
            i = next((j for j, (a, b) in enumerate(zip(got, model_trace)) if a != b), min(len(got), len(model_trace)))
            ctx.disagree(f'soup.obj {k} ({case["source"]}): the to_bytes() results of the history differ at character {i}: model '
                         f'…{model_trace[max(0, i - 20):i + 40]} vs implementation …{got[max(0, i - 20):i + 40]}', reencode_replay_dict(case))
    ctx.count('reencode:' + k + ':' + case['source'])
    for op in case['ops']:
        ctx.count('reencode-op:' + op[0] + (':' + op[1] if op[0] in ('set', 'setba') else ''))
    f = reencode_failure(case, lays)
    if f is None:
        return
    small = shrink_reencode(case) if reencode_failure(case) is not None else case
    g = reencode_failure(small) or f
    ops = ' → '.join(o[0] + (' ' + o[1] if o[0] in ('set', 'setba') else '') for o in small['ops'][:g[0]]) or 'as made'
    ctx.violation(f'{k} object ({small["source"]}) encoded, then [{ops}], encoded again: {g[1]}', reencode_replay_dict(small))



# ------------------------------------------------------------------ one case
def impl_encode(t):
    try:
        p = sx_to_pkt(t)
        n, b = p.to_bytes()
        return ('ok', n, bytes(b), p)
    except Exception as e:  # noqa
        return ('err', err_name(e))


def impl_decode(b, as_bytearray=False):
    s = soup()
    try:
        n, m = s.SoupMessage.from_bytes(bytearray(b) if as_bytearray else b)
        return ('ok', n, m)
    except Exception as e:  # noqa
        return ('err', err_name(e))


def check_wf_packet(ctx, t, model_enc, model_dec_of):
    """oracle (property statement on the implementation) + correspondence for one well-formed packet"""
    k = kind_of(t)
    rep = {'kind': 'wf-packet', 'packet': sx(t) if len(sx(t)) < 400 else sx(t)[:400] + '...', 'packet_kind': k}
    full = {'kind': 'wf-packet', 'packet': sx(t), 'packet_kind': k}
    r = impl_encode(t)
    if r[0] != 'ok':
        ctx.violation(f'encoding a well-formed {k} packet raised {r[1]}', full)
        return None
    _, n, b, p = r
    ref = reference_layout(t)
    if n != len(b):
        ctx.violation(f'{k}: reported length {n} != {len(b)} bytes produced', full)
    if b != ref:
        ctx.violation(f'{k}: bytes differ from the protocol layout: got {b[:40].hex()}… expected {ref[:40].hex()}…', full)
    elif int.from_bytes(b[:2], 'big') != len(b) - 2 or chr(b[2]) != TYPE_CHAR[k]:
        ctx.violation(f'{k}: length prefix / type character wrong', full)
    for as_ba in (False, True):
        d = impl_decode(b, as_ba)
        if d[0] != 'ok':
            ctx.violation(f'{k}: decoding its own encoding raised {d[1]}', full)
            break
        _, dn, m = d
        if type(m) is not type(p) or not (m == p) or pkt_to_sx(m) != pkt_to_sx(p):
            ctx.violation(f'{k}: decoded packet differs from the original: {str(m)[:80]!r} vs {str(p)[:80]!r}', full)
            break
        if dn != len(b):
            ctx.violation(f'{k}: decode reported {dn} bytes consumed of {len(b)}', full)
            break
    # correspondence with the Lean model
    if model_enc is not None:
        exp = 'ok ' + sx(b)
        if model_enc != exp:
            ctx.disagree(f'soup.enc {k}: model {model_enc[:60]} vs implementation {exp[:60]}', full)
    return b


def run(ctx):
    rng = ctx.rng
    quick = ctx.tier == 'quick'
    n_rand = 1500 if quick else 20000
    n_mal = 300 if quick else 3000
    n_dec = 2500 if quick else 40000
    ctx.cov['rule'] = ('well-formed packets: every kind x field values within widths x payloads (all 256 single bytes, header-like, '
                       'lengths 0/1/2/255/256/32765/32766, random); distinct = distinct packet s-expression; '
                       'plus one packet OBJECT encoded, changed (every field assigned, bytearray payload changed in place; object built, '
                       'built on a bytearray, or decoded) and encoded again: every encoding is the layout of the current fields and decodes '
                       'to an equal packet; plus malformed packets and decoder inputs (agreement model/implementation on result or error '
                       'class only)')
    # ---- corpus first
    import os
    from common import VERIF
    corpus = []
    cdir = os.path.join(VERIF, 'corpus', 'C12')
    if os.path.isdir(cdir):
        for f in sorted(os.listdir(cdir)):
            corpus.append(json.load(open(os.path.join(cdir, f))))
    wf = [c['packet_sx'] for c in corpus if c.get('kind') == 'wf-packet']
    wf = [normalise(parse_sx(x)[0]) for x in wf]
    wf += boundary_packets()
    wf += [gen_wf_packet(rng, ctx.tier) for _ in range(n_rand)]
    mal = [gen_malformed_packet(rng) for _ in range(n_mal)]
    # ---- model answers in one batch
    lines = [f'soup.enc {sx(t)}' for t in wf + mal] + [f'soup.layout {sx(t)}' for t in wf]
    ans = ctx.driver.ask(lines) if ctx.driver.available else [None] * len(lines)
    enc_ans, lay_ans = ans[:len(wf) + len(mal)], ans[len(wf) + len(mal):]
    seeds = []
    for i, t in enumerate(wf):
        ctx.case(sx(t) if len(sx(t)) < 200 else sx(t)[:200] + '…', nontrivial=True, sample_every=97)
        ctx.count('wf:' + kind_of(t))
        b = check_wf_packet(ctx, t, enc_ans[i], None)
        if b is not None:
            if len(b) < 200:
                seeds.append(b)
            if lay_ans[i] is not None and lay_ans[i] != sx(b):
                # the Lean layout spec is the reference of C12_layout: a difference is a concrete deviation
                ctx.violation(f'{kind_of(t)}: implementation bytes differ from Spec.SoupLayout.layout', {'kind': 'wf-packet', 'packet': sx(t), 'packet_kind': kind_of(t)})
    for j, t in enumerate(mal):
        ctx.case(sx(t)[:200], nontrivial=True, sample_every=0)
        r = impl_encode(t)
        got = ('ok ' + sx(r[2])) if r[0] == 'ok' else 'err ' + r[1]
        ctx.count('malformed-enc:' + got.split()[0] + (':' + got.split()[1] if got.startswith('err') else ''))
        m = enc_ans[len(wf) + j]
        if m is not None and m != got:
            ctx.disagree(f'soup.enc on malformed {kind_of(t)}: model {m[:60]} vs implementation {got[:60]}',
                         {'kind': 'malformed-packet', 'packet': sx(t)})
        if r[0] == 'ok' and r[1] != len(r[2]):
            ctx.violation(f'{kind_of(t)}: reported length {r[1]} != {len(r[2])} bytes produced', {'kind': 'malformed-packet', 'packet': sx(t)})
    # ---- one packet object encoded, changed, encoded again (every kind x field x origin of the object x kind of change)
    pool = {}
    for t in wf:
        pool.setdefault(kind_of(t), []).append(t)
    rcases = [reencode_from_replay(c) for c in corpus if c.get('kind') == 'reencode']
    rcases += boundary_reencode()
    rcases += [gen_reencode_case(rng, t, pool) for t in wf]
    rcases = [c for c in rcases if reencode_valid(c)]
    stages = [reencode_expected(c) for c in rcases]
    flat = [f'soup.layout {sx(t)}' for st in stages for t in st]
    lans = ctx.driver.ask(flat) if ctx.driver.available else [None] * len(flat)
    oans = ctx.driver.ask([model_obj_line(c) for c in rcases]) if ctx.driver.available else [None] * len(rcases)
    pos = 0
    for ci, (c, st) in enumerate(zip(rcases, stages)):
        r = sx(c['packet'])
        ctx.case('reencode ' + c['source'] + ' ' + (r if len(r) < 120 else r[:120] + '…') + ' ' + repr(c['ops'])[:160], nontrivial=True,
                 sample_every=389)
        check_reencode(ctx, c, lans[pos:pos + len(st)], oans[ci])
        pos += len(st)
    # ---- decoder on arbitrary bytes
    dec_inputs = [bytes.fromhex(c['bytes']) for c in corpus if c.get('kind') == 'decode-bytes']
    dec_inputs += seeds[:400]
    dec_inputs += [gen_decode_input(rng, seeds) for _ in range(n_dec)]
    dans = ctx.driver.ask([f'soup.dec {sx(b)}' for b in dec_inputs]) if ctx.driver.available else [None] * len(dec_inputs)
    for b, m in zip(dec_inputs, dans):
        ctx.case('dec ' + b[:48].hex(), nontrivial=True, sample_every=211)
        d = impl_decode(b, as_bytearray=True)
        rep = {'kind': 'decode-bytes', 'bytes': b.hex()}
        if d[0] == 'ok':
            got = 'ok ' + sx(pkt_to_sx(d[2]))
            ctx.count('dec:ok:' + kind_of(pkt_to_sx(d[2])))
            if len(b) < 3 or chr(b[2]) != d[2].Indicator or TYPE_CHAR[kind_of(pkt_to_sx(d[2]))] != chr(b[2]):
                ctx.violation(f'decode returned a {type(d[2]).__name__} for type character {b[2:3]!r}', rep)
        else:
            got = 'err ' + d[1]
            ctx.count('dec:err:' + d[1])
        if m is not None and m != got:
            ctx.disagree(f'soup.dec: model {m[:70]} vs implementation {got[:70]}', rep)


def normalise(t):
    """parsed s-expression (all strings) -> typed generator form"""
    if isinstance(t, str):
        return t
    k = t[0]
    ints = lambda l: [int(x) for x in l]
    if k == 'loginReq':
        return [k, ints(t[1]), ints(t[2]), ints(t[3]), ints(t[4])]
    if k == 'loginAcc':
        return [k, ints(t[1]), int(t[2])]
    if k == 'loginRej':
        return [k, int(t[1])]
    if k in ('seqData', 'unseqData'):
        return [k, bytes.fromhex(t[1][1:])]
    if k == 'debug':
        return [k, ints(t[1])]
    raise ValueError(k)


def replay(ctx, path):
    r = json.load(open(path))
    rep = r.get('replay') or (r.get('no_longer_checks') or [{}])[-1].get('case') or {}
    ctx.cov['rule'] = 'replay of ' + path
    if rep.get('kind') in ('wf-packet', 'malformed-packet'):
        t = normalise(parse_sx(rep['packet'])[0])
        m = ctx.driver.ask([f'soup.enc {sx(t)}'])[0]
        ctx.case(rep['packet'][:200])
        ctx.case('replay-marker')
        check_wf_packet(ctx, t, m, None)
        print('implementation:', impl_encode(t)[:3], '\nmodel:', m[:200])
    elif rep.get('kind') == 'reencode':
        c = reencode_from_replay(rep)
        st = reencode_expected(c)
        lays = ctx.driver.ask([f'soup.layout {sx(t)}' for t in st]) if ctx.driver.available else None
        ctx.case(rep['packet'][:200])
        ctx.case('replay-marker')
        check_reencode(ctx, c, lays, ctx.driver.ask([model_obj_line(c)])[0] if ctx.driver.available else None)
        print('re-encoding case:', rep['source'], rep['packet'][:120], rep['ops'])
        print('first failing stage on the implementation:', reencode_failure(c, lays))
    elif rep.get('kind') == 'decode-bytes':
        b = bytes.fromhex(rep['bytes'])
        m = ctx.driver.ask([f'soup.dec {sx(b)}'])[0]
        d = impl_decode(b, True)
        ctx.case(rep['bytes'][:200])
        ctx.case('replay-marker')
        got = ('ok ' + sx(pkt_to_sx(d[2]))) if d[0] == 'ok' else 'err ' + d[1]
        print('implementation:', got[:200], '\nmodel:', m[:200])
        if got != m:
            ctx.disagree('soup.dec differs', rep)
