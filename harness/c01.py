"""C01 — binary message codec round trip.

Correspondence: random schema trees are built as real classes (Record / RecordWithPresentBit / Array / the scalar types) and as
`Ty` terms of Model/BinCodec.lean; the *observables the property names* are compared — reported length, number of bytes,
consumed length with trailing bytes, the decoded value field by field, re-encoding identical — each side on its own bytes
(exact bytes against the documented layout are C02's business).  Oracle: the statement evaluated on the implementation alone.
"""
import json
import os

from common import err_name, VERIF, matches_known
import bincodec_common as bc
from bincodec_common import kind, sx

DRIVER = 'drv_C01'

KNOWN_LOCAL = []     # the four defects found here (fixed-overlong, char-empty, fixed-strip, record-empty) are repaired in /repo;
#                      their inputs are regressions in corpus/C01 and must pass


def report(ctx, what, replay):
    """an oracle failure: known finding (narrow signature) or violation"""
    for k in KNOWN_LOCAL:
        if matches_known(k, replay):
            if k['id'] not in [x[0] for x in ctx.known_hits]:
                ctx.known_hits.append((k['id'], k['what']))
            ctx.count('known:' + k['id'])
            return True
    ctx.violation(what, replay)
    return False


# ------------------------------------------------------------------ one round-trip case
def impl_roundtrip_line(B, ty, pobj, tail):
    """the implementation's own round trip, printed like the driver's `bin.rt` answer"""
    T = B.build(ty)
    r = bc.impl_encode(T, pobj)
    if r[0] == 'err':
        return f'enc-err {r[1]}', None
    _, n, b = r
    d = bc.impl_decode(T, b + tail)
    if d[0] == 'err':
        return f'ok {n} {len(b)} dec-err {d[1]}', (n, b, None, None)
    _, m, dobj = d
    try:
        dv = sx(bc.to_val(ty, dobj))
    except Exception as e:  # noqa
        return f'ok {n} {len(b)} {m} unprintable:{err_name(e)}', (n, b, m, dobj)
    r2 = bc.impl_encode(T, dobj)
    if r2[0] == 'err':
        return f'ok {n} {len(b)} {m} {dv} reenc-err {r2[1]}', (n, b, m, dobj)
    return f'ok {n} {len(b)} {m} {dv} {r2[1]} {"true" if r2[2] == b else "false"}', (n, b, m, dobj)


def oracle_roundtrip(B, ty, pobj, tail):
    """property C01 on the implementation alone; returns None or a description of the failure"""
    T = B.build(ty)
    r = bc.impl_encode(T, pobj)
    if r[0] == 'err':
        return f'encoding an in-domain value raised {r[1]}'
    _, n, b = r
    if n != len(b):
        return f'reported length {n} != {len(b)} bytes produced'
    for data in (b + tail, bytearray(b + tail)):
        d = bc.impl_decode(T, data)
        if d[0] == 'err':
            return f'decoding the encoded bytes raised {d[1]}'
        _, m, dobj = d
        if m != len(b):
            return f'decode consumed {m} of {len(b)} encoded bytes ({len(tail)} unrelated bytes follow)'
        if kind(ty) in ('record', 'optrec') and dobj is not None and type(dobj) is not T:
            return f'decoded object is a {type(dobj).__name__}, not a {T.__name__}'
        diff = bc.reads_differ(ty, pobj, dobj)
        if diff:
            return f'field reads back different: {diff}'
        r2 = bc.impl_encode(T, dobj)
        if r2[0] == 'err':
            return f're-encoding the decoded value raised {r2[1]}'
        if r2[2] != b or r2[1] != n:
            return 're-encoding the decoded value gives different bytes'
    return None


def fails_oracle(B, tail):
    def f(ty, v):
        if not bc.in_domain(ty, bc.complete(ty, v)) or not bc.constructible(ty):
            return False
        pobj = B.from_val(ty, v, typed=True)
        return oracle_roundtrip(B, ty, pobj, tail) is not None
    return f


# ------------------------------------------------------------------ case lists
def int_boundary_cases(tier):
    out = []
    for size, signed, be in bc.INT_COMBOS:
        ty = ['int', size, signed, be]
        lo, hi = bc.int_range(size, signed)
        if tier == 'thorough' and size <= 2:
            vals = range(lo, hi + 1)
        else:
            vals = {lo, lo + 1, lo + 2, hi, hi - 1, hi - 2, 0, 1, 2, 127, 128, 129, 255, 256, 257, 32767, 32768, 65535, 65536,
                    hi // 2, hi // 2 + 1, (hi + 1) // 256, int('ff' * size, 16), int('7f' + 'ff' * (size - 1), 16),
                    int('80' + '00' * (size - 1), 16), int('01' * size, 16), int('0102030405060708'[:2 * size], 16),
                    -1, -2, -127, -128, -129, -255, -256, -257, -32768, -32769}
            if size == 1:
                vals = range(0, 256)
            vals = sorted(v for v in vals if lo <= v <= hi)
        for v in vals:
            out.append((ty, ['i', v]))
    return out


def text_boundary_cases(tier):
    out = []
    for iso in (False, True):
        limit = 256 if iso else 128
        for c in range(limit):
            out.append((['char', iso], ['s', c]))
            out.append((['str', iso], ['s', c]))
            if chr(c) != bc.PAD:
                out.append((['fixed', iso, 1, False], ['s', c]))
                out.append((['fixed', iso, 3, c % 2 == 0], ['s', c]))
                out.append((['fixed', iso, 3, False], ['s', c, 32, c]))
        for n in (0, 1, 2, 255, 256, 257) + ((32766, 32767) if tier == 'thorough' else (32767,)):
            out.append((['str', iso], ['s'] + [(65 + (i * 7) % 26) if i % 5 else (limit - 1) for i in range(n)]))
        for w in (0, 1, 2, 5, 16, 64):
            for n in sorted({0, 1, w // 2, max(w - 1, 0), w}):
                if n <= w:
                    out.append((['fixed', iso, w, False], ['s'] + [66 + i % 20 for i in range(n)]))
                    out.append((['fixed', iso, w, True], ['s'] + [66 + i % 20 for i in range(n)]))
    out.append(('bool', ['b', True]))
    out.append(('bool', ['b', False]))
    return out


def structural_boundary_cases():
    """hand-picked compositions named in the property: optional records present/absent, arrays of optional records, nesting"""
    i2 = ['int', 2, True, False]
    leafrec = ['record', [1, i2, 'none'], [2, ['fixed', False, 3, False], 'none'], [3, ['str', True], ['s', 233]]]
    opt = ['optrec', [1, ['int', 1, False, False], ['i', 7]], [2, ['char', False], 'none']]
    optn = ['optrec', [1, i2, 'none'], [2, leafrec, 'none']]          # has a nested record: present as soon as it is created
    out = []
    for cnt in [(2, True, False), (2, False, False), (2, False, True), (1, False, False), (4, True, True)]:
        arr_opt = ['arr', opt] + list(cnt)
        arr_rec = ['arr', leafrec] + list(cnt)
        arr_int = ['arr', ['int', 8, False, True]] + list(cnt)
        top = ['record', [1, opt, 'none'], [2, arr_opt, 'none'], [3, optn, 'none'], [4, arr_rec, 'none'], [5, arr_int, 'none'],
               [6, leafrec, 'none'], [7, 'bool', 'none']]
        out.append((top, ['r']))
        out.append((top, ['r', [1, ['r', [2, ['s', 65]]]], [2, ['l', ['r'], ['r', [1, ['i', 255]]]]], [5, ['l', ['i', 2 ** 64 - 1], ['i', 0]]],
                          [4, ['l', ['r', [1, ['i', -32768]]]]], [7, ['b', True]]]))
        out.append((top, ['r', [1, ['r']], [3, ['r']], [6, ['r', [2, ['s', 97, 32, 98]]]]]))
    out.append((opt, ['r']))
    out.append((opt, ['r', [1, ['i', 0]]]))
    out.append((optn, ['r']))
    out.append((['arr', opt, 1, False, False], ['l'] + [['r', [1, ['i', i]]] for i in range(255)]))
    out.append((['arr', ['bool'][0], 2, True, False], ['l'] + [['b', i % 3 == 0] for i in range(300)]))
    return out


def gen_tail(rng):
    c = rng.random()
    if c < 0.2:
        return b''
    if c < 0.5:
        return bytes([rng.choice([0, 1, 0x20, 0xff, 0x80, 0x41])]) * rng.randint(1, 4)
    return rng.randbytes(rng.randint(1, 12))


# assignable through the typed attributes (any `str`), but outside the round-trip domain
def gen_offdomain_leaf(rng):
    c = rng.randrange(6)
    iso = rng.random() < 0.5
    if c == 0:
        w = rng.choice([0, 1, 2, 3, 5, 8])
        return ['fixed', iso, w, rng.random() < 0.3], ['s'] + bc.gen_text(rng, iso, w + rng.randint(1, 4), edge_clean=True)
    if c == 1:
        return ['char', iso], ['s']
    if c == 2:
        return ['char', iso], ['s'] + bc.gen_text(rng, iso, rng.randint(2, 4))
    if c == 3:
        w = rng.choice([2, 3, 5, 8])
        limit = 256 if iso else 128
        ws = [ord(ch) for ch in bc.PY_STRIP if ord(ch) < limit and ch != ' ']
        body = bc.gen_text(rng, iso, rng.randint(0, w - 2), edge_clean=True)
        cs = ([rng.choice(ws)] + body) if rng.random() < 0.5 else (body + [rng.choice(ws)])
        return ['fixed', iso, w, rng.random() < 0.3], ['s'] + cs
    if c == 4:      # pad characters at the ends: cannot survive a space padded field, by design (not reported)
        w = rng.choice([3, 5, 8])
        return ['fixed', iso, w, rng.random() < 0.3], ['s'] + [32] + bc.gen_text(rng, iso, rng.randint(0, w - 2)) + [32]
    return ['str', iso], ['s'] + bc.gen_text(rng, iso, rng.choice([0, 1, 40]))


def gen_malformed(rng):
    """(ty, val) outside what the typed attributes accept / what encodes: model and implementation must agree on the outcome"""
    c = rng.randrange(12)
    size, signed, be = rng.choice(bc.INT_COMBOS)
    lo, hi = bc.int_range(size, signed)
    ity = ['int', size, signed, be]
    iso = rng.random() < 0.5
    if c == 0:
        return ity, ['i', rng.choice([lo - 1, hi + 1, lo - 2 ** 70, hi + 2 ** 70, -1 if not signed else hi + 1])]
    if c == 1:
        return rng.choice([['char', False], ['str', False], ['fixed', False, 4, False]]), ['s', 65, rng.choice([128, 233, 255, 256, 0x20ac])]
    if c == 2:
        return rng.choice([['char', True], ['str', True], ['fixed', True, 4, True]]), ['s', rng.choice([256, 0x20ac, 0x1f600]), 66]
    if c == 3:     # wrong python type in a leaf slot
        ty = rng.choice([ity, 'bool', ['char', iso], ['str', iso], ['fixed', iso, 3, False],
                         ['arr', ['int', 1, False, False], 2, True, False], ['record', [1, ity, 'none']], ['optrec', [1, ity, 'none']]])
        v = rng.choice(['none', ['i', 5], ['i', 0], ['b', True], ['s', 97, 98], ['s'], ['l'], ['l', ['i', 1]]])
        if kind(ty) == 'arr' and v != 'none' and v[0] == 's' and rng.random() < 0.5:
            ty = ['arr', ['char', iso], 2, False, rng.random() < 0.5]      # a str is iterable: an array of its characters
        return ty, v
    if c == 4:     # record slot holding None / record with a bad field
        inner = ['record', [1, ity, 'none'], [2, ['str', iso], 'none']]
        return ['record', [1, 'bool', 'none'], [2, inner, 'none']], ['r', [2, rng.choice(['none', ['r', [1, ['i', hi + 1]]], ['r', [2, ['i', 3]]]])]]
    if c == 5 and rng.random() < 0.3:     # schemas the library cannot build: Array of an instance-typed element
        return ['record', [1, ['arr', rng.choice([['fixed', iso, 3, False], ['arr', ity, 2, True, False]]), 2, False, False], 'none']], ['r']
    if c == 5:     # no fields
        return rng.choice([['record'], ['record', [1, ['record'], 'none']], ['arr', ['record'], 2, True, False]]), \
            rng.choice([['r'], ['l', ['r']], 'none', ['r', [1, ['r']]]])
    if c == 6:     # optional record with junk / empty
        return ['optrec'], rng.choice([['r'], 'none', ['r', [9, ['b', True]]]])
    if c == 7:     # array longer than the count type allows
        return ['arr', ['int', 1, False, False], 1, False, False], ['l'] + [['i', i % 256] for i in range(rng.choice([255, 256, 300]))]
    if c == 8:
        return ['arr', ['int', 1, False, False], 1, False, False], ['l'] + [['i', -1 if i == 3 else 1] for i in range(rng.choice([4, 254, 255]))]
    if c == 9:     # non-text where text belongs, inside an array
        return ['arr', ['str', iso], 2, False, False], ['l', ['s', 65], rng.choice([['i', 1], 'none', ['l']])]
    if c == 10:    # array element of the wrong kind
        opt = ['optrec', [1, ity, 'none']]
        return ['arr', opt, 2, False, True], ['l', ['r', [1, ['i', lo]]], rng.choice(['none', ['i', 1], ['r']])]
    # ill-typed field default
    return ['record', [1, ity, rng.choice([['i', hi + 1], ['s', 65], ['i', lo]])], [2, ['char', iso], rng.choice([['s'], ['s', 65, 66], ['i', 1]])]], ['r']


# ------------------------------------------------------------------ messages
build_messages = bc.build_messages          # (shared with C02 and the re-encode histories)


def message_case(B, style, defs, k, v, tail):
    """run one message through the implementation.  Returns (failure description or None, observables or None);
    observables = (n, byte count, consumed, decoded record val, actual record val, bytes)"""
    inds = [i for i, _ in defs]
    ind, body = defs[k]
    try:
        base, classes = build_messages(B, None, style, defs)
    except Exception as e:  # noqa
        return f'defining {style} messages raised {err_name(e)}', None
    try:
        msg = classes[k]()
        rec = B.from_val(body, v, typed=True)
        for name in list(rec.values):
            setattr(msg, name, rec.values[name])           # message-level typed attributes
        actual = bc.to_val(body, msg.record)
        n, b = bc.guarded_call(msg.to_bytes)
        b = bytes(b)
        if n != len(b):
            return f'message: reported length {n} != {len(b)} bytes', None
        first = None
        for data in (b + tail, bytearray(b + tail)):
            m, dmsg = bc.guarded_call(lambda: base.from_bytes(data))
            first = first or (m, dmsg)
            if type(dmsg) is not classes[k]:
                return f'message decoded as {type(dmsg).__name__}, not the class that was encoded', None
            if m != len(b):
                return f'message decode consumed {m} of {len(b)} bytes ({len(tail)} unrelated bytes follow)', None
            diff = bc.reads_differ(body, msg.record, dmsg.record)
            for name_idx, fty, _d in body[1:]:
                x, y = getattr(msg, f'f{name_idx}'), getattr(dmsg, f'f{name_idx}')
                diff = diff or bc.reads_differ(fty, x, y, f'msg.f{name_idx}')
            if diff:
                return f'message field reads back different: {diff}', None
            if bc.guarded_call(dmsg.to_bytes) != (n, b):
                return 're-encoding the decoded message gives different bytes', None
        # the body alone, as for directions the client cannot dispatch by type (OUCH incoming)
        bm, brec = bc.guarded_call(lambda: classes[k].BodyRecord.from_bytes(b[1:] + tail))
        if bm != len(b) - 1 or bc.reads_differ(body, msg.record, brec):
            return 'BodyRecord.from_bytes on the message body does not return the encoded record', None
        unknown = next(i for i in range(256) if i not in inds)
        try:
            bc.guarded_call(lambda: base.from_bytes(bytes([unknown]) + b[1:]))
            got_unknown = 'ok'
        except Exception as e:  # noqa
            got_unknown = 'err ' + err_name(e)
        if got_unknown != 'err key':
            return f'decoding an unregistered message id gave {got_unknown}', None
        m, dmsg = first
        return None, (n, len(b), m, sx(bc.to_val(body, dmsg.record)), actual, b, unknown)
    except Exception as e:  # noqa
        return f'message round trip raised {err_name(e)}: {e!s:.80}', None


def msg_replay_dict(style, defs, k, v, tail):
    reg = [[i, j, body[1:]] for j, (i, body) in enumerate(defs)]
    return {'kind': 'msg', 'style': style, 'reg': sx(reg), 'cls': k, 'val': sx(v), 'tail': tail.hex()}


def shrink_message(B, style, defs, k, v, tail):
    """a single-class registry and a smaller body on which the message oracle still fails"""
    ind, body = defs[k]
    if message_case(B, style, [(ind, body)], 0, v, tail)[0] is None:
        return defs, k, v
    def fails(ty, val):
        if kind(ty) != 'record' or not bc.in_domain(ty, bc.complete(ty, val)) or not bc.constructible(ty):
            return False
        return message_case(B, style, [(ind, ty)], 0, val, tail)[0] is not None
    sty, sv = bc.shrink(body, bc.complete(body, v), fails, budget=120)
    return [(ind, sty)], 0, sv


def run_messages(ctx, B, n_cases):
    rng = ctx.rng
    lines, cases = [], []
    for _ in range(n_cases):
        if len(ctx.violations) >= 20:
            break
        style = rng.choice(['itch', 'ouch', 'sqf'])
        inds = rng.sample(range(256), rng.randint(1, 4))
        defs = [(i, bc.gen_record_ty(rng, 'record', rng.randint(0, 2), 4)) for i in inds]
        k = rng.randrange(len(defs))
        v = bc.gen_val(rng, defs[k][1])
        tail = gen_tail(rng)
        rep = msg_replay_dict(style, defs, k, v, tail)
        ctx.case(bc.short(f'msg {style} {rep["reg"]} {k} {sx(v)}'), nontrivial=True, sample_every=53)
        ctx.count('msg:' + style)
        bad, obs = message_case(B, style, defs, k, v, tail)
        if bad:
            if len(ctx.violations) < 3:
                d2, k2, v2 = shrink_message(B, style, defs, k, v, tail)
                bad = message_case(B, style, d2, k2, v2, tail)[0] or bad
                rep = msg_replay_dict(style, d2, k2, v2, tail)
            ctx.violation(bad, rep)
            continue
        n, blen, m, dval, actual, b, unknown = obs
        body = defs[k][1]
        lines += [f'bin.msg.enc {rep["reg"]} {k} {sx(actual)}', f'bin.rt {sx(body)} {sx(actual)} {sx(tail)}',
                  f'bin.msg.dec {rep["reg"]} {sx(bytes([unknown]) + b[1:])}']
        cases.append((rep, f'ok {n} {blen}', m, dval, k))
    if ctx.driver.available and lines:
        ans = ctx.driver.ask(lines)
        for i, (rep, got_enc, m, dval, k) in enumerate(cases):
            a_enc, a_rt, a_unknown = ans[3 * i: 3 * i + 3]
            me = a_enc.split()
            if me[0] != 'ok' or f'ok {me[1]} {(len(me[2]) - 1) // 2}' != got_enc:
                ctx.disagree(f'bin.msg.enc: model {a_enc[:60]} vs implementation {got_enc}', rep)
            rt = a_rt.split(' ', 4)
            # body consumed + 1 == message consumed; decoded body equal
            if rt[0] != 'ok' or int(rt[3]) + 1 != m or not rt[4].startswith(dval + ' '):
                ctx.disagree(f'message body round trip: model {a_rt[:80]} vs implementation consumed={m} {dval[:60]}', rep)
            if a_unknown != 'err key':
                ctx.disagree(f'bin.msg.dec unknown id: model {a_unknown[:60]}', rep)
    # a message without fields (the spec parser accepts `<message>` without `<fields>`); regression of 8ed2437
    for style in ('itch', 'ouch', 'sqf'):
        bad, _ = message_case(B, style, [(77, ['record'])], 0, ['r'], b'\x01')
        ctx.case(f'msg {style} no fields', nontrivial=True)
        if bad:
            report(ctx, bad, {'kind': 'msg', 'style': style, 'reg': '((77 0 ()))', 'cls': 0, 'val': '(r)', 'tail': '01'})


# ------------------------------------------------------------------ families of message classes declared by inheritance
def family_fails(B):
    return lambda fam, hist: bc.family_history(B, fam, hist)[0] is not None


def check_family(ctx, B, fam, hist, label, lines, expect):
    """oracle for one history over one family (freshly built classes); appends the model questions for the steps that passed"""
    rep = bc.family_replay_dict(fam, hist)
    ctx.case(bc.short(f'family {label} {fam["style"]} {[(d["ind"], d["parent"], d["mode"]) for d in fam["defs"]]} '
                      f'{[(st["k"], st["how"]) for st in hist]} {sx(hist[0]["val"]) if hist else ""}'), nontrivial=True, sample_every=41)
    ctx.count('family:' + label)
    for d in fam['defs']:
        ctx.count('family-class:' + ('root' if d['parent'] is None else d['mode'] + (':record-derived' if d['mode'] == 'extend' and d['rec_inherit'] else '')))
    for st in hist:
        ctx.count('family-step:' + st['how'])
    bad, obs = bc.family_history(B, fam, hist)
    if bad:
        if len(ctx.violations) < 3:
            f2, h2 = bc.shrink_family(B, fam, hist[:bad[0] + 1], family_fails(B))
            b2 = bc.family_history(B, f2, h2)[0]
            if b2:
                fam, hist, bad = f2, h2, b2
        uses = ' → '.join(f'{"decode" if st["how"] == "dec" else "encode"} class {st["k"]}' for st in hist[:bad[0] + 1])
        report(ctx, f'message classes declared by inheritance, used in the order [{uses}]: {bad[1]}', bc.family_replay_dict(fam, hist))
        return
    reg = sx(bc.family_reg(fam))
    for st, (n, b, m, dk, dval, actual) in zip(hist, obs):
        lines.append(f'bin.msg.enc {reg} {st["k"]} {sx(actual)}')
        expect.append((f'ok {n} {len(b)} id={b[0]}', rep, 'enc'))
        lines.append(f'bin.msg.dec {reg} {sx(b + bytes.fromhex(st.get("tail", "")))}')
        expect.append((f'ok {m} {dk} {dval}', rep, 'dec'))


def ask_families(ctx, lines, expect):
    if not (ctx.driver.available and lines):
        return
    for a, (g, rep, what) in zip(ctx.driver.ask(lines), expect):
        if what == 'enc':
            me = a.split()
            a = f'ok {me[1]} {(len(me[2]) - 1) // 2} id={int(me[2][1:3], 16)}' if me[0] == 'ok' and len(me) == 3 and len(me[2]) >= 3 else a
        if a != g:
            ctx.disagree(f'message family, bin.msg.{what}: model `{bc.short(a, 100)}` vs implementation `{bc.short(g, 100)}`', rep)


def run_families(ctx, B, n_fam):
    rng = ctx.rng
    lines, expect = [], []
    cdir = os.path.join(VERIF, 'corpus', 'C01')
    if os.path.isdir(cdir):
        for f in sorted(os.listdir(cdir)):
            c = json.load(open(os.path.join(cdir, f)))
            if c.get('kind') == 'msg-family':
                fam, hist = bc.family_from_replay(c)
                check_family(ctx, B, fam, hist, 'corpus', lines, expect)
    for _ in range(n_fam):
        if len(ctx.violations) >= 20:
            break
        fam = bc.gen_family(rng)
        for label, order in bc.family_orders(rng, fam):
            check_family(ctx, B, fam, [bc.gen_family_step(rng, fam, k) for k in order], label, lines, expect)
    ask_families(ctx, lines, expect)


# ------------------------------------------------------------------ one message object over time: encode, change in place, encode again
def reenc_fails(B, style, tail, which, how):
    """the same kind of failure (`how`: an encoding judged wrong / a change refused / ...) on a smaller case - a history that
    stops making sense after shrinking (a path into a list element that is no longer appended) is not the failure looked for"""
    def f(defs, k, v, ops):
        body = defs[k][1]
        if kind(body) != 'record' or not bc.in_domain(body, bc.complete(body, v)) or not bc.constructible(body):
            return False
        bad = bc.reenc_history(B, style, defs, k, v, tail, which, ops=ops)[0]
        return bad is not None and bad[2] == how
    return f


def check_reenc(ctx, B, style, defs, k, v, tail, which, ops, label, lines, expect, cap=0):
    """oracle for one history on one message object (generated while it runs when `ops` is None); appends the model question"""
    labels = []
    bad, done, actual0, entries = bc.reenc_history(B, style, defs, k, v, tail, which, ops=ops, rng=ctx.rng, cap=cap, labels=labels)
    rep = bc.reenc_replay_dict(style, defs, k, v, tail, which, done)
    ctx.case(bc.short(f'reenc {label} {which} {style} {rep["reg"]} {k} {sx(v)} {rep["ops"]}'), nontrivial=True, sample_every=37)
    ctx.count('reenc:' + label + ':' + which)
    ctx.count('reenc-encodings', sum(1 for o in done if o == ['t']))
    for lb in labels:
        ctx.count('reenc-change:' + lb)
    if bad:
        if len(ctx.violations) < 3:
            try:
                d2, k2, v2, o2 = bc.shrink_reenc(B, style, defs, k, v, tail, which, done[:bad[0] + 1], reenc_fails(B, style, tail, which, bad[2]))
                b2 = bc.reenc_history(B, style, d2, k2, v2, tail, which, ops=o2)[0]
                if b2 and b2[2] == bad[2]:
                    defs, k, v, done, bad = d2, k2, v2, o2, b2
            except Exception:  # noqa
                pass
        report(ctx, bad[1], bc.reenc_replay_dict(style, defs, k, v, tail, which, done))
        return bad[1]
    if actual0 is None or None in entries:
        return None
    lines.append(f'bin.obj {rep["reg"]} {k} {sx(actual0)} {sx(done)} {sx(tail)}')
    expect.append((' ; '.join(entries), rep))
    return None


def ask_reenc(ctx, lines, expect):
    if not (ctx.driver.available and lines):
        return
    for a, (g, rep) in zip(ctx.driver.ask(lines), expect):
        if a != g:
            am, gm = a.split(' ; '), g.split(' ; ')
            i = next((j for j, (x, y) in enumerate(zip(am, gm)) if x != y), min(len(am), len(gm)))
            ctx.disagree(f'message object over time, op {i}: model `{bc.short(am[i] if i < len(am) else "-", 100)}` vs implementation '
                         f'`{bc.short(gm[i] if i < len(gm) else "-", 100)}`', rep)


def run_reenc(ctx, B, n_cases, cap):
    rng = ctx.rng
    lines, expect = [], []
    cdir = os.path.join(VERIF, 'corpus', 'C01')
    if os.path.isdir(cdir):
        for f in sorted(os.listdir(cdir)):
            c = json.load(open(os.path.join(cdir, f)))
            if c.get('kind') == 'msg-reenc':
                style, defs, k, v, tail, which, ops = bc.reenc_from_replay(c)
                check_reenc(ctx, B, style, defs, k, v, tail, which, ops, 'corpus', lines, expect)
    for _ in range(n_cases):
        if len(ctx.violations) >= 20:
            break
        style = rng.choice(['itch', 'ouch', 'sqf'])
        inds = rng.sample(range(256), rng.randint(1, 3))
        defs = [(i, bc.gen_record_ty(rng, 'record', rng.choice([1, 2, 2, 3]), 4)) for i in inds]
        k = rng.randrange(len(defs))
        v = bc.gen_val(rng, defs[k][1])
        tail = gen_tail(rng)
        for which in ('encoded', 'decoded'):
            check_reenc(ctx, B, style, defs, k, v, tail, which, None, 'generated', lines, expect, cap=cap)
    ask_reenc(ctx, lines, expect)


# ------------------------------------------------------------------ main
def check_domain_case(ctx, B, ty, v, tail, model_line, kind_='roundtrip'):
    """oracle + correspondence for one in-domain case; `v` is the abstract value (assigned fields only)"""
    rep = {'kind': kind_, 'ty': sx(ty), 'val': sx(v), 'tail': tail.hex()}
    try:
        pobj = B.from_val(ty, v, typed=True, enums=ctx.rng if kind_ == 'roundtrip' else None)
    except Exception as e:  # noqa
        ctx.violation(f'an in-domain value is refused by the typed attributes: {err_name(e)} {e!s:.80}', rep)
        return None
    bad = oracle_roundtrip(B, ty, pobj, tail)
    if bad:
        sty, sv = bc.shrink(ty, bc.complete(ty, v), fails_oracle(B, tail)) if len(ctx.violations) < 3 else (ty, v)
        spobj = B.from_val(sty, sv, typed=True)
        bad2 = oracle_roundtrip(B, sty, spobj, tail) or bad
        report(ctx, bad2, {'kind': kind_, 'ty': sx(sty), 'val': sx(sv), 'tail': tail.hex()})
    return pobj


def run(ctx):
    bc.reset_lib()
    bc.lib()
    rng = ctx.rng
    quick = ctx.tier == 'quick'
    B = bc.Builder()
    ctx.cov['rule'] = ('random field-type trees (depth<=4, width<=6, all 13 integer types, bool, char/str/fixed in both charsets, records, '
                       'optional records, arrays of scalars/records/optional records with every count type) built as real classes, values '
                       'assigned through the typed attributes (in range; boundary table: min/max/+-1/sign bit/0xFF.. patterns; exhaustive '
                       '1/2-byte domains in the thorough tier), arbitrary trailing bytes; distinct = distinct (schema, value, tail); plus '
                       'assignable-but-off-domain strings, malformed values, truncated inputs and message classes (agreement on the outcome); '
                       'plus FAMILIES of 2-5 message classes in one application declared by inheritance (a class derived from another registered '
                       'class with an extended / own / unchanged body, body records derived from body records, chains and siblings), each '
                       'family used in three orders of first use (parents first, children first, mixed with repeats; first use by encoding or '
                       "by decoding) on freshly built classes: class of the decoded message, consumed length, reads, re-encoding, id byte; "
                       'plus HISTORIES on one message object (the message built from the value, and the message object from_bytes returned): '
                       'to_bytes, then an in-place change at a position the object offers at that moment - every field of every record '
                       'reachable through the references it holds (nested records at any depth, an optional record that becomes present, '
                       'records inside lists), every list it holds (append / item assignment / insert / del / clear / extend / slice '
                       'assignment), fields of the message itself - each (position, kind) once per history, each followed by to_bytes + '
                       'decode + the reads of the decoded message compared with what the message holds at that moment')
    n_rand = 2500 if quick else 60000
    n_off = 300 if quick else 4000
    n_mal = 400 if quick else 5000
    n_msg = 150 if quick else 2500

    # ---- 1. corpus, boundary tables, random in-domain cases: (ty, abstract val, tail)
    cases = []
    expect_lines, expect_vals = [], []
    cdir = os.path.join(VERIF, 'corpus', 'C01')
    if os.path.isdir(cdir):
        for f in sorted(os.listdir(cdir)):
            c = json.load(open(os.path.join(cdir, f)))
            if 'ty' in c and 'val' in c:
                cases.append(('corpus', bc.parse_ty(c['ty']), bc.parse_val(c['val']), bytes.fromhex(c.get('tail', ''))))
                if 'expect_model_enc' in c:      # the corpus entry is the term a Witness / example theorem is about
                    expect_lines.append(f"bin.enc {c['ty']} {c['val']}")
                    expect_vals.append((f, c['expect_model_enc']))
    if ctx.driver.available and expect_lines:
        for a, (f, want) in zip(ctx.driver.ask(expect_lines), expect_vals):
            if a != want:
                ctx.disagree(f'corpus/{f}: the model answers `{a}`, the witness theorem states `{want}`', {'kind': 'corpus', 'file': f})
    for ty, v in int_boundary_cases(ctx.tier):
        cases.append(('boundary', ty, v, b'\xff' if v[1] % 2 else b''))
    for ty, v in text_boundary_cases(ctx.tier):
        cases.append(('boundary', ty, v, b' '))
    for ty, v in structural_boundary_cases():
        cases.append(('boundary', ty, v, b'\x01\x00'))
    for _ in range(n_rand):
        depth = rng.choice([0, 1, 2, 2, 3, 3, 4])
        ty = bc.gen_record_ty(rng, rng.choice(['record', 'record', 'optrec']), depth, rng.randint(1, 6)) if depth else bc.gen_ty(rng, 0, 1)
        cases.append(('random', ty, bc.gen_val(rng, ty), gen_tail(rng)))
    for _ in range(n_off):
        ty, v = gen_offdomain_leaf(rng)
        if rng.random() < 0.4:      # inside a record, followed by another field (misalignment is visible there)
            ty, v = ['record', [1, ty, 'none'], [2, ['int', 2, False, True], 'none']], ['r', [1, v], [2, ['i', 0x4142]]]
        cases.append(('offdomain', ty, v, gen_tail(rng)))
    for _ in range(n_mal):
        ty, v = gen_malformed(rng)
        cases.append(('malformed', ty, v, b''))
    # the limits of the 2-byte signed length / count prefix, once each (long inputs are slow on the model side)
    for n in (32767, 32768):
        cases.append(('malformed', ['arr', 'bool', 2, True, False], ['l'] + [['b', i % 2 == 0] for i in range(n)], b''))
        cases.append(('malformed', ['str', True], ['s'] + [65 + i % 100 for i in range(n)], b''))

    lines, impl_lines, metas = [], [], []
    for src, ty, v, tail in cases:
        if len(ctx.violations) >= 20:
            ctx.notes.append('stopped early: 20 failing inputs recorded')
            break
        dom = bc.in_domain(ty, bc.complete(ty, v)) and bc.constructible(ty)
        typed = src != 'malformed' and (dom or src in ('offdomain', 'corpus'))
        ctx.count(f'{src}:{"in-domain" if dom else "off-domain"}')
        ctx.count('top:' + kind(ty))
        try:
            if dom:
                pobj = check_domain_case(ctx, B, ty, v, tail, None)
                if pobj is None:
                    continue
            else:
                pobj = B.from_val(ty, v, typed=typed)
        except Exception as e:  # noqa
            # a value the typed attributes refuse / a schema that cannot be built: compare construction only
            ctx.count('unbuildable:' + err_name(e))
            ctx.case(bc.short(f'{sx(ty)} {sx(v)}'), nontrivial=False)
            try:
                B.build(ty)
                built = 'ok'
            except Exception as e2:  # noqa
                built = 'err ' + err_name(e2)
            lines.append(f'bin.mk {sx(ty)}')
            impl_lines.append(built)
            metas.append(('mk', ty, v, tail, False))
            continue
        if not dom:
            off_domain_oracle(ctx, B, ty, v, pobj, tail)
        actual = bc.to_val(ty, pobj) if kind(ty) in ('record', 'optrec', 'arr') else v
        crepr = bc.short(f'{sx(ty)} {sx(actual)} {tail.hex()}')
        ctx.case(crepr, nontrivial=True, sample_every=499)
        line, _ = impl_roundtrip_line(B, ty, pobj, tail)
        impl_lines.append(line)
        lines.append(f'bin.rt {sx(ty)} {sx(actual)} {sx(tail)}')
        metas.append((src, ty, actual, tail, dom))
        if not dom or rng.random() < 0.1:
            # the Lean domain predicate `wf` and the harness' own `in_domain` must describe the same set of values
            lines.append(f'bin.wf {sx(ty)} {sx(actual)}')
            impl_lines.append('true' if bc.in_domain(ty, actual) else 'false')
            metas.append(('wf', ty, actual, tail, dom))
    if ctx.driver.available:
        ans = ctx.driver.ask(lines)
        for a, g, (src, ty, actual, tail, dom) in zip(ans, impl_lines, metas):
            if a != g:
                sty, sv = ty, actual
                ctx.disagree(f'{src}: model `{bc.short(a, 120)}` vs implementation `{bc.short(g, 120)}`',
                             {'kind': 'roundtrip' if dom else src, 'ty': sx(sty), 'val': sx(sv), 'tail': tail.hex()})
    else:
        ctx.notes.append('model driver unavailable: oracle only')

    if len(ctx.violations) >= 20:
        return
    # ---- 2. truncated decoder input: each side truncates its own encoding; success / error class is compared
    tlines, tgot, tmeta = [], [], []
    for src, ty, actual, tail, dom in metas[:: (3 if quick else 1)]:
        if not dom or src == 'wf':
            continue
        T = B.build(ty)
        r = bc.impl_encode(T, B.from_val(ty, actual, typed=False))
        if r[0] != 'ok' or len(r[2]) == 0 or len(r[2]) > 400:
            continue
        cut = rng.randrange(len(r[2]))
        d = bc.impl_decode(T, r[2][:cut])
        tgot.append('ok' if d[0] == 'ok' else f'err {d[1]}')
        tlines.append(f'bin.trunc {sx(ty)} {sx(actual)} {cut}')
        tmeta.append({'kind': 'truncated', 'ty': sx(ty), 'val': sx(actual), 'cut': cut})
        ctx.case(f'trunc {cut} {bc.short(sx(ty), 80)}', nontrivial=True, sample_every=997)
        ctx.count('truncated:' + tgot[-1].split()[0])
    if ctx.driver.available and tlines:
        for a, g, rep in zip(ctx.driver.ask(tlines), tgot, tmeta):
            a = 'ok' if a.startswith('ok ') else a         # how much a truncated input "consumes" depends on the layout: C02
            if a != g:
                ctx.disagree(f'truncated input: model `{a}` vs implementation `{g}`', rep)

    # ---- 3. messages
    run_messages(ctx, B, n_msg)
    # ---- 4. message classes derived from message classes, several alive at once, every order of first use
    if len(ctx.violations) < 20:
        run_families(ctx, B, 60 if quick else 1500)
    # ---- 5. one message OBJECT over time: encoded, changed in place at every position it offers, encoded again
    if len(ctx.violations) < 20:
        run_reenc(ctx, B, 200 if quick else 3000, 24 if quick else 40)


def off_domain_oracle(ctx, B, ty, v, pobj, tail):
    """clauses of the statement that hold for *every* assignable value: reported length == bytes produced, a fixed-width
    field occupies exactly its width, a char exactly one byte.  Only values that went through the typed attributes count
    (malformed ones are compared with the model only)."""
    T = B.build(ty)
    r = bc.impl_encode(T, pobj)
    if kind(ty) == 'record' and len(ty) == 3 and kind(ty[2][1]) == 'int' and v != 'none' and len(v) == 3:
        leaf_ty, leaf_v, inner = ty[1][1], v[1][1], True
    else:
        leaf_ty, leaf_v, inner = ty, v, False
    if kind(leaf_ty) not in ('fixed', 'char', 'str') or leaf_v == 'none' or leaf_v[0] != 's':
        return
    rep = {'kind': 'offdomain', 'ty': sx(ty), 'val': sx(v), 'tail': tail.hex()}
    if any(c >= (256 if leaf_ty[1] else 128) for c in leaf_v[1:]):
        return                                  # not encodable in the charset: raising is right
    if r[0] != 'ok':
        return                                  # e.g. a variable string longer than its 2-byte length prefix can say
    _, n, b = r
    width = {'fixed': leaf_ty[2] if kind(leaf_ty) == 'fixed' else None, 'char': 1, 'str': None}[kind(leaf_ty)]
    if n != len(b):
        report(ctx, f'reported length {n} != {len(b)} bytes produced', rep)
    elif width is not None and len(b) != width + (2 if inner else 0):
        report(ctx, f'{kind(leaf_ty)} field of width {width} occupies {len(b) - (2 if inner else 0)} bytes', rep)
    elif inner:
        d = bc.impl_decode(T, b + tail)
        if d[0] != 'ok' or d[1] != len(b) or getattr(d[2], f'f{ty[2][0]}') != getattr(pobj, f'f{ty[2][0]}'):
            report(ctx, 'the field after a fixed-width / char field is decoded misaligned', rep)


def replay(ctx, path):
    bc.reset_lib()
    bc.lib()
    r = json.load(open(path))
    rep = r.get('replay') or (r.get('no_longer_checks') or [{}])[-1].get('case') or r
    ctx.cov['rule'] = 'replay of ' + path
    B = bc.Builder()
    ctx.case('replay ' + bc.short(json.dumps(rep)))
    ctx.case('replay-marker')
    if rep.get('kind') == 'msg' and 'reg' in rep:
        from common import parse_sx
        reg = parse_sx(rep['reg'])[0]
        defs = [(int(i), ['record'] + [[int(n), bc.ty_from_parsed(t), bc.val_from_parsed(d)] for n, t, d in fs]) for i, _c, fs in reg]
        bad, obs = message_case(B, rep['style'], defs, int(rep['cls']), bc.parse_val(rep['val']), bytes.fromhex(rep.get('tail', '')))
        print('oracle:', bad or 'holds', '' if obs is None else obs[:4])
        if bad:
            report(ctx, bad, rep)
        return
    if rep.get('kind') == 'msg-reenc':
        style, defs, k, v, tail, which, ops = bc.reenc_from_replay(rep)
        lines, expect = [], []
        print('message body:', bc.short(sx(defs[k][1]), 400), '\nfirst value: ', bc.short(sx(v), 300), f'\nobject:        the {which} message')
        bad = check_reenc(ctx, B, style, defs, k, v, tail, which, ops, 'replay', lines, expect)
        for o in ops:
            print('  op:', 'to_bytes() + decode + compare reads' if o == ['t'] else 'change in place at ' + sx(o[1]) + ' ' + bc.short(sx(o[2]), 200))
        print('oracle:', bad or 'holds')
        if expect:
            print('implementation:', bc.short(expect[0][0], 600))
        ask_reenc(ctx, lines, expect)
        return
    if rep.get('kind') == 'msg-family':
        fam, hist = bc.family_from_replay(rep)
        lines, expect = [], []
        check_family(ctx, B, fam, hist, 'replay', lines, expect)
        print('family:', [(j, d['ind'], d['parent'], d['mode'], sx(bc.family_body(fam, j))[:100]) for j, d in enumerate(fam['defs'])])
        print('history:', [(st['k'], st['how'], sx(st['val'])[:80]) for st in hist])
        print('oracle:', bc.family_history(B, fam, hist)[0] or 'holds')
        ask_families(ctx, lines, expect)
        return
    if 'ty' not in rep:
        print('nothing to replay in', path)
        return
    ty, v = bc.parse_ty(rep['ty']), bc.parse_val(rep['val'])
    tail = bytes.fromhex(rep.get('tail', ''))
    dom = bc.in_domain(ty, bc.complete(ty, v)) and bc.constructible(ty)
    pobj = B.from_val(ty, v, typed=dom)
    if dom:
        bad = oracle_roundtrip(B, ty, pobj, tail)
        print('oracle:', bad or 'holds')
        if bad:
            report(ctx, bad, rep)
    else:
        off_domain_oracle(ctx, B, ty, v, pobj, tail)
    actual = bc.to_val(ty, pobj) if kind(ty) in ('record', 'optrec', 'arr') else v
    line, _ = impl_roundtrip_line(B, ty, pobj, tail)
    print('implementation:', bc.short(line, 400))
    if ctx.driver.available:
        a = ctx.driver.ask([f'bin.rt {sx(ty)} {sx(actual)} {sx(tail)}'])[0]
        print('model:         ', bc.short(a, 400))
        if a != line:
            ctx.disagree('round trip differs', rep)
