"""C05 / C06 — protocol-level repetitions from the peer on SERVER sessions, and callbacks whose clean-up closes the session, on the
BASE sessions (SoupClientSession, SoupServerSession, Fix44Session).  Scenarios, runner and oracles (the property statements read off
the implementation's behaviour alone).

Two classes of histories the other session families do not generate:

(A) a callback of the application (message callback; on a server session also the `on_login` hook) that is IN FLIGHT — suspended in
    an await — when something else ends the session, and whose reaction to its cancellation is to close the session itself:
        try: await work()                         try: await work()
        except CancelledError:                    finally:
            await session.close(); raise              await session.close()
    × every close trigger issued from another task (awaited close() — one caller or two at once —, initiate_close(), logout() /
    end_session(), peer end-of-stream, a logout frame, a tripped monitor, and pairs of those) × the moment (message queued but the
    callback not yet entered / just entered / in flight for more than a heartbeat interval) × a backlog behind the callback.
    C05: the session ends closed, the transport is closed once, the close callback runs exactly once after the last message
    callback was abandoned, and EVERY close() — the outside callers' and the clean-up's own — returns.

(B) SERVER-side histories with repetitions of the login by the peer: a second / third LoginRequest on an accepted session (same
    credentials, other credentials, other sequence number), in the segment of the first one, after data, while the first one is
    still being handled (`on_login` awaiting), after a LogoutRequest in the same segment, after a rejection; `on_login` hooks that
    accept / reject per attempt; then every close trigger.  C06: once the close has completed nothing of the session is left —
    no task, no write (heartbeat), no callback — observed for SETTLE (> 3) heartbeat intervals of virtual time.

A scenario is a JSON-able dict
    {'role': 'soup-client' | 'soup-server' | 'fix-client', 'has_cb': bool, 'cb': beh, 'remote': <remote interval, in local intervals>,
     'beh': {'<n>': beh}, 'default_beh': beh,            message callback per message number
     'logins': [[outcome, beh], ...],                     server: what `on_login` does for the 1st, 2nd, … request it is asked about
     'script': [item, …]}
    beh:  'ret' | ['await', k] | ['sleep', x] | 'raise' | 'close' | ['cc', x] | ['fin', x]      (x in local heartbeat intervals;
          'cc' / 'fin': the two clean-up forms above around a sleep of x intervals)
    item: ['at', x] | ['wait', x] | ['turns', k] | ['in', tok, …] (ONE segment; tok: 'hb' | 'logout' | ['msg', n] | ['login', v])
          | ['send'] | ['close', u] | ['iclose'] | ['logout'] | ['eof'] | ['silence']
Client roles log in before the script (time 0 = login returned); a server's script starts with the peer's first segment.

The Lean session machine (`Model/Session.lean`) has client sessions only, no event for a login request on a server session, and
its handler programs (`Prog.handler n k`) end at a cancellation (`msgAbandon`, task finished): "on cancel: call close()" is not
expressible.  These scenarios are therefore judged by the property oracles only (said in the evidence `assumptions`).
"""
import asyncio
import json
import os
import random

import common
import sess_common as SC
from vloop import VirtualLoop, FakeTransport

HB = 0.004          # local heartbeat interval, virtual seconds
SETTLE = 3.6        # local intervals observed after the script
LONG = 40.0         # "for ever" for a callback in flight (local intervals)
ROLES = ('soup-client', 'soup-server', 'fix-client')


def _tup(b):
    return tuple(b) if isinstance(b, list) else b


def is_cleanup_beh(b):
    return isinstance(b, (list, tuple)) and b[0] in ('cc', 'fin')


class Run:
    def __init__(self, sc):
        self.sc = sc
        self.log = []           # the one ordered log
        self.rng = random.Random(0)
        self.in_app_send = False
        self.n_login = 0
        role = sc['role']
        self.codec = SC.ServerCodec() if role == 'soup-server' else SC.FixCodec() if role == 'fix-client' else SC.SoupCodec()

    # ---- behaviours of the application's callbacks
    def beh_of(self, n):
        b = (self.sc.get('beh') or {}).get(str(n))
        return b if b is not None else self.sc.get('default_beh', 'ret')

    async def do_beh(self, beh, who):
        log, s = self.log, self.s
        if beh == 'ret':
            return
        if beh == 'raise':
            raise RuntimeError('handler failure (scripted)')
        if beh == 'close':
            await s.close()
            return
        k = beh[0]
        if k == 'await':
            for _ in range(beh[1] + 1):
                await asyncio.sleep(0)
        elif k == 'sleep':
            await asyncio.sleep(beh[1] * HB)
        elif k == 'cc':
            try:
                await asyncio.sleep(beh[1] * HB)
            except asyncio.CancelledError:
                # clean-up of the cancelled callback: make sure the session is closed, then let the cancellation through
                log.append(('cleanup', who))
                await s.close()
                log.append(('cleanupClosed', who))
                raise
        elif k == 'fin':
            try:
                await asyncio.sleep(beh[1] * HB)
            finally:
                log.append(('cleanup', who))
                await s.close()
                log.append(('cleanupClosed', who))
        else:
            raise ValueError(beh)

    async def on_msg(self, m):
        n = self.codec.number(m)
        self.log.append(('msgEnter', n))
        try:
            await self.do_beh(self.beh_of(n), ['msg', n])
        except asyncio.CancelledError:
            self.log.append(('msgAbandon', n))
            raise
        except RuntimeError:
            self.log.append(('msgRaise', n))
            raise
        self.log.append(('msgExit', n))

    async def on_close(self):
        self.log.append(('cbEnter',))
        await self.do_beh(self.sc.get('cb', 'ret'), ['cb'])
        self.log.append(('cbExit',))

    async def on_login(self, msg):
        from nasdaq_protocols import soup
        i = self.n_login
        self.n_login += 1
        plan = self.sc.get('logins') or [['accept', 'ret']]
        outcome, beh = plan[min(i, len(plan) - 1)]
        self.log.append(('loginEnter', i, str(msg.user).strip(), str(msg.sequence).strip()))
        try:
            await self.do_beh(beh, ['login', i])
        except asyncio.CancelledError:
            self.log.append(('loginAbandon', i))
            raise
        self.log.append(('loginExit', i, outcome))
        if outcome == 'accept':
            return soup.LoginAccepted('sess', 1)
        self.log.append(('trigger', 'login-rejected'))
        return soup.LoginRejected('A')

    def build(self):
        from nasdaq_protocols import soup
        sc, run = self.sc, self
        role = sc['role']
        remote = sc.get('remote', 100) * HB
        on_close = self.on_close if sc.get('has_cb', True) else None
        if role == 'soup-client':
            return soup.SoupClientSession(on_msg_coro=self.on_msg, on_close_coro=on_close,
                                          client_heartbeat_interval=HB, server_heartbeat_interval=remote)
        if role == 'fix-client':
            from nasdaq_protocols.fix import session as fix_session
            self.codec.env()
            return fix_session.Fix44Session(on_msg_coro=self.on_msg, on_close_coro=on_close,
                                            client_heartbeat_interval=HB, server_heartbeat_interval=remote)
        if role == 'soup-server':
            from nasdaq_protocols.soup import session as soup_session

            class Server(soup_session.SoupServerSession):
                async def on_login(self, msg):
                    return await run.on_login(msg)

                async def on_unsequenced(self, msg):
                    await run.on_msg(msg)

                async def on_debug(self, msg):
                    await run.on_msg(msg)

                async def _on_msg(self, msg):
                    # observation only: the peer's logout request has reached the session's message handler
                    if isinstance(msg, soup.LogoutRequest):
                        run.log.append(('trigger', 'peer-logout'))
                    await super()._on_msg(msg)
            return Server(client_heartbeat_interval=remote, server_heartbeat_interval=HB)
        raise ValueError(role)

    def frame(self, tok):
        from nasdaq_protocols import soup
        if isinstance(tok, (list, tuple)) and tok[0] == 'login':
            v = tok[1]
            # the peer repeats its request: as it was / with other credentials / asking for another sequence number
            req = [('u', 'p', 's', '1'), ('u2', 'p2', 's', '1'), ('u', 'p', 's', '7'), ('u', 'p', 's2', '1')][v % 4]
            return soup.LoginRequest(*req).to_bytes()[1]
        if isinstance(tok, (list, tuple)):
            return self.codec.frame(('msg', int(tok[1])), self.rng)
        return self.codec.frame(tok, self.rng)

    def app_msg(self):
        from nasdaq_protocols import soup
        role = self.sc['role']
        if role == 'fix-client':
            return self.codec.app_msg()
        return soup.UnSequencedData(b'payload') if role == 'soup-client' else soup.SequencedData(b'payload')

    # ---- the run
    def run(self):
        sc, log = self.sc, self.log
        loop = VirtualLoop()
        harness_tasks = set()

        def factory(lp, coro, **kw):
            t = asyncio.Task(coro, loop=lp, **kw)
            lp.tasks_created.append(t)
            log.append(('task', t))
            return t
        loop.set_task_factory(factory)

        class T(FakeTransport):
            def write(tself, data):
                log.append(('w', SC.classify_write(data), 'app' if self.in_app_send else 'session'))
                FakeTransport.write(tself, data)

            def close(tself):
                log.append(('tclose',))
                FakeTransport.close(tself)

        result = {}

        async def main():
            me = asyncio.current_task()
            harness_tasks.add(id(me))
            s = self.s = self.build()
            tr = self.tr = T()
            tr.protocol = s
            s.connection_made(tr)
            role = sc['role']
            if role != 'soup-server':
                from nasdaq_protocols import soup
                req = self.codec.login_msg() if role == 'fix-client' else soup.LoginRequest('u', 'p', 's', '1')
                lt = asyncio.get_running_loop().create_task(s.login(req), name='harness:login')
                harness_tasks.add(id(lt))
                for _ in range(3):
                    await asyncio.sleep(0)
                tr.feed(self.codec.frame(('msg', 0), self.rng))
                await asyncio.wait_for(lt, 0.01)
            t0 = loop.time()
            log.append(('start',))
            last_in = [t0]
            for item in sc['script']:
                k = item[0]
                try:
                    if k == 'at':
                        d = t0 + item[1] * HB - loop.time()
                        if d > 0:
                            await asyncio.sleep(d)
                    elif k == 'wait':
                        await asyncio.sleep(item[1] * HB)
                    elif k == 'turns':
                        for _ in range(item[1]):
                            await asyncio.sleep(0)
                    elif k == 'send':
                        self.in_app_send = True
                        try:
                            s.send_msg(self.app_msg())
                        finally:
                            self.in_app_send = False
                    elif k == 'in':
                        toks = item[1:]
                        if role != 'soup-server' and 'logout' in toks and not tr.closes:
                            log.append(('trigger', 'peer-logout'))
                        log.append(('in',) + tuple(t if isinstance(t, str) else (t[0], t[1]) for t in toks))
                        tr.feed(b''.join(self.frame(t) for t in toks))
                        last_in[0] = loop.time()
                    elif k == 'close':
                        u = item[1] if len(item) > 1 else 1
                        log.append(('trigger', 'close'))

                        async def closer(u=u):
                            log.append(('callStart', u))
                            try:
                                await s.close()
                                log.append(('ret', u, 'ok'))
                            except BaseException as e:      # noqa
                                log.append(('ret', u, common.err_name(e)))
                                raise
                        ut = asyncio.get_running_loop().create_task(closer(), name=f'harness:close:{u}')
                        harness_tasks.add(id(ut))
                    elif k == 'iclose':
                        log.append(('trigger', 'iclose'))
                        s.initiate_close()
                    elif k == 'logout':
                        log.append(('trigger', 'logout'))
                        self.in_app_send = True       # the logout / end-of-session packet is written by the application's own call
                        try:
                            if role == 'soup-client':
                                s.logout()
                            elif role == 'soup-server':
                                s.end_session()
                            else:
                                s.initiate_close()        # FixSession has no logout call
                        finally:
                            self.in_app_send = False
                    elif k == 'eof':
                        log.append(('trigger', 'eof'))
                        s.connection_lost(None)
                    elif k == 'silence':
                        # the peer stays silent: a trigger once heartbeating has started (the remote monitor exists)
                        if getattr(s, '_remote_hb_monitor', None) is not None:
                            log.append(('trigger', 'silence'))
                            end = max(last_in[0], t0) + 2.25 * sc.get('remote', 100) * HB
                            while not s.is_closed() and loop.time() < end:
                                await asyncio.sleep(HB / 8)
                    else:
                        raise ValueError(k)
                except (ValueError, asyncio.TimeoutError):
                    raise
                except Exception as e:      # noqa — a raising synchronous API call is an observation
                    log.append(('raised', k, common.err_name(e)))
            await asyncio.sleep(SETTLE * HB)
            result['closed'] = bool(s.is_closed())
            result['tcloses'] = len(tr.closes)
            result['alive'] = sorted(t.get_name() for t in loop.tasks_created if not t.done() and id(t) not in harness_tasks)
            result['harness_alive'] = sorted(t.get_name() for t in loop.tasks_created if not t.done() and id(t) in harness_tasks and t is not me)
            bad = []
            for t in loop.tasks_created:
                if t.done() and not t.cancelled() and id(t) not in harness_tasks and t.exception() is not None:
                    bad.append((t.get_name(), common.err_name(t.exception())))
            result['task_exceptions'] = bad
            result['vtime'] = round((loop.time() - t0) / HB, 3)
            result['log'] = [('task', e[1].get_name(), id(e[1])) if e[0] == 'task' else e for e in log]

        try:
            loop.run(main())
        finally:
            result['loop_exceptions'] = [str(c.get('message')) + (':' + common.err_name(c['exception']) if c.get('exception') else '')
                                         for c in loop.loop_exceptions]
            loop.shutdown()
        result['harness_tasks'] = harness_tasks
        result.setdefault('log', [('task', e[1].get_name(), id(e[1])) if e[0] == 'task' else e for e in log])
        return result


def run_scenario(sc):
    return Run(sc).run()


# ------------------------------------------------------------------ oracles (the statements, on the implementation's log alone)
def _beh(sc, n):
    b = (sc.get('beh') or {}).get(str(n))
    return b if b is not None else sc.get('default_beh', 'ret')


def _closer_beh(b):
    """a message callback that itself awaits close() as part of its normal course returns only after the close completed"""
    return b == 'close' or (isinstance(b, (list, tuple)) and b[0] == 'fin')


def _who(w):
    return f'message callback for {w[1]}' if w[0] == 'msg' else f'on_login hook (request #{w[1] + 1})' if w[0] == 'login' else 'close callback'


def has_user_cb(sc):
    return bool(sc.get('has_cb', True)) and sc['role'] != 'soup-server'      # (a server session's close callback is its own close())


def oracle_close(sc, res):
    """C05 on one run: every way of ending the session leaves it reporting closed, its transport closed once, the close callback run
    exactly once after the transport close and after the last message callback finished or was abandoned; every close() returns."""
    out = []
    log = res['log']
    trig = [e for e in log if e[0] == 'trigger']
    for e in log:
        if e[0] == 'raised' and e[1] in ('close', 'iclose', 'logout', 'eof'):
            out.append(f'{e[1]} raised {e[2]}')
        if e[0] == 'ret' and e[2] != 'ok':
            out.append(f'close() call of user {e[1]} ended with {e[2]!r} instead of returning')
    rets = {e[1] for e in log if e[0] == 'ret'}
    for e in log:
        if e[0] == 'callStart' and e[1] not in rets:
            out.append(f'awaited close() had not returned {SETTLE} heartbeat intervals after the script (user {e[1]})')
            break
    done = [e[1] for e in log if e[0] == 'cleanupClosed']
    for e in log:
        if e[0] == 'cleanup' and e[1] not in done:
            out.append(f'close() awaited from the clean-up of the {_who(e[1])} had not returned {SETTLE} heartbeat intervals after the script')
            break
    if not trig and not res.get('closed'):
        return out
    if not res.get('closed'):
        out.append(f'close trigger {trig[0][1]} occurred but the session does not report closed {SETTLE} heartbeat intervals after the script')
        return out
    if res['tcloses'] < 1:
        out.append('session reports closed but the transport was never closed')
    elif res['tcloses'] > 1:
        out.append(f'transport closed {res["tcloses"]} times')
    ent = [i for i, e in enumerate(log) if e[0] == 'cbEnter']
    ext = [i for i, e in enumerate(log) if e[0] == 'cbExit']
    if has_user_cb(sc):
        if len(ent) != 1 or len(ext) != 1:
            out.append(f'close callback entered {len(ent)} times and completed {len(ext)} times (expected exactly once)')
        else:
            tc = [i for i, e in enumerate(log) if e[0] == 'tclose']
            if not tc or tc[0] > ent[0]:
                out.append('close callback entered before the transport was closed')
            late = [e for e in log[ent[0]:] if e[0] == 'msgEnter']
            if late:
                out.append(f'message callback for {late[0][1]} started after the close callback was entered')
            for i, e in enumerate(log[:ent[0]]):
                if e[0] == 'msgEnter' and not _closer_beh(_beh(sc, e[1])):
                    ends = [j for j in range(i + 1, len(log)) if log[j][0] in ('msgExit', 'msgAbandon', 'msgRaise') and log[j][1] == e[1]]
                    if not ends or ends[0] > ent[0]:
                        out.append(f'close callback entered while the message callback for {e[1]} was still running (neither finished nor abandoned)')
                        break
    elif ent or ext:
        out.append('close callback observed although none is configured')
    return out


def oracle_clean(sc, res):
    """C06 on one run: once the close has completed (close callback returned; without one: transport closed) nothing of the session
    is left: no write of its own making, no callback, no task started; at the end every task the library started has finished, none
    with an exception nobody retrieved, nothing reached the loop's exception handler."""
    if not res.get('closed'):
        return []
    out = []
    log = res['log']
    if res['alive']:
        out.append(f"library tasks still running {SETTLE} heartbeat intervals after the script: {res['alive'][:4]}")
    if res['task_exceptions']:
        out.append(f"task ended with an exception nobody retrieved: {res['task_exceptions'][0]}")
    if res['loop_exceptions']:
        out.append(f"exception reached the event loop: {res['loop_exceptions'][0]}")
    cb = has_user_cb(sc)
    marks = [i for i, e in enumerate(log) if e[0] == ('cbExit' if cb else 'tclose')]
    if not marks and cb:
        marks = [i for i, e in enumerate(log) if e[0] == 'cbEnter'] or [i for i, e in enumerate(log) if e[0] == 'tclose']
    if not marks:
        return out
    after = log[marks[0] + 1:]
    for e in after:
        if e[0] == 'w' and e[2] != 'app':
            out.append(f"a {'heartbeat' if e[1] == 'hb' else e[1] + ' message'} was written to the transport after the session had closed")
            break
    for e in after:
        if e[0] == 'task' and e[2] not in res['harness_tasks']:
            out.append(f'a task was started for the session after it had closed: {e[1][:60]}')
            break
    for e in after:
        if e[0] == 'msgEnter':
            out.append(f'message callback for {e[1]} invoked after the session had closed')
            break
        if e[0] == 'loginEnter':
            out.append(f'on_login hook invoked (request #{e[1] + 1}) after the session had closed')
            break
        if e[0] == 'cbEnter':
            out.append('close callback invoked again after the close had completed')
            break
        if e[0] in ('msgExit', 'msgAbandon', 'msgRaise') and not _closer_beh(_beh(sc, e[1])):
            out.append(f'message callback for {e[1]} was still running after the session had closed ({e[0]} after the close completed)')
            break
    return out


ORACLES = {'C05': oracle_close, 'C06': oracle_clean}
JUDGED = {'C05': 'closed, transport closed once, close callback exactly once after the last message callback, every close() — the '
                 "outside callers' and the clean-up's own — returns",
          'C06': 'no task, no write, no callback after the close completed; observed for %.1f heartbeat intervals of virtual time' % SETTLE}


# ------------------------------------------------------------------ generators
TRIGGERS = {
    'close': [['close', 1]],
    'close2': [['close', 1], ['close', 2]],
    'iclose': [['iclose']],
    'logout': [['logout']],
    'eof': [['eof']],
    'peer-logout': [['in', 'logout']],
    'silence': [['silence']],
    'eof+close': [['eof'], ['close', 1]],
    'close+eof': [['close', 1], ['turns', 1], ['eof']],
    'iclose+close': [['iclose'], ['turns', 1], ['close', 1]],
}
REMOTE_SILENCE = 1.5


def cleanup_scenario(role, hook, form, trigger, gap, cb='ret', has_cb=True, backlog=0, work=LONG):
    """family A: a message (hook 'msg') or the first login request of a server (hook 'login') whose callback is busy for `work`
    intervals with clean-up form `form`; `gap` intervals after the bytes arrived the session is ended through `trigger`"""
    beh = [form, work]
    sc = {'role': role, 'has_cb': has_cb, 'cb': cb, 'remote': REMOTE_SILENCE if trigger == 'silence' else 100,
          'beh': {}, 'default_beh': 'ret', 'logins': [['accept', 'ret']], 'shape': ['cleanup', hook, form, trigger, gap, backlog]}
    script = []
    if role == 'soup-server':
        if hook == 'login':
            sc['logins'] = [['accept', beh]]
            script += [['in', ['login', 0]]]
        else:
            script += [['in', ['login', 0]], ['wait', 0.2]]
    if hook == 'msg':
        sc['beh']['3'] = beh
        script += [['in', ['msg', 3]] + [['msg', 11 + i] for i in range(backlog)]]
    script += [['wait', gap]] if gap > 0 else [['turns', 2]]
    script += [list(x) for x in TRIGGERS[trigger]]
    sc['script'] = script
    return sc


def all_cleanup():
    out = []
    for role in ROLES:
        hooks = ('msg', 'login') if role == 'soup-server' else ('msg',)
        for hook in hooks:
            for form in ('cc', 'fin'):
                for trigger in TRIGGERS:
                    if role == 'soup-server' and trigger == 'peer-logout':
                        continue        # the logout request waits in the queue behind the busy callback: not a trigger from another task
                    if hook == 'login' and trigger == 'silence':
                        continue        # heartbeating starts only when the hook returns
                    for gap in (0, 0.1, 0.6, 1.3):
                        for cb, has_cb in (('ret', True), (['await', 1], True), (['sleep', 0.3], True), ('ret', False)):
                            if role == 'soup-server' and (cb != 'ret' or not has_cb):
                                continue
                            for backlog in ((0, 2) if hook == 'msg' else (0,)):
                                out.append(cleanup_scenario(role, hook, form, trigger, gap, cb, has_cb, backlog))
    return out


RELOGIN_SHAPES = ('after', 'same-seg', 'after-data', 'during', 'after-logout', 'third')
PLANS = {'AA': [['accept', 'ret']], 'AR': [['accept', 'ret'], ['reject', 'ret']], 'RA': [['reject', 'ret'], ['accept', 'ret']],
         'AsA': [['accept', ['sleep', 0.5]], ['accept', ['await', 1]]]}
SERVER_TRIGGERS = ('close', 'iclose', 'logout', 'eof', 'peer-logout', 'silence', 'close2', 'eof+close', 'none')


def relogin_scenario(shape, variant, plan, trigger, gap, g1=0.3):
    """family B: a server session whose peer repeats its login request"""
    sc = {'role': 'soup-server', 'has_cb': False, 'cb': 'ret', 'remote': REMOTE_SILENCE if trigger == 'silence' else 100,
          'beh': {}, 'default_beh': 'ret', 'logins': [list(x) for x in PLANS[plan]], 'shape': ['relogin', shape, variant, plan, trigger, gap]}
    first, again = ['login', 0], ['login', variant]
    if shape == 'after':
        script = [['in', first], ['wait', g1], ['in', again]]
    elif shape == 'same-seg':
        script = [['in', first, again]]
    elif shape == 'after-data':
        script = [['in', first, ['msg', 1]], ['wait', g1], ['in', ['msg', 2], again, ['msg', 3]]]
    elif shape == 'during':
        # the first request is still being handled (`on_login` awaiting) when the repetition arrives
        sc['logins'][0] = [sc['logins'][0][0], ['sleep', 0.5]]
        script = [['in', first], ['wait', 0.2], ['in', again]]
    elif shape == 'after-logout':
        script = [['in', first], ['wait', g1], ['in', 'logout', again]]
    elif shape == 'third':
        script = [['in', first], ['wait', g1], ['in', again], ['wait', g1], ['in', ['login', (variant + 1) % 4], 'hb']]
    else:
        raise ValueError(shape)
    script += [['wait', gap]] if gap > 0 else [['turns', 2]]
    if trigger != 'none':
        script += [list(x) for x in TRIGGERS[trigger]]
    sc['script'] = script
    return sc


def all_relogin():
    out = []
    for shape in RELOGIN_SHAPES:
        for variant in (0, 1, 2, 3):
            for plan in PLANS:
                for trigger in SERVER_TRIGGERS:
                    for gap in (0, 0.2, 1.2, 2.4):
                        out.append(relogin_scenario(shape, variant, plan, trigger, gap))
    return out


MSG_BEHS = ['ret', 'ret', ['await', 0], ['await', 2], ['sleep', 0.3], ['sleep', 1.2], 'raise', 'close',
            ['cc', LONG], ['fin', LONG], ['cc', 0.4], ['fin', 0.4], ['cc', 1.6], ['fin', 1.6]]


def random_scenario(rng):
    role = rng.choice(ROLES)
    server = role == 'soup-server'
    trig = rng.choice([t for t in TRIGGERS if not (server and t == 'peer-logout' and rng.random() < 0.5)] + ['none'])
    sc = {'role': role, 'has_cb': rng.random() < 0.85, 'cb': rng.choice(['ret', ['await', 1], ['sleep', 0.3], ['sleep', 1.4], 'close']),
          'remote': REMOTE_SILENCE if trig == 'silence' else 100, 'beh': {}, 'default_beh': rng.choice(['ret', 'ret', ['await', 0], ['sleep', 0.1]]),
          'logins': [['accept', 'ret']], 'shape': ['random', trig]}
    for n in rng.sample(range(1, 9), rng.randint(0, 3)):
        sc['beh'][str(n)] = rng.choice(MSG_BEHS)
    script = []
    nxt = [1]

    def msgs(k):
        out = []
        for _ in range(k):
            out.append(['msg', nxt[0]])
            nxt[0] = nxt[0] % 8 + 1
        return out
    if server:
        plan = []
        for _ in range(rng.randint(1, 3)):
            hook = rng.choice(['ret', 'ret', ['await', 1], ['sleep', 0.4], ['cc', LONG], ['fin', LONG], ['cc', 0.4]])
            plan.append([rng.choice(['accept', 'accept', 'accept', 'reject']), hook])
        sc['logins'] = plan
        seg = ['in', ['login', 0]]
        if rng.random() < 0.3:
            seg.append(['login', rng.randrange(4)])
        if rng.random() < 0.3:
            seg += msgs(rng.randint(1, 2))
        script.append(seg)
    for _ in range(rng.randint(1, 5)):
        c = rng.random()
        script.append(rng.choice([['wait', 0.05], ['wait', 0.2], ['wait', 0.7], ['wait', 1.3], ['turns', 2]]))
        if c < 0.45:
            seg = ['in'] + msgs(rng.randint(1, 3))
            if server and rng.random() < 0.5:
                seg.insert(rng.randint(1, len(seg)), ['login', rng.randrange(4)])
            if rng.random() < 0.15:
                seg.insert(rng.randint(1, len(seg)), 'hb')
            script.append(seg)
        elif c < 0.7 and server:
            script.append(['in', ['login', rng.randrange(4)]])
        elif c < 0.8:
            script.append(['send'])
        elif c < 0.85:
            script.append(['in', 'hb'])
    script.append(rng.choice([['wait', 0.1], ['wait', 0.6], ['wait', 1.3], ['turns', 2], ['wait', 2.3]]))
    if trig != 'none':
        script += [list(x) for x in TRIGGERS[trig]]
        if rng.random() < 0.25:
            script += [rng.choice([['turns', 1], ['wait', 0.05], ['wait', 0.5]])] + [list(x) for x in TRIGGERS[rng.choice(['close', 'iclose', 'eof', 'close2'])]]
        u = 0
        for it in script:       # user ids of awaited close() calls are distinct
            if it[0] == 'close':
                u += 1
                it[1:] = [u]
    sc['script'] = script
    return sc


# ------------------------------------------------------------------ check entry points
def shrink(sc, key, orc):
    cur = dict(sc, script=[list(x) for x in sc['script']])
    if 'shape' in cur:
        cur['shrunk_from'] = cur.pop('shape')
    changed, tries = True, 0
    while changed and tries < 40:
        changed = False
        for i in range(len(cur['script']) - 1, -1, -1):
            cand = dict(cur, script=cur['script'][:i] + cur['script'][i + 1:])
            tries += 1
            try:
                v = orc(cand, run_scenario(cand))
            except Exception:       # noqa
                continue
            if any(x[:40] == key for x in v):
                cur, changed = cand, True
                break
    return cur


def describe(sc):
    return (f"{sc['role']} has_cb={sc.get('has_cb')} cb={sc.get('cb')} remote={sc.get('remote')} beh={json.dumps(sc.get('beh'))} "
            f"default={sc.get('default_beh')} logins={json.dumps(sc.get('logins'))} {json.dumps(sc['script'])}")


def facts(sc, res):
    """what a run exhibited, for the coverage histogram"""
    log = res['log']
    out = []
    closed_at = None
    open_cb = {}
    accepted = 0
    for e in log:
        if e[0] == 'trigger' and closed_at is None:
            closed_at = True
            if any(is_cleanup_beh(b) for b in open_cb.values()):
                out.append('trigger-with-cleanup-callback-in-flight')
            elif open_cb:
                out.append('trigger-with-callback-in-flight')
        if e[0] == 'msgEnter':
            open_cb[('msg', e[1])] = _beh(sc, e[1])
        elif e[0] in ('msgExit', 'msgAbandon', 'msgRaise'):
            open_cb.pop(('msg', e[1]), None)
        elif e[0] == 'loginEnter':
            plan = sc.get('logins') or [['accept', 'ret']]
            open_cb[('login', e[1])] = plan[min(e[1], len(plan) - 1)][1]
        elif e[0] in ('loginExit', 'loginAbandon'):
            open_cb.pop(('login', e[1]), None)
            if e[0] == 'loginExit' and e[2] == 'accept':
                accepted += 1
        elif e[0] == 'cleanup':
            out.append('cleanup-awaits-close')
        elif e[0] == 'in' and accepted and any(isinstance(t, tuple) and t[0] == 'login' for t in e[1:]):
            out.append('login-request-on-accepted-session')
    return out


def run_r7(ctx, prop, n_cleanup=400, n_relogin=600, n_random=600):
    orc = ORACLES[prop]
    rng = random.Random(ctx.rng.random())
    quick = ctx.tier == 'quick'
    cases = [('corpus', c) for c in load_corpus(prop)]
    for fam, every, n in (('cleanup', all_cleanup(), n_cleanup), ('relogin', all_relogin(), n_relogin)):
        if quick:
            # one of every (role, hook / shape, form / plan, trigger) combination, plus a seeded sample of the whole product
            by = {}
            for sc in every:
                by.setdefault((sc['role'],) + tuple(sc['shape'][1:4]) + ((sc['shape'][4],) if fam == 'relogin' else ()), []).append(sc)
            groups = list(by.values())
            rng.shuffle(groups)
            pick = [rng.choice(v) for v in groups[:n]]
            cases += [(fam, c) for c in pick + rng.sample(every, min(len(every), max(0, n - len(pick))))]
        else:
            cases += [(fam, c) for c in every]
    cases += [('random', random_scenario(rng)) for _ in range(n_random if quick else 20000)]
    for tag, sc in cases:
        rep = {'kind': 'r7', 'r7_scenario': sc}
        try:
            res = run_scenario(sc)
        except Exception as e:      # noqa — the (possibly modified) library broke the run itself: an observation
            ctx.violation(f'running the scenario raised {type(e).__name__}: {e}  [base-session history, oracle only]', rep)
            continue
        ctx.case({'r7': sc}, nontrivial=True, sample_every=389)
        ctx.count('r7:' + tag)
        ctx.count('r7:' + sc['role'] + (':closed' if res['closed'] else ':open'))
        for e in res['log']:
            if e[0] == 'trigger':
                ctx.count('r7:trigger-' + e[1])
        for f in facts(sc, res):
            ctx.count('r7:' + f)
        v = orc(sc, res)
        if v:
            small = shrink(sc, v[0][:40], orc) if len(ctx.violations) < 3 else sc
            ctx.violation(v[0] + '  [base-session history, oracle only]', {'kind': 'r7', 'r7_scenario': small})
    ctx.notes.append('base-session histories of harness/sess_r7.py — (A) message / on_login callbacks in flight whose cancellation clean-up awaits '
                     'session.close() (except-CancelledError and finally forms) x every close trigger from another task on soup client, soup server '
                     'and FIX client sessions; (B) server sessions whose peer repeats its LoginRequest (after acceptance, in the same segment, '
                     'while on_login is awaiting, after a LogoutRequest, after a rejection) x every close trigger — are judged by the property '
                     'oracle only (' + JUDGED[prop] + '): Model/Session.lean has no server session / login-request event and its handler '
                     'programs cannot call close() on cancellation'
                     + ('; the model-level part is Props/C05Cleanup.lean: in every reachable state a task the closer is awaiting has its '
                        'cancellation pending, the session already reports closed and a close() awaited by that task returns in the same step '
                        'without touching the close in progress' if prop == 'C05' else ''))


def load_corpus(prop):
    out = []
    d = os.path.join(common.VERIF, 'corpus', prop + '-r7')
    if os.path.isdir(d):
        for f in sorted(os.listdir(d)):
            if f.endswith('.json'):
                c = json.load(open(os.path.join(d, f)))
                out.append(c.get('r7_scenario') or (c.get('replay') or {}).get('r7_scenario') or c)
    return out


def replay_r7(ctx, prop, rep):
    sc = rep['r7_scenario']
    ctx.cov['rule'] = 'replay of a base-session history (harness/sess_r7.py)'
    res = run_scenario(sc)
    ctx.case({'r7': sc})
    print('scenario:', describe(sc))
    print('log     :', [e[:2] if e[0] == 'task' else e for e in res['log']])
    print('closed', res['closed'], 'transport closes', res['tcloses'], 'alive', res['alive'], 'task exceptions', res['task_exceptions'], res['loop_exceptions'])
    for v in ORACLES[prop](sc, res):
        print('ORACLE:', v)
        ctx.violation(v + '  [base-session history, oracle only]', dict(rep))
