"""Virtual-time asyncio loop + fake transport, used to drive the real sessions/readers deterministically.

  loop = VirtualLoop()            # time() is virtual; when nothing is ready the clock jumps to the next timer
  loop.run(coro)                  # like asyncio.run on this loop (sets it as the current loop)
  FakeTransport()                 # records (virtual time, bytes) writes and close() calls
                                  # read side:  feed() honours pause_reading()/resume_reading()
                                  # write side: enable_write_flow(high, low) + peer_stops_reading()/peer_reads() make it call
                                  #             protocol.pause_writing()/resume_writing() the way an asyncio socket transport does
  await turns(k)                  # yield k loop iterations without advancing time
  await until(t)                  # sleep until absolute virtual time t
  loop.hold(t)                    # called from inside a callback: that callback *blocks* until virtual time t (the clock moves on
                                  # synchronously; no loop iteration, hence no timer and no I/O callback, runs meanwhile)

The library's reader polls every 0.0001 s, so one virtual second costs ~10^4 loop iterations (~0.2 s wall): keep
heartbeat intervals in scripts at 0.002 .. 0.05 s.
"""
import asyncio
import heapq


class VirtualLoop(asyncio.SelectorEventLoop):
    def __init__(self):
        super().__init__()
        self._vt = 0.0
        self.iterations = 0
        self.tasks_created = []           # every task created on this loop (for C06-style leak checks)
        self.loop_exceptions = []         # contexts passed to the loop exception handler
        self.set_task_factory(self._factory)
        self.set_exception_handler(lambda loop, ctx: self.loop_exceptions.append(ctx))

    def _factory(self, loop, coro, **kw):
        t = asyncio.Task(coro, loop=loop, **kw)
        self.tasks_created.append(t)
        return t

    def time(self):
        return self._vt

    def _run_once(self):
        self.iterations += 1
        sched = self._scheduled
        while sched and sched[0]._cancelled:
            h = heapq.heappop(sched)
            h._scheduled = False
            self._timer_cancelled_count = max(0, self._timer_cancelled_count - 1)
        if not self._ready and sched:
            when = sched[0]._when
            if when > self._vt:
                self._vt = when
        super()._run_once()

    def hold(self, until):
        """The running callback blocks the event loop until virtual time `until`: the clock jumps there at once, from inside the
        callback.  Timers whose deadline passes meanwhile fire late — in the loop iteration after the callback returns, in deadline
        order — exactly as on a real loop whose only thread was busy."""
        if until > self._vt:
            self._vt = until

    def run(self, coro):
        asyncio.set_event_loop(self)
        try:
            return self.run_until_complete(coro)
        finally:
            asyncio.set_event_loop(None)

    def shutdown(self):
        """cancel whatever is left and close the loop (call after inspecting tasks_created)"""
        asyncio.set_event_loop(self)
        try:
            # repeat: cancelling a task can create new ones (e.g. the `finally` of pause_dispatching() restarts the dispatcher); a task
            # left suspended on a closed loop would be finalised by the garbage collector in the middle of a later scenario
            for _ in range(20):
                pending = [t for t in asyncio.all_tasks(self) if not t.done()]
                if not pending:
                    break
                for t in pending:
                    t.cancel()
                self.run_until_complete(asyncio.gather(*pending, return_exceptions=True))
            self.run_until_complete(self.shutdown_asyncgens())
        finally:
            asyncio.set_event_loop(None)
            self.close()


class FakeTransport(asyncio.Transport):
    def __init__(self, loop=None, peer=('peer', 1)):
        super().__init__()
        self._loop = loop
        self.writes = []        # (virtual time, bytes)
        self.closes = []        # virtual times of close() calls
        self.peer = peer
        self.protocol = None
        self._paused = False    # read side: see feed() / pause_reading() below
        self._inbox = bytearray()
        self.pause_log = []

    def _now(self):
        loop = self._loop or asyncio.get_event_loop()
        return loop.time()

    def get_extra_info(self, name, default=None):
        return self.peer if name == 'peername' else default

    def write(self, data):
        self.writes.append((self._now(), bytes(data)))
        if self._wflow:
            self._buffer_write(len(data))

    def close(self):
        self.closes.append(self._now())
        if self._wflow and self._wbuf == 0:
            self._schedule_connection_lost()

    def is_closing(self):
        return bool(self.closes)

    def abort(self):
        self.close()

    def written(self):
        return b''.join(b for _, b in self.writes)

    # ---- read side with flow control (additive: callers that hand bytes to `protocol.data_received` themselves and sessions that
    # never pause are not affected).  `feed(data)` is what the peer's bytes do on a real transport: they reach `data_received`
    # only while the transport is reading; while reading is paused they wait (kernel buffer) and are delivered, coalesced, by a
    # later loop iteration after `resume_reading()`; after `close()` nothing is delivered any more.
    MAX_READ = 256 * 1024       # a selector transport reads at most this many bytes per `recv`

    def pause_reading(self):
        self._paused = True
        self.pause_log.append(('pause', self._now()))

    def resume_reading(self):
        if not self._paused:
            return
        self._paused = False
        self.pause_log.append(('resume', self._now()))
        if self._inbox:
            (self._loop or asyncio.get_event_loop()).call_soon(self._deliver_pending)

    def is_reading(self):
        return not self._paused and not self.closes

    def pending_inbound(self):
        """bytes the peer has sent that have not reached `data_received` (reading paused)"""
        return len(self._inbox)

    def feed(self, data):
        """the peer sends `data`; returns True if it was handed to the protocol now, False if it waits for `resume_reading()`"""
        if self.closes or self.protocol is None:
            return False
        if self._paused or self._inbox:
            self._inbox.extend(data)
            return False
        self.protocol.data_received(bytes(data))
        return True

    def _deliver_pending(self):
        box = self._inbox
        if box and not self._paused and not self.closes:
            chunk = bytes(box[:self.MAX_READ])
            del box[:self.MAX_READ]
            self.protocol.data_received(chunk)
            if box and not self._paused:
                (self._loop or asyncio.get_event_loop()).call_soon(self._deliver_pending)

    # ---- write side with flow control (additive: nothing below is active until `enable_write_flow()` is called; `write()` always
    # records the call first — a write the transport merely buffers is still a transmission by the session).
    # What an asyncio selector transport does (selector_events._SelectorSocketTransport + transports._FlowControlMixin):
    #   write(data)   the bytes go to the socket while the kernel takes them; what it does not take is appended to the transport's
    #                 buffer; if the buffer is then above the HIGH-water mark and the protocol is not paused: `protocol.pause_writing()`,
    #                 synchronously, from inside write();
    #   _write_ready  (a loop callback, when the peer has read and the socket is writable again) sends from the buffer, then
    #                 `_maybe_resume_protocol()`: if the protocol is paused and the buffer is at or below the LOW-water mark:
    #                 `protocol.resume_writing()` — ALSO on a transport that is already closing (close() with a non-empty buffer keeps
    #                 flushing); once the buffer of a closing transport is empty: `protocol.connection_lost(None)`;
    #   exceptions raised by either callback go to the loop's exception handler.
    # The peer is modelled by `peer_stops_reading(kernel)` (from now on the kernel takes `kernel` more bytes, the rest is buffered) and
    # `peer_reads(n)` (it reads n buffered bytes, or everything and goes on reading).  `flow_log` records the callbacks made.
    _wflow = False
    _wbuf = 0

    def enable_write_flow(self, high=64 * 1024, low=None, connection_lost=False):
        """switch the write-side model on.  high/low: water marks in bytes (asyncio's defaults: 64 KiB and high // 4);
        connection_lost: call `protocol.connection_lost(None)` once a closed transport has flushed its buffer (as asyncio does)"""
        self._wflow = True
        self._high = high
        self._low = high // 4 if low is None else low
        self._wbuf = 0                  # bytes in the transport's own buffer
        self._peer_reading = True
        self._kernel = 0                # bytes the kernel still accepts although the peer has stopped reading
        self._proto_paused = False      # the transport's `_protocol_paused`
        self._lost = False
        self._want_lost = connection_lost
        self.flow_log = []              # ('pause_writing' | 'resume_writing' | 'connection_lost', virtual time)

    def get_write_buffer_size(self):
        return self._wbuf

    def get_write_buffer_limits(self):
        return (self._low, self._high) if self._wflow else (16 * 1024, 64 * 1024)

    def set_write_buffer_limits(self, high=None, low=None):
        if not self._wflow:
            self.enable_write_flow()
        if high is None:
            high = 64 * 1024 if low is None else 4 * low
        self._high, self._low = high, (high // 4 if low is None else low)
        self._maybe_pause_protocol()

    def is_write_paused(self):
        """has the transport told the protocol to stop writing (and not yet to resume)"""
        return self._wflow and self._proto_paused

    def peer_stops_reading(self, kernel=0):
        self._peer_reading = False
        self._kernel = kernel

    def peer_reads(self, n=None):
        """the peer reads `n` of the buffered bytes (None: everything, and it keeps reading from now on); the transport notices in a
        later loop callback (`_write_ready`)"""
        if n is None:
            self._peer_reading = True
            self._wbuf = 0
        else:
            self._wbuf = max(0, self._wbuf - n)
        (self._loop or asyncio.get_event_loop()).call_soon(self._write_ready)

    def _buffer_write(self, n):
        if self._peer_reading or self._lost:
            return
        take = min(n, self._kernel)
        self._kernel -= take
        self._wbuf += n - take
        self._maybe_pause_protocol()

    def _call_protocol(self, name, *args):
        self.flow_log.append((name, self._now()))
        fn = getattr(self.protocol, name, None)
        if fn is None:
            return
        try:
            fn(*args)
        except (SystemExit, KeyboardInterrupt):
            raise
        except BaseException as exc:      # noqa — as asyncio: reported to the loop, the transport goes on
            (self._loop or asyncio.get_event_loop()).call_exception_handler(
                {'message': f'protocol.{name}() failed', 'exception': exc, 'transport': self, 'protocol': self.protocol})

    def _maybe_pause_protocol(self):
        if self._wbuf > self._high and not self._proto_paused:
            self._proto_paused = True
            self._call_protocol('pause_writing')

    def _write_ready(self):
        if self._lost:
            return
        if self._proto_paused and self._wbuf <= self._low:
            self._proto_paused = False
            self._call_protocol('resume_writing')
        if self._wbuf == 0 and self.closes:
            self._schedule_connection_lost()

    def _schedule_connection_lost(self):
        if self._want_lost and not self._lost:
            self._lost = True
            (self._loop or asyncio.get_event_loop()).call_soon(self._call_protocol, 'connection_lost', None)

async def turns(k=1):
    for _ in range(k):
        await asyncio.sleep(0)


async def until(t):
    loop = asyncio.get_running_loop()
    d = t - loop.time()
    if d > 0:
        await asyncio.sleep(d)
