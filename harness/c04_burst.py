"""C04 — receive BACKLOGS: the peer sends (much) faster than the reader drains.

The scenarios of sess_checks / app_sessions carry a handful of small messages: the reader's buffer never holds more than a few
hundred bytes and is read to its end at almost every poll.  "All peer message sequences x all segmentations and arrival timings"
includes the replay after a login with sequence 1 and the market-data burst: 100 - 400 KiB (thorough: up to 1.5 MiB) of packets
that reach the session in one segment, in 64 KiB / 256 KiB segments back to back, in segments that arrive at every reader poll
faster than one packet per poll, or in the very segment that carries the login acceptance — so that for hundreds or thousands of
reader polls CONSUMED packets lie in front of unread ones (64 KiB, 128 KiB, 256 KiB ... of them).

Families of packet sizes: `kb` (150 - 400 packets of 300 - 1200 bytes), `tiny` (thousands of 8 - 14 byte packets), `mixed` (8 bytes
to 20 KiB, a few of the maximum size), each optionally with heartbeats interleaved (consumed, never delivered).
Sessions and consumers: a soup client session pulled (`receive_msg`), called back, pulled for the first k messages and then
switched to callbacks (`set_handlers` + `start_dispatching`); a soup server session (unsequenced data, callback); a FIX session
(callback); an ITCH / OUCH / SQF application session over the rich schema of harness/app_schema.py, pulled (`receive_message`)
or called back.  Handlers return at once, after a loop turn, or (every so-many-th message) after a timer.

Oracle = C04 as stated, on the implementation alone.  Every packet carries its index and a body derived from it, so the consumer's
sequence is compared with the sent one exactly: (1) what the consumer has is at every moment a prefix of the packets carried by the
bytes fed so far (each hand-over is stamped with the number of packets fed by then), nothing twice, nothing skipped, nothing that
was not sent; (2) the session still being open and the handlers returning, everything is delivered within a bounded number of
reader polls (1.5 polls per frame + the handlers' timers + 300).  A session that closes itself under the burst is counted, not
judged here (C03 / C05 / C07 speak about that).

Model side: `C04_prefix` / `C04_drain` (Props/C04.lean, Props/C04Drain.lean) quantify over ALL event lists — no bound on the number
of frames in a segment or in the buffer — so there is nothing to add to the theorems; the step-by-step replay of such a burst through
the list-based Lean machines would cost minutes (tens of thousands of events), the byte-level reader is tied to the model on
megabyte streams by C03 (`frame.run`).  These scenarios are therefore judged by the property oracle only.
"""
import asyncio
import collections
import json
import os
import random

from common import err_name, VERIF
from vloop import VirtualLoop, FakeTransport

POLL = 0.0001               # the reader's poll interval (virtual seconds)
KIB = 1024
PAT = bytes(range(256)) * 260
SOUP_LAYERS = ('soup-client', 'soup-server')
APP_LAYERS = ('itch', 'ouch', 'sqf')
MODES = {'soup-client': ('pull', 'callback', 'pull-then-callback'), 'soup-server': ('callback',), 'fix': ('callback',),
         'itch': ('pull', 'callback'), 'ouch': ('pull', 'callback'), 'sqf': ('pull', 'callback')}


# ------------------------------------------------------------------ what the peer sends
def sizes_of(sc):
    r = random.Random(f"sizes:{sc['size_seed']}")
    lo, hi = sc['sizes']
    out = [r.randint(lo, hi) for _ in range(sc['n'])]
    for i in sc.get('big', []):
        if i < len(out):
            out[i] = sc.get('big_size', 65000)
    return out


def body(i, size):
    """payload of packet i: its index, then bytes derived from it"""
    return i.to_bytes(8, 'big') + PAT[i % 251: i % 251 + max(0, size - 8)]


def text_body(i, size):
    return ('%08d' % i + LETTERS_RUN[i % 61: i % 61 + max(0, size - 8)])


LETTERS_RUN = ''.join(chr(65 + (k * 7) % 26) for k in range(70000))


class Wire:
    """frames of the scenario and the mapping from what a consumer is handed back to the packet index"""

    def __init__(self, sc):
        self.sc = sc
        self.layer = sc['layer']
        self.sizes = sizes_of(sc) if self.layer not in APP_LAYERS else None
        self.n = sc['n']
        self.fixrig = None

    def frames(self):
        """-> list of (bytes, index or None for a heartbeat)"""
        from nasdaq_protocols import soup
        sc, out = self.sc, []
        hb_every = sc.get('hb_every', 0)
        for i in range(self.n):
            if hb_every and i and i % hb_every == 0:
                out.append((self._hb(), None))
            if self.layer in SOUP_LAYERS:
                # framed by hand as the SoupBinTCP document says (2-byte big-endian length of type + payload, type, payload): the
                # library's own encoder refuses payloads beyond 32766 bytes, a peer may send up to 65534
                p = body(i, self.sizes[i])
                out.append(((len(p) + 1).to_bytes(2, 'big') + (b'S' if self.layer == 'soup-client' else b'U') + p, i))
            elif self.layer == 'fix':
                out.append((self._fix_frame(i), i))
            else:
                import app_schema
                out.append((soup.SequencedData(app_schema.defs(self.layer).payload(sc['tok0'] + i)).to_bytes()[1], i))
        return out

    def _hb(self):
        from nasdaq_protocols import soup
        if self.layer == 'fix':
            import monitor_common as mc
            self.fixrig.peer.send_msg(mc._fix_libs()['fixm'].Heartbeat())
            return self.fixrig.peer_tr.writes[-1][1]
        return (soup.ClientHeartbeat() if self.layer == 'soup-server' else soup.ServerHeartbeat()).to_bytes()[1]

    def _fix_frame(self, i):
        import monitor_common as mc
        m = mc._fix_libs()['fixm'].Nope()
        m.Username = text_body(i, self.sizes[i])
        self.fixrig.peer.send_msg(m)
        return self.fixrig.peer_tr.writes[-1][1]

    def token(self, m):
        """index of the packet a delivered object stands for, or a string describing something that was never sent"""
        try:
            if self.layer in SOUP_LAYERS:
                data = bytes(m.data)
                i = int.from_bytes(data[:8], 'big') if len(data) >= 8 else -1
                if 0 <= i < self.n and data == body(i, self.sizes[i]):
                    return i
                return f'{type(m).__name__}:{data[:12].hex()}..({len(data)} bytes)'
            if self.layer == 'fix':
                u = m.Username
                i = int(u[:8])
                if 0 <= i < self.n and u == text_body(i, self.sizes[i]):
                    return i
                return f'{type(m).__name__}:{u[:16]}..({len(u)} chars)'
            import app_schema
            import app_sessions as AS
            t = app_schema.defs(self.layer).token(m)
            if t == AS.INVENTED or not 0 <= t - self.sc['tok0'] < self.n:
                return f'{type(m).__name__}:not-a-sent-message'
            return t - self.sc['tok0']
        except Exception as e:   # noqa
            return f'{type(m).__name__}:unreadable:{err_name(e)}'


# ------------------------------------------------------------------ one run on the implementation
def run_scenario(sc):
    """-> {'seen': [[token, packets fed by then]...], 'closed': bool, 'n': packets sent, 'bytes': total, 'vtime': ..., 'timers': k}"""
    loop = VirtualLoop()
    out = {}

    async def main():
        from nasdaq_protocols import soup
        wire = Wire(sc)
        layer, mode = sc['layer'], sc['mode']
        seen, fed = [], [0]
        timers = [0]
        lat = sc.get('handler', 0)

        async def on_msg(m):
            seen.append([wire.token(m), fed[0]])
            k = len(seen)
            if lat == 'turn':
                await asyncio.sleep(0)
            elif isinstance(lat, int) and lat > 1 and k % lat == 0:
                timers[0] += 1
                await asyncio.sleep(POLL * 1.5)

        hb = dict(client_heartbeat_interval=1000, server_heartbeat_interval=1000)
        tr = FakeTransport()
        app = None
        acc = b''
        if layer == 'fix':
            import monitor_common as mc

            class Rig(mc.Rig):
                async def _on_msg(self, m):
                    await on_msg(m)
            rig = Rig('fix', 800000, 800000)          # intervals in grid units of 1.25 ms: 1000 s
            await rig.login()
            wire.fixrig = rig
            s, tr = rig.s, rig.tr
        elif layer == 'soup-server':
            class Server(soup.SoupServerSession):
                async def on_login(self, msg):
                    return soup.LoginAccepted('sess', 1)

                async def on_unsequenced(self, msg):
                    await on_msg(msg)
            s = Server(**hb)
            tr.protocol = s
            s.connection_made(tr)
            tr.feed(soup.LoginRequest('u', 'p', '', '1').to_bytes()[1])
            for _ in range(50):
                if tr.writes:
                    break
                await asyncio.sleep(POLL)
        else:
            s = soup.SoupClientSession(on_msg_coro=on_msg if (mode == 'callback' and layer == 'soup-client') else None, **hb)
            tr.protocol = s
            s.connection_made(tr)
            acc = soup.LoginAccepted('sess', 1).to_bytes()[1]
        frames = wire.frames()
        total = sum(len(b) for b, _ in frames)
        # segments: (bytes, packets completed by the end of the segment)
        stream = b''.join(b for b, _ in frames)
        ends, pos, done = [], 0, 0
        for b, i in frames:
            pos += len(b)
            if i is not None:
                done += 1
            ends.append((pos, done))
        dl = sc['delivery']
        if dl[0] in ('one', 'with-login'):
            cuts = [len(stream)]
        else:
            cuts = list(range(dl[1], len(stream), dl[1])) + [len(stream)]
        segs, a, j = [], 0, 0
        for c in cuts:
            while j < len(ends) and ends[j][0] <= c:
                j += 1
            segs.append((stream[a:c], ends[j - 1][1] if j else 0))
            a = c

        async def login():
            t = asyncio.ensure_future(s.login(soup.LoginRequest('u', 'p', '', '1')))
            await asyncio.sleep(0)
            return t

        if layer not in ('fix', 'soup-server'):
            lt = await login()
            if dl[0] == 'with-login':
                fed[0] = segs[0][1]
                tr.feed(acc + segs[0][0])
                segs = segs[1:]
            else:
                tr.feed(acc)
            await asyncio.wait_for(lt, 1)
            if layer in APP_LAYERS:
                import app_schema
                app = app_schema.defs(layer).session_cls(s, on_msg_coro=on_msg if mode == 'callback' else None)

        # consumers
        consumer = None
        switch_at = sc.get('switch_at', 0)

        async def pull_all(get, upto=None):
            while upto is None or len(seen) < upto:
                m = await get()
                seen.append([wire.token(m), fed[0]])

        if mode == 'pull':
            consumer = asyncio.ensure_future(pull_all(app.receive_message if app is not None else s.receive_msg))
        elif mode == 'pull-then-callback':
            async def pull_then_switch():
                await pull_all(s.receive_msg, switch_at)
                s.set_handlers(on_msg_coro=on_msg)
                s.start_dispatching()
            consumer = asyncio.ensure_future(pull_then_switch())

        # the peer sends
        for k, (seg, upto) in enumerate(segs):
            fed[0] = upto
            tr.feed(seg)
            if dl[0] == 'paced':
                await asyncio.sleep(POLL * dl[2])
        # bounded delivery: 1.5 reader polls per frame + the handlers' timers + slack; stop earlier once everything has arrived
        budget = int(len(frames) * 1.5) + 300
        waited = 0
        while waited < budget + 2 * timers[0] and len(seen) < wire.n and not s.is_closed():
            await asyncio.sleep(POLL * 50)
            waited += 50
        # some more polls: duplicates / inventions that arrive after the last packet
        await asyncio.sleep(POLL * 40)
        out.update(seen=list(seen), closed=bool(s.is_closed()), n=wire.n, bytes=total, frames=len(frames), timers=timers[0],
                   vtime=round(loop.time(), 4), consumer_error=None)
        if consumer is not None:
            if consumer.done() and not consumer.cancelled() and consumer.exception() is not None:
                out['consumer_error'] = err_name(consumer.exception())
            consumer.cancel()
        try:
            if layer == 'fix':
                await wire.fixrig.finish()
            elif app is not None:
                await asyncio.wait_for(app.close(), 1)
            else:
                await asyncio.wait_for(s.close(), 1)
        except BaseException:   # noqa — only tidying up
            pass

    try:
        loop.run(main())
        if loop.loop_exceptions:
            out['loop_exceptions'] = [type(c.get('exception')).__name__ + ':' + str(c.get('message'))[:60] for c in loop.loop_exceptions][:3]
    except Exception as e:      # noqa — a (possibly modified) library may raise anything
        out['error'] = err_name(e) + ':' + str(e)[:120]
    finally:
        try:
            loop.shutdown()
        except Exception:       # noqa
            pass
    return out


# ------------------------------------------------------------------ oracle (C04 on the implementation alone)
def judge(sc, out):
    """-> [(kind of failure, text)]"""
    if 'error' in out:
        return [('error', f"running the burst raised {out['error']}")]
    n = out['n']
    toks = [t for t, _ in out['seen']]
    desc = f"{sc['layer']} session, consumer {sc['mode']}: the peer sent {n} packets ({out['bytes'] // KIB} KiB, delivery {sc['delivery']})"
    bad = [(k, t) for k, t in enumerate(toks) if t != k]
    if bad:
        k, t = bad[0]
        cnt = collections.Counter(x for x in toks if isinstance(x, int))
        dup = sorted(x for x, c in cnt.items() if c > 1)[:8]
        inv = [x for x in toks if not isinstance(x, int)][:2]
        return [('sequence', f'{desc}; the consumer was handed {len(toks)} messages; position {k}: expected packet {k}, was handed '
                 f'{"packet " + str(t) if isinstance(t, int) else "something that was never sent (" + t + ")"}'
                 + (f'; delivered more than once: {dup}' if dup else '') + (f'; never sent: {inv}' if inv else ''))]
    early = [(k, f) for k, (t, f) in enumerate(out['seen']) if k >= f]
    if early:
        k, f = early[0]
        return [('early', f'{desc}; packet {k} was handed to the consumer when the bytes received so far carried only {f} packets')]
    if out.get('consumer_error'):
        return [('consumer-error', f"{desc}; the consumer's receive call raised {out['consumer_error']} on an open session after {len(toks)} messages")]
    if not out['closed'] and len(toks) < n:
        return [('incomplete', f'{desc}; the session is open, the handlers returned, {out["frames"]} frames were polled for '
                 f'{int(out["vtime"] / POLL)} reader polls, but only {len(toks)} of {n} messages were delivered')]
    return []


def oracle(sc, out):
    return [t for _k, t in judge(sc, out)]


# ------------------------------------------------------------------ generator
def gen_scenario(rng, layer=None, mode=None, thorough=False, family=None):
    layer = layer or rng.choice(['soup-client'] * 4 + ['soup-server', 'fix'] + list(APP_LAYERS))
    mode = mode or rng.choice(MODES[layer])
    sc = {'layer': layer, 'mode': mode, 'size_seed': rng.randrange(1 << 30)}
    if layer in APP_LAYERS:
        # rich-schema application messages (11 - 1200 bytes, mean about 90): enough of them for 100 - 250 KiB
        sc['n'] = rng.randint(1300, 2600) * (3 if thorough and rng.random() < 0.3 else 1)
        sc['tok0'] = rng.randrange(1, 500)
        sc['sizes'] = None
    elif layer == 'fix':
        sc['n'] = rng.randint(500, 900)
        sc['sizes'] = [60, 400]                      # Username text; the frame adds ~80 bytes: 100 - 280 KiB
    else:
        fam = family or rng.choice(['kb', 'kb', 'kb', 'tiny', 'mixed'])
        if fam == 'kb':
            sc['n'], sc['sizes'] = rng.randint(150, 400), [300, 1200]
        elif fam == 'tiny':
            sc['n'], sc['sizes'] = rng.randint(7000, 12000), [8, rng.choice([8, 10, 14])]
        else:
            sc['n'], sc['sizes'] = rng.randint(60, 200), [8, rng.choice([2000, 6000, 20000])]
            sc['big'] = sorted(rng.sample(range(sc['n']), rng.randint(0, 3)))
            sc['big_size'] = rng.choice([65000, 65534, 32768])
        while sum(sizes_of(sc)) + 3 * sc['n'] < 100 * KIB:
            sc['n'] = sc['n'] * 3 // 2 + 1
        if thorough and rng.random() < 0.25:
            sc['n'] *= rng.choice([2, 4])           # up to ~1.5 MiB
    if rng.random() < 0.4:
        sc['hb_every'] = rng.choice([1, 2, 7, 50])
    d = rng.random()
    if d < 0.35:
        sc['delivery'] = ['one']
    elif d < 0.6:
        sc['delivery'] = ['seg', rng.choice([64 * KIB, 64 * KIB, 256 * KIB, 16 * KIB, 65537, 1460])]
    elif d < 0.8 and layer not in ('fix', 'soup-server'):
        sc['delivery'] = ['with-login']
    else:
        sc['delivery'] = ['paced', rng.choice([4 * KIB, 8 * KIB, 1460 * 3]), rng.choice([1, 1, 2])]
    if mode != 'pull':
        sc['handler'] = rng.choice([0, 0, 'turn', 50, 7])
    if mode == 'pull-then-callback':
        sc['switch_at'] = rng.choice([1, 2, sc['n'] // 3, sc['n'] // 2, max(1, sc['n'] - 2)])
    return sc


def describe(sc):
    return {k: v for k, v in sc.items()}


def shrink(sc, key, budget=14):
    """fewer packets, simpler delivery / handler, while the same kind of failure persists"""
    def fails(c):
        f = judge(c, run_scenario(c))
        return bool(f) and f[0][0] == key
    cur, tries = sc, 0
    for simpler in ({'handler': 0}, {'hb_every': 0}, {'delivery': ['one']}, {'big': []}):
        if tries >= budget or all(cur.get(k, 0) == v for k, v in simpler.items()):
            continue
        cand = dict(cur, **simpler)
        tries += 1
        if fails(cand):
            cur = cand
    lo = 1
    while tries < budget and cur['n'] - lo > max(4, cur['n'] // 12):
        mid = (cur['n'] + lo) // 2
        cand = dict(cur, n=mid)
        if cur.get('switch_at'):
            cand['switch_at'] = max(1, min(cur['switch_at'], mid - 1))
        tries += 1
        if fails(cand):
            cur = cand
        else:
            lo = mid
    return cur


def run_many(scs):
    """run_scenario over a list, in forked worker processes (every scenario builds its own loop, transport and sessions; nothing is
    shared), results in order; in the calling process if the pool cannot be used"""
    jobs = int(os.environ.get('VERIF_JOBS', '0') or 0) or max(1, min(8, (os.cpu_count() or 2) // 2))
    if jobs <= 1 or len(scs) < 2:
        return [run_scenario(sc) for sc in scs]
    try:
        import multiprocessing
        from nasdaq_protocols import soup  # noqa — import the library once, before the fork
        with multiprocessing.get_context('fork').Pool(min(jobs, len(scs))) as pool:
            return pool.map(run_scenario, scs, chunksize=1)
    except Exception:       # noqa — no fork / no semaphores in this environment
        return [run_scenario(sc) for sc in scs]


def check(ctx, sc, tag='gen', out=None):
    if out is None:
        out = run_scenario(sc)
    ctx.case({'burst_scenario': describe(sc)}, nontrivial=True, sample_every=3)
    ctx.count(f"burst:{sc['layer']}:{sc['mode']}")
    ctx.count('burst-delivery:' + sc['delivery'][0])
    if 'error' not in out:
        kib = out['bytes'] // KIB
        ctx.count('burst-size:' + ('>1MiB' if kib > 1024 else '>256KiB' if kib > 256 else '>128KiB' if kib > 128 else '>64KiB' if kib > 64 else '<=64KiB'))
        ctx.cov['burst_kib'] = ctx.cov.get('burst_kib', 0) + kib
        ctx.cov['burst_messages'] = ctx.cov.get('burst_messages', 0) + out['n']
        if out['closed']:
            ctx.count('burst:session-closed-by-itself')
    fails = oracle(sc, out)
    if fails:
        small = sc
        if len(ctx.violations) < 2:
            try:
                small = shrink(sc, judge(sc, out)[0][0])
                fails = oracle(small, run_scenario(small)) or fails
            except Exception:   # noqa
                small = sc
        ctx.violation(fails[0], {'kind': 'burst', 'burst_scenario': small})
    return out


def run(ctx):
    rng = ctx.rng
    thorough = ctx.tier == 'thorough'
    plan = []
    if not thorough:
        # one or two scenarios per consumer kind: the soup client in its three modes (one of them with thousands of tiny packets),
        # one application session, and one of {soup server, FIX, a second application session}
        fams = ['kb', 'kb', rng.choice(['tiny', 'mixed'])]
        rng.shuffle(fams)
        for mode, fam in zip(MODES['soup-client'], fams):
            plan.append(gen_scenario(rng, 'soup-client', mode, family=fam))
        plan.append(gen_scenario(rng, rng.choice(APP_LAYERS)))
        plan.append(gen_scenario(rng, rng.choice(['soup-server', 'fix', rng.choice(APP_LAYERS)])))
    else:
        for _ in range(160):
            plan.append(gen_scenario(rng, thorough=True))
    corpus = []
    cdir = os.path.join(VERIF, 'corpus', 'C04-burst')
    if os.path.isdir(cdir):
        for fn in sorted(os.listdir(cdir)):
            if fn.endswith('.json'):
                corpus.append(json.load(open(os.path.join(cdir, fn)))['burst_scenario'])
    todo = [(sc, 'corpus') for sc in corpus] + [(sc, 'gen') for sc in plan]
    for (sc, tag), out in zip(todo, run_many([sc for sc, _ in todo])):
        check(ctx, sc, tag, out=out)
    ctx.notes.append('receive backlogs (harness/c04_burst.py): bursts of 100 - 400 KiB (thorough: up to ~1.5 MiB) in one segment / 64 KiB segments '
                     'back to back / faster than one packet per poll / with the login acceptance, through soup client (pull, callback, '
                     'pull-then-callback), soup server, FIX and ITCH/OUCH/SQF application sessions; judged by the property oracle only '
                     '(C04_prefix / C04_drain hold for event lists of any length; the byte-level reader is tied to the model on megabyte '
                     'streams by C03)')


def replay(ctx, rep):
    sc = rep['burst_scenario']
    ctx.cov['rule'] = 'replay of a burst scenario'
    ctx.case('burst-replay')
    ctx.case('replay-marker')
    out = run_scenario(sc)
    print('scenario:', json.dumps(sc))
    toks = [t for t, _ in out.get('seen', [])]
    print('packets sent:', out.get('n'), 'bytes:', out.get('bytes'), 'closed:', out.get('closed'), 'virtual time:', out.get('vtime'),
          'error:', out.get('error'), out.get('loop_exceptions'))
    first_bad = next((k for k, t in enumerate(toks) if t != k), None)
    print('consumer was handed', len(toks), 'messages;', 'first deviation at position' if first_bad is not None else 'no deviation', first_bad if first_bad is not None else '',
          toks[max(0, (first_bad or 0) - 2):(first_bad or 0) + 4] if first_bad is not None else '')
    fails = oracle(sc, out)
    print('oracle:', fails or 'holds')
    for f in fails:
        ctx.violation(f, {'kind': 'burst', 'burst_scenario': sc})
