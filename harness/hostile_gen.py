"""Byte-level generators of malformed / extreme frames for the hostile-input checks (C07 session level, C03 reader level).

Pure bytes, written from the protocol descriptions — nothing of the library is imported here.

A *part* of a stream is a compact, JSON-able byte description (so that replays with 64 KiB frames stay small):
    ['x', '<hex>']                  literal bytes
    ['fill', '<hex of one byte>', n]   n copies of one byte
    ['rep', '<hex>', n]             n copies of a byte string (bursts of identical small frames)
    ['repp', [part...], n]          n copies of what the inner parts expand to (backlogs of identical LARGE frames)
`expand(parts)` gives the bytes.  A *malformed frame* is a dict
    {'cls': '<protocol>:<class>[:<variant>]', 'parts': [part...], 'zones': [offsets inside the frame worth cutting at],
     'delimited': bool,      # the frame's own length announcement covers exactly its bytes (the stream stays in sync after it)
     'wants': n}             # bytes (counted from the frame's start) the announcement can make a reader wait for (>= its length)
The class marked UNDELIMITED_OBSERVATION is implemented but never part of a verdict (`undelimited=True`, env
VERIF_UNDELIMITED_OBSERVATION=1 in C07, for the record only): a FIX BodyLength far beyond anything that will ever arrive — the reader
waits for ever while bytes keep arriving.  Such a frame is not *delimited* (C07's deafness clause quantifies over valid frames + one
malformed-but-delimited frame + valid frames; SoupBinTCP has the same shape, bounded at 64 KiB), so this is an observation outside
the quantifier (DESIGN.md), not a finding; replay: corpus/C07-observations/.  Classes marked MODEL_BOUNDARY are outside what the
Lean model covers (oracle only).
"""
SOH = b'\x01'


def expand(parts):
    out = bytearray()
    for p in parts:
        if p[0] == 'x':
            out += bytes.fromhex(p[1])
        elif p[0] == 'fill':
            out += bytes.fromhex(p[1]) * p[2]
        elif p[0] == 'rep':
            out += bytes.fromhex(p[1]) * p[2]
        elif p[0] == 'repp':
            out += expand(p[1]) * p[2]
        else:
            raise ValueError(p[0])
    return bytes(out)


def lit(b):
    return ['x', bytes(b).hex()]


def compact(b):
    """a byte string as parts, long runs of one byte folded"""
    b = bytes(b)
    parts, i = [], 0
    while i < len(b):
        j = i
        while j < len(b) and b[j] == b[i]:
            j += 1
        if j - i >= 64:
            parts.append(['fill', b[i:i + 1].hex(), j - i])
            i = j
        else:
            k = j
            # extend the literal until the next long run
            while k < len(b):
                m = k
                while m < len(b) and b[m] == b[k]:
                    m += 1
                if m - k >= 64:
                    break
                k = m
            parts.append(lit(b[i:k]))
            i = k
    return parts


# ====================================================================== SoupBinTCP
# packet = 2-byte big-endian length (type byte + payload) | type byte | payload
SOUP_TYPES_FROM_SERVER = b'AJSHZ+'      # what a client session legitimately receives
SOUP_TYPES_FROM_CLIENT = b'LUROX+'[:4] + b'+'   # L U R O +
SOUP_FIXED = {ord('A'): 30, ord('J'): 1, ord('H'): 0, ord('R'): 0, ord('Z'): 0, ord('O'): 0, ord('L'): 46}   # payload sizes
SOUP_VARIABLE = b'SU+'
BIG_LENGTHS = [0xFFFF, 0xFFFE, 0x8000, 0x7FFF]


def soup_pkt(t, payload=b'', length=None):
    t = bytes([t]) if isinstance(t, int) else t
    n = len(t) + len(payload) if length is None else length
    return n.to_bytes(2, 'big') + t + payload


def _mk(cls, b, zones=(), delimited=True, wants=None, parts=None):
    b = bytes(b) if b is not None else expand(parts)
    z = sorted({z for z in zones if 0 < z < len(b)})
    return {'cls': cls, 'parts': parts if parts is not None else compact(b), 'zones': z, 'delimited': delimited,
            'wants': len(b) if wants is None else wants, 'len': len(b)}


def soup_malformed(rng, to_client):
    """every class of malformed-but-delimited SoupBinTCP packet, one (randomly parametrised) representative per class × type;
    `to_client`: the frames travel server -> client session (else client -> server session)"""
    expected = SOUP_TYPES_FROM_SERVER if to_client else b'LURO+'
    other_dir = b'LURO' if to_client else b'AJSHZ'
    out = []
    z3 = (1, 2, 3)
    # unknown packet type: bare, with a payload, with a payload that looks like frames, non-printable type byte
    for t in rng.sample([b'?', b'X', b'Q', b' ', b'\x00', b'z', b'\xff', b'a', b's', b'0'], 4):
        pl = rng.choice([b'', b'payload', b'\x00\x03S12', b'\x00\x01H\x00\x01Z', rng.randbytes(rng.randint(1, 40))])
        out.append(_mk('soup:unknown-type', soup_pkt(t, pl), z3))
    # zero-length frame (no type byte)
    out.append(_mk('soup:zero-length', b'\x00\x00', (1,)))
    # fixed-size packet types whose size does not fit: too short, too long, by one and by a lot
    for t, size in SOUP_FIXED.items():
        for d in rng.sample([-size, -1, 1, 2, 7, 300], 3):
            n = size + d
            if n < 0 or n == size:
                continue
            fillb = rng.choice([b' ', b'1', b'\x00', b'A'])
            out.append(_mk(f'soup:size-mismatch:{chr(t)}', soup_pkt(t, fillb * n), z3 + (3 + n - 1,)))
    # field contents: reject reason, numeric fields, non-ASCII text
    out.append(_mk('soup:bad-reject-reason', soup_pkt(b'J', rng.choice([b'X', b'\x00', b' ', b'a', b'\xff'])), z3))
    out.append(_mk('soup:nonnumeric-sequence:A', soup_pkt(b'A', b'sess      ' + rng.choice([b'x' * 20, b'1e3' + b' ' * 17, b'-' + b' ' * 19, b' ' * 20, b'12 34' + b' ' * 15]))))
    out.append(_mk('soup:nonnumeric-sequence:L', soup_pkt(b'L', b'user  ' + b'password  ' + b'session   ' + rng.choice([b'x' * 20, b' ' * 20, b'0x10' + b' ' * 16]))))
    out.append(_mk('soup:nonascii-text:+', soup_pkt(b'+', rng.choice([b'\xff\xfe', b'caf\xc3\xa9', b'\x80']))))
    out.append(_mk('soup:nonascii-text:A', soup_pkt(b'A', b'se\xff\xfess   ' + b'1'.rjust(20))))
    out.append(_mk('soup:nonascii-text:L', soup_pkt(b'L', b'us\xe9r  ' + b'password  ' + b'session   ' + b'1'.rjust(20))))
    out.append(_mk('soup:nonascii-sequence', soup_pkt(b'A', b'sess      ' + '١٢٣'.encode().rjust(20))))
    # packets of the other direction (well-formed, but not what this side expects)
    for t in other_dir:
        size = SOUP_FIXED.get(t)
        pl = (b'1' * size) if size is not None else b'xy'
        if t == ord('J'):
            pl = b'A'
        if t == ord('A'):
            pl = b'sess      ' + b'1'.rjust(20)
        if t == ord('L'):
            pl = b'user  ' + b'password  ' + b'session   ' + b'1'.rjust(20)
        out.append(_mk(f'soup:other-direction:{chr(t)}', soup_pkt(t, pl), z3))
    # maximum-size and sign-bit-size frames, complete: every kind of type byte
    for n in BIG_LENGTHS:
        types = [rng.choice(b'SU+' if not to_client else b'S+U'), rng.choice(b'HRZO'), rng.choice(b'AJL'), ord('?')]
        for t in types:
            fillb = rng.choice([b'z', b' ', b'1', b'\x00'])
            parts = [lit(n.to_bytes(2, 'big') + bytes([t])), ['fill', fillb.hex(), n - 1]]
            variable = t in SOUP_VARIABLE      # (a legal data packet: its payload is compared by C03 / C12, here only what follows it matters)
            out.append(_mk(f'soup:big:{n:#06x}:{"var" if variable else chr(t) if t != 63 else "unknown"}', None,
                           (1, 2, 3, n // 2, n, n + 1), parts=parts))
    return out


def soup_valid_big(rng, t, n):
    """a legal maximum-size data packet (`t` in S U +), length field n"""
    fillb = rng.choice([b'z', b'7'])
    return _mk(f'soup:big-valid:{n:#06x}', None, (1, 2, 3, n // 2, n, n + 1),
               parts=[lit(n.to_bytes(2, 'big') + bytes([t])), ['fill', fillb.hex(), n - 1]])


def soup_garbage(rng):
    """arbitrary bytes, padded so that a length-prefix reader ends on a frame boundary (each 'frame' of it is delimited)"""
    g = bytearray(rng.randbytes(rng.randint(1, 40)))
    if rng.random() < 0.5:                   # keep the announced lengths small so that the garbage is many small frames
        for i in range(0, len(g), 2):
            g[i] = 0
    pos = 0
    while pos + 2 <= len(g):
        pos += 2 + int.from_bytes(g[pos:pos + 2], 'big')
    if pos > len(g):
        g += rng.randbytes(1) * (pos - len(g)) if pos - len(g) > 64 else rng.randbytes(pos - len(g))
    elif pos < len(g):                       # one stray byte at the end: make it a zero-length frame
        g += b'\x00' * (2 - (len(g) - pos)) if len(g) - pos == 1 else b''
        g[pos:pos + 2] = b'\x00\x00'
    return _mk('soup:garbage', bytes(g), range(1, min(len(g), 8)))


def soup_hb_burst(rng, to_client, total):
    """`total` bytes (at least) of back-to-back heartbeat packets — legal traffic, no message in it"""
    hb = soup_pkt(b'H' if to_client else b'R')
    n = -(-total // len(hb))
    return _mk('soup:heartbeat-burst', None, (), parts=[['rep', hb.hex(), n]])


# ====================================================================== FIX
def fix_checksum(b):
    return ('%03d' % (sum(b) % 256)).encode()


def fix_frame_raw(ver, body_len_text, rest, trailer=True):
    """8=<ver>|9=<body_len_text>|<rest>[10=ccc|] — nothing is computed from `rest` except the checksum"""
    x = b'8=' + ver + SOH + b'9=' + body_len_text + SOH + rest
    return x + (b'10=' + fix_checksum(x) + SOH if trailer else b'')


def fix_good(ver, fields):
    """a well-formed frame from (tag, value) pairs starting with 35"""
    rest = b''.join(str(t).encode() + b'=' + (v if isinstance(v, bytes) else str(v).encode()) + SOH for t, v in fields)
    return fix_frame_raw(ver, str(len(rest)).encode(), rest)


def fix_malformed(rng, good_fields, ver=b'FIX.4.4', follow_len=0, undelimited=False):
    """every class of malformed FIX frame, one randomly parametrised representative per class (several for BodyLength).
    `good_fields`: (tag, value) pairs of a well-formed application message (first pair is 35=<type>);
    `follow_len`: number of bytes the caller will certainly send after the frame (bounds BodyLength values that swallow
    following bytes, so that every announced length is satisfied within the scenario)"""
    out = []
    rest = b''.join(str(t).encode() + b'=' + (v if isinstance(v, bytes) else str(v).encode()) + SOH for t, v in good_fields)
    n = len(rest)
    hdr = len(b'8=' + ver + SOH + b'9=')          # offset of the BodyLength digits

    def with_len(text, cls, wants_extra=0, delimited=False):
        f = fix_frame_raw(ver, text, rest)
        third = hdr + len(text) + 1                # position of the third field
        zones = list(range(hdr - 2, third + 4)) + [len(f) - 1, len(f) - 7]
        return _mk(cls, f, zones, delimited=delimited, wants=len(f) + wants_extra)

    third0 = hdr + len(str(n)) + 1
    # --- BodyLength that int() accepts in a non-canonical spelling of the right value: the frame is delimited
    for text, v in ((b'+%d' % n, 'plus'), (b' %d' % n, 'leading-space'), (b'%d ' % n, 'trailing-space'), (b'0%d' % n, 'leading-zero'),
                    (b'000%d' % n, 'leading-zeros'), (b'\t%d\n' % n, 'tab-newline'),
                    (str(n)[:1].encode() + b'_' + str(n)[1:].encode() if n >= 10 else b'0_%d' % n, 'underscore')):
        out.append(with_len(text, f'fix:bodylength-spelling:{v}', delimited=True))
    # --- BodyLength that int() rejects
    for text in rng.sample([b'', b'x', b'1x', b'--1', b'1 2', b'1e3', b'0x10', b'1.0', b'+', b'-', b'_1', b'1_', b'1__0', b'\xd9\xa1',
                            b'\xef\xbc\x91', b'\x00', b'1\x00'], 8):
        out.append(with_len(text, 'fix:bodylength-nonnumeric'))
    # more digits than CPython's int() converts (sys.int_max_str_digits = 4300): ValueError.  MODEL_BOUNDARY: Py/Dec.lean has no digit
    # limit (the C03 theorems assume at most 4300 digits), so this class is run by the oracle only
    out.append(with_len(b'9' * 5000, 'fix:bodylength-too-many-digits:MODEL_BOUNDARY'))
    # --- signed / zero BodyLength: total frame length = third_field_pos + n + 7 around 0, 1, < header, and beyond the buffer
    signed = [b'-0', b'0', b'-1', b'-5', b'-7', b'-8']
    for total in (0, 1, -1, 2, 5, hdr, hdr + 3):
        for tl in (len(str(n)), len(str(n)) + 1, len(str(n)) + 2, 3, 4):   # the text length shifts the third field: solve for it
            third = hdr + tl + 1
            v = total - third - 7
            if len(str(v)) == tl:
                signed.append(str(v).encode())
                break
    signed += [str(-(third0 + 7 + k)).encode() for k in (n, n + 7, len(rest) + third0 + 7, follow_len, follow_len + 40)]
    signed += [b'-999', b'-65536', b'-999999999', b'-99999999999999999999']
    for text in sorted(set(signed)):
        out.append(with_len(text, 'fix:bodylength-signed' if text.startswith(b'-') else 'fix:bodylength-zero'))
    # --- wrong BodyLength: short / long by a little (the reader mis-frames; long values swallow following bytes)
    for d in (-n, -3, -1, 1, 2, 7):
        if n + d >= 0 and d != 0:
            out.append(with_len(str(n + d).encode(), 'fix:bodylength-short' if d < 0 else 'fix:bodylength-long', wants_extra=max(d, 0)))
    if follow_len > 0:
        for d in sorted({follow_len, max(1, follow_len - 1), max(1, follow_len // 2)}):
            out.append(with_len(str(n + d).encode(), 'fix:bodylength-long-swallows', wants_extra=d))
    if undelimited:
        # UNDELIMITED_OBSERVATION: a BodyLength far beyond anything that will ever arrive: the reader waits for ever, every later
        # frame is swallowed, the session stays open and (bytes keep arriving) the remote monitor never fires.  Not delimited:
        # outside the quantifier of C07's deafness clause; never generated for a verdict
        for text in (b'99999999999', str(n + follow_len + 1000).encode()):
            out.append(with_len(text, 'fix:bodylength-huge:UNDELIMITED_OBSERVATION', wants_extra=10**9))
    # --- MsgType
    ty = good_fields[0][1] if isinstance(good_fields[0][1], bytes) else str(good_fields[0][1]).encode()
    after35 = rest[len(b'35=' + ty + SOH):]

    def with_rest(r2, cls):
        f = fix_frame_raw(ver, str(len(r2)).encode(), r2)
        return _mk(cls, f, [hdr, third0, third0 + 3, len(f) - 7, len(f) - 1], delimited=True)
    for t2 in rng.sample([b'Q', b'ZZ', b'zz9', b'~', b'00', b'a'], 3):
        out.append(with_rest(b'35=' + t2 + SOH + after35, 'fix:unknown-msgtype'))
    out.append(with_rest(b'35=' + SOH + after35, 'fix:empty-msgtype'))
    out.append(with_rest(b'35=' + rng.choice([b'\xff', b'\xc3\xa9', b'\x80A']) + SOH + after35, 'fix:nonascii-msgtype'))
    out.append(with_rest(rng.choice([b'36=', b'35:', b'3=5', b'135=', b'x35=']) + ty + SOH + after35, 'fix:no-msgtype-field'))
    out.append(with_rest(after35 or b'58=x' + SOH, 'fix:msgtype-missing'))
    out.append(with_rest(b'58=a35=' + ty + SOH + after35, 'fix:msgtype-only-inside-a-value'))
    out.append(with_rest(b'35=' + ty + SOH + b'35=' + ty + SOH + after35, 'fix:msgtype-twice'))
    # --- fields
    for bad, cls in ((b'abc=1', 'fix:nonnumeric-tag'), (b'=1', 'fix:empty-tag'), (b'99999=1', 'fix:unknown-tag'), (b'-1=1', 'fix:negative-tag'),
                     (b'novalue', 'fix:field-without-equals'), (b'', 'fix:empty-field'), (b'34=abc', 'fix:nonnumeric-int-field'),
                     (b'34=', 'fix:empty-int-field'), (b'52=garbage', 'fix:bad-timestamp'), (b'553=caf\xc3\xa9\xff', 'fix:nonascii-value'),
                     (b'49=a=b=c', 'fix:equals-in-value'), (b'10=000', 'fix:checksum-in-the-middle'), (b'8=FIX.4.4', 'fix:beginstring-again'),
                     (b'9=5', 'fix:bodylength-again')):
        where = rng.choice(['after-type', 'end'])
        r2 = (b'35=' + ty + SOH + bad + SOH + after35) if where == 'after-type' else (rest + bad + SOH)
        out.append(with_rest(r2, cls))
    # a count-like field of a dictionary the caller may or may not have (the callers' own group classes: sess_hostile.fix_group_classes)
    for cnt in (2, 2000000):
        out.append(with_rest(rest + b'22=%d' % cnt + SOH + b'553=x' + SOH, 'fix:group-count-without-members'))
    # --- trailer
    f = fix_frame_raw(ver, str(n).encode(), rest)
    out.append(_mk('fix:wrong-checksum', f[:-4] + (b'%03d' % ((int(f[-4:-1]) + 1) % 256)) + SOH, [len(f) - 7, len(f) - 1], delimited=True))
    out.append(_mk('fix:nonnumeric-checksum', f[:-4] + b'abc' + SOH, [len(f) - 7, len(f) - 1], delimited=True))
    out.append(_mk('fix:trailer-not-checksum', f[:-7] + b'11=000' + SOH, [len(f) - 7], delimited=True))
    out.append(_mk('fix:trailer-without-soh', f[:-1] + b'|', [len(f) - 1], delimited=True))
    # --- BeginString / start of the frame
    for pre, cls in ((b'', 'fix:no-beginstring'), (b'8', 'fix:beginstring-without-equals'), (b'=', 'fix:leading-equals'), (b'x=y=', 'fix:garbage-before-frame'),
                     (b'8=' + SOH, 'fix:empty-beginstring'), (b'8=FIX.9.9' + SOH, 'fix:unknown-version'), (SOH, 'fix:leading-soh')):
        body = b'9=' + str(n).encode() + SOH + rest
        x = pre + body if cls in ('fix:no-beginstring', 'fix:empty-beginstring', 'fix:unknown-version') else pre + f
        if cls in ('fix:no-beginstring', 'fix:empty-beginstring', 'fix:unknown-version'):
            x = x + b'10=' + fix_checksum(x) + SOH
        out.append(_mk(cls, x, range(1, 6), delimited=cls in ('fix:empty-beginstring', 'fix:unknown-version')))
    # --- fragments that look like the beginning of a frame
    for g in (b'35=', b'x35=' + SOH, b'8=FIX' + SOH + b'9=' + SOH + b'35=0' + SOH, b'=' + SOH + b'35=', SOH + b'35==' + SOH + SOH):
        out.append(_mk('fix:fragment', g, range(1, len(g)), delimited=False))
    return out


def fix_big_valid(rng, ver, fields, text_tag, n_text):
    """a well-formed frame whose BodyLength exceeds 64 KiB: `text_tag`=<n_text times one character> appended to `fields`"""
    ch = rng.choice([b'z', b'7'])
    head = b''.join(str(t).encode() + b'=' + (v if isinstance(v, bytes) else str(v).encode()) + SOH for t, v in fields)
    rest_len = len(head) + len(str(text_tag)) + 1 + n_text + 1
    pre = b'8=' + ver + SOH + b'9=' + str(rest_len).encode() + SOH + head + str(text_tag).encode() + b'='
    csum = (sum(pre) + ch[0] * n_text + 1) % 256
    parts = [lit(pre), ['fill', ch.hex(), n_text], lit(SOH + b'10=' + (b'%03d' % csum) + SOH)]
    total = len(pre) + n_text + 8
    return _mk('fix:big-valid', None, (len(pre), 65535, 65536, 65537, total - 8, total - 1), parts=parts)


MIB = 1 << 20
HUGE_SIZES_QUICK = [5 * MIB, 6 * MIB + 12345, 8 * MIB]                   # larger than any plausible bound on a receive buffer (1, 2, 4 MiB)
HUGE_SIZES = [MIB + MIB // 2, 3 * MIB, 5 * MIB, 8 * MIB, 12 * MIB, 17 * MIB]


def fix_huge(rng, ver, fields, text_tag, total, known):
    """ONE length-consistent FIX frame of about `total` bytes (several MiB) that really arrives: `text_tag`=<one character, repeated>
    appended to `fields` (first pair 35=<type>; `known`: the caller says whether that type is in its dictionary).  Nothing about it is
    malformed except its size (and, when not `known`, its MsgType): a reader that bounds what it buffers meets its bound here."""
    b = fix_big_valid(rng, ver, fields, text_tag, max(1, total - 120))
    b['cls'] = f'fix:huge:{total / MIB:.3g}MiB:' + ('known-msgtype' if known else 'unknown-msgtype')
    return b


def soup_backlog(rng, t, total, size=0xFFFF):
    """`total` bytes (at least) of back-to-back maximum-size data packets of type `t` (S / U / +) — legal traffic; delivered without a
    reader poll in between it is a multi-megabyte backlog in the reader's buffer (a SoupBinTCP frame alone never exceeds 64 KiB + 2)"""
    fillb = rng.choice([b'z', b'7'])
    n = -(-total // (size + 2))
    unit = [lit(size.to_bytes(2, 'big') + bytes([t])), ['fill', fillb.hex(), size - 1]]
    b = _mk(f'soup:backlog:{total / MIB:.3g}MiB', b'', (), parts=[['repp', unit, n]])
    b['len'] = b['wants'] = n * (size + 2)
    b['unit'] = size + 2
    return b


def fix_garbage(rng):
    g = rng.randbytes(rng.randint(1, 60))
    if rng.random() < 0.5:
        g = bytes(rng.choice(b'0123456789=\x01\x0135=89-') for _ in range(rng.randint(1, 60)))
    return _mk('fix:garbage', g, range(1, min(len(g), 8)), delimited=False)


def fix_hb_burst(rng, ver, hb_fields, total):
    hb = fix_good(ver, hb_fields)
    n = -(-total // len(hb))
    return _mk('fix:heartbeat-burst', None, (), parts=[['rep', hb.hex(), n]])


# ====================================================================== application payloads (ITCH / OUCH / SQF inside SequencedData)
# layout of the applications defined in sess_hostile.app_libs: indicator byte | body
#   1 Num: n (8, big endian)      2 Txt: n (8) | s: len (2, little endian, SIGNED) + bytes | m (8)
#   3 Arr: n (8) | a: count (2, big endian, signed) + count x short | t: count (2, BE) + count x (len (2, LE) + bytes)
#   4 Fxd: n (8) | f: 4 bytes
HOSTILE_N = 4242424242          # the number hostile application messages carry (never a numbered valid message)


def _i16le(v):
    return int(v).to_bytes(2, 'little', signed=True)


def _i16be(v):
    return int(v).to_bytes(2, 'big', signed=True)


def app_malformed(rng):
    """malformed / extreme application payloads, each inside one well-formed SequencedData packet.  -> frames as for soup_malformed"""
    n8 = HOSTILE_N.to_bytes(8, 'big')
    m8 = (7).to_bytes(8, 'big')
    txt = lambda ln, body=b'': b'\x02' + n8 + _i16le(ln) + body + m8
    arr = lambda ca, items, ct, strs: b'\x03' + n8 + _i16be(ca) + items + _i16be(ct) + strs
    good = {'num': b'\x01' + n8, 'txt': txt(3, b'abc'), 'arr': arr(2, b'\x00\x01\x00\x02', 1, _i16le(2) + b'xy'), 'fxd': b'\x04' + n8 + b'abcd'}
    out = []

    def add(cls, payload):
        pk = soup_pkt(b'S', payload)
        out.append(_mk('app:' + cls, pk, (1, 2, 3, 4, len(pk) - 1)))
    for ind in rng.sample([0, 5, 9, 0x30, 0x63, 0x7f, 0x80, 0xff], 3):
        add('unknown-indicator', bytes([ind]) + rng.randbytes(rng.choice([0, 1, 8, 20])))
    add('empty-payload', b'')
    for k, g in good.items():
        for cut in sorted({0, 1, rng.randrange(1, len(g)), len(g) - 1}):
            if 0 < cut < len(g):
                add('truncated:' + k, g[:cut])
        add('trailing-bytes:' + k, g + rng.choice([b'\x00', b'\x01', g, rng.randbytes(5)]))
        add('batch:' + k, g + good['num'])                       # two messages back to back in one packet
        add('well-formed:' + k, g)                               # for contrast: a decodable message of every kind
    # variable-length string: signed 16-bit length — negative (consumed total 0, negative, = -payload), zero, beyond the payload, maximal
    body_after = len(m8)
    for ln in (-1, -2, -3, -(2 + 8 + 1), -(2 + 8 + 1 + body_after), -(2 + 8 + 1 + body_after + 3), -100, -32768, 0, 1, 4, 5, 200, 32767):
        add('string-length:' + ('negative' if ln < 0 else 'zero' if ln == 0 else 'beyond' if ln > 3 else 'short'), txt(ln, b'abc'))
    add('string-length:negative-alone', b'\x02' + n8 + _i16le(-3))
    add('string-length:negative-consumes-nothing', b'\x02' + _i16le(-3)[:0] + b'\xfd\xff')       # the seed of C07h: type, then length -3
    add('string-nonascii', txt(3, b'\xff\xfe\xc3'))
    add('fixed-string-nonascii', b'\x04' + n8 + b'\xff\xfe\x00\x80')
    # arrays: count negative / zero / larger than what follows / maximal; strings inside arrays with negative lengths
    for ca in (-1, -32768, 0, 1, 3, 1000, 32767):
        add('array-count:' + ('negative' if ca < 0 else 'zero' if ca == 0 else 'beyond'), arr(ca, b'\x00\x01', 0, b''))
    for ct in (-1, 0, 2, 32767):
        add('string-array-count:' + ('negative' if ct < 0 else 'zero' if ct == 0 else 'beyond'), arr(1, b'\x00\x01', ct, _i16le(1) + b'x'))
    for ln in (-1, -3, -32768, 32767):
        add('string-in-array-length:' + ('negative' if ln < 0 else 'beyond'), arr(0, b'', 2, _i16le(ln) + b'ab' + _i16le(1) + b'c'))
    add('garbage', rng.randbytes(rng.randint(1, 30)))
    return out
