"""C04 — session machine check (see harness/sess_checks.py, Model/Session.lean, Props/C04.lean)."""
import sess_checks

DRIVER = 'drv_C05'
LEAN_TARGETS = ['NasdaqModel.Props.C04', 'drv_C05']


def run(ctx):
    sess_checks.run_family(ctx, 'C04')


def replay(ctx, path):
    sess_checks.replay_family(ctx, 'C04', path)
