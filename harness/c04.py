"""C04 — session machine check (see harness/sess_checks.py, Model/Session.lean, Props/C04.lean), plus
receive backlogs of 100 KiB and more (harness/c04_burst.py) and application sessions over rich message schemas (harness/app_schema.py)."""
import json
import time

import sess_checks

DRIVER = 'drv_C05'
LEAN_TARGETS = ['NasdaqModel.Props.C04', 'drv_C05']


def run(ctx):
    t0 = time.time()
    sess_checks.run_family(ctx, 'C04')
    import app_schema
    import c04_burst
    t1 = time.time()
    app_schema.run(ctx, 'C04')
    t2 = time.time()
    c04_burst.run(ctx)
    ctx.cov['wall_s_parts'] = {'session-family': round(t1 - t0, 2), 'rich-schema': round(t2 - t1, 2), 'bursts': round(time.time() - t2, 2)}
    ctx.cov['rule'] += ('; application-session scenarios also over a rich message schema (arrays of scalars / of records, embedded, nested and '
                        'optional records, empty and non-empty); receive backlogs of 100 - 400 KiB per consumer kind (oracle only)')


def replay(ctx, path):
    r = json.load(open(path))
    rep = r.get('replay') or (r.get('no_longer_checks') or [{}])[-1].get('case') or r
    if 'burst_scenario' in rep:
        import c04_burst
        c04_burst.replay(ctx, rep)
    elif 'app_schema' in rep:
        import app_schema
        app_schema.replay(ctx, 'C04', rep)
    else:
        sess_checks.replay_family(ctx, 'C04', path)
