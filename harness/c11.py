"""C11 — session machine check (see harness/sess_checks.py, Model/Session.lean, Props/C11.lean, Props/C11Trace.lean) and the
connector scenarios of harness/login_app.py."""
import json

import sess_checks

DRIVER = 'drv_C05'
LEAN_TARGETS = ['NasdaqModel.Props.C11', 'drv_C05']


def run(ctx):
    sess_checks.run_family(ctx, 'C11')


def replay(ctx, path):
    r = json.load(open(path))
    rep = r.get('replay') or (r.get('no_longer_checks') or [{}])[-1].get('case') or r
    if isinstance(rep, dict) and 'login_app' in rep:
        import login_app
        login_app.replay(ctx, rep)
        return
    sess_checks.replay_family(ctx, 'C11', path)
