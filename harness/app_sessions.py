"""Application-session layer (ITCH / OUCH / SQF / ASN.1 client sessions on top of a SoupBinTCP client session).

Every scenario is run on the real classes under virtual time with every task step logged, and

* the step log is replayed through the Lean product machine `Model/AppSession.lean` (inner session machine x application layer:
  second queue, its dispatcher `D2` and receive helper `V2`, the close event, `_on_soup_message`, `_on_soup_close`) with the
  driver op `app.run`: per event the model says whether the event was enabled, which observables it predicts (inner and
  application callbacks, results of `app.close()` / `receive_message()` / soup calls, writes, transport close), which tasks are
  runnable / alive afterwards and the flags (`is_closed()`, `app.closed`, queue stopped, close event, queue length, dispatcher set);
* the property oracles (C04 / C05 / C06) are evaluated on the implementation's behaviour alone.

Task roles: R D L M C V U<i> are the soup session's (as in sess_common), D2 = the application queue's dispatcher (task name
`<kind>-<soup id>-dispatcher`), V2 = the `Queue.get` helper of the application queue, W<i> = user tasks calling the application session.
"""
import asyncio
import asyncio.tasks as _tasks
import os
import random
import sys
import tempfile

from common import err_name, sx, parse_sx
from vloop import VirtualLoop, FakeTransport
import sess_common as SC

KINDS = ['itch', 'ouch', 'sqf', 'asn1']
SLEEP_STEP = 0.00015      # one timer of a sleeping callback: a bit more than a reader poll
# model variant, PINNED to the repaired code (/repo 7eb8348): `_on_soup_close` sets `closed = True` before `await self._message_queue.stop()`.
# The old order (after it, up to commit 35c133f) remains in the model as `closedFirst := false`, the subject of
# Witness.C05AppOld.C05AppOld_witness_cleanup_close_deadlock; reverting the fix is a correspondence failure (flags) and an oracle violation.
CLOSED_FIRST = bool(int(os.environ.get('VERIF_APP_CLOSED_FIRST', '1')))
# message callbacks whose cancellation clean-up awaits app.close() (fixes/C05-app-close-in-cancel-cleanup.md)
GEN_CLOSE_ON_CANCEL = True
FALSY = 0            # token of the falsy value `{}` an ASN.1 decode error yields
INVENTED = 999999    # token of an object handed to the consumer that is not a decoded application message at all
_DEFS = {}
_ASN1_OK = None


def asn1_available():
    global _ASN1_OK
    if _ASN1_OK is None:
        try:
            import asn1tools  # noqa
            from nasdaq_protocols import asn1_app  # noqa
            _ASN1_OK = True
        except Exception:   # noqa
            _ASN1_OK = False
    return _ASN1_OK


def _wrap_session(base_cls, **class_kw):
    """observation only: the callbacks the application session installs on the soup session"""

    class Session(base_cls, **class_kw):
        async def _on_soup_message(self, message):
            rec = REC
            n = inner_token(message)
            if rec is not None:
                rec.obs.append(['imsgEnter', n])
            try:
                await super()._on_soup_message(message)
            except asyncio.CancelledError:
                if rec is not None:
                    rec.obs.append(['imsgAbandon', n])
                raise
            except Exception:   # noqa
                if rec is not None:
                    rec.obs.append(['imsgRaise', n])
                raise
            if rec is not None:
                rec.obs.append(['imsgExit', n])

        async def _on_soup_close(self):
            rec = REC
            if rec is not None:
                rec.obs.append('icbEnter')
            await super()._on_soup_close()
            if rec is not None:
                rec.obs.append('icbExit')
    return Session


def app_defs(kind):
    """one tiny application per protocol, written the way the code generator writes it; defined once per process (registries are
    global).  -> (session class, payload(n) -> bytes of a decodable message carrying n, token(decoded message) -> int)"""
    if kind in _DEFS:
        return _DEFS[kind]
    if kind == 'asn1':
        from nasdaq_protocols import asn1_app
        d = tempfile.mkdtemp(prefix='vf_asn1_')
        pkg = os.path.join(d, 'vf_asn1spec')
        os.makedirs(pkg)
        open(os.path.join(pkg, '__init__.py'), 'w').close()
        with open(os.path.join(pkg, 'vf.asn1'), 'w') as f:
            f.write('VfApp DEFINITIONS AUTOMATIC TAGS ::= BEGIN\nVfMsg ::= SEQUENCE { n INTEGER OPTIONAL }\nEND\n')
        sys.path.insert(0, d)

        class VfSpec(asn1_app.Asn1Spec, spec_name='VfAsn1App', spec_pkg_dir='vf_asn1spec'):
            pass

        class VfAsnMsg(asn1_app.Asn1Message, spec=VfSpec, pdu_name='VfMsg'):
            pass

        class Base(asn1_app.Asn1SoupClientSession, asn1_message=VfAsnMsg):
            pass

        def payload(n):
            return bytes(VfSpec.Spec.encode('VfMsg', {'n': n}))

        def token(m):
            if not isinstance(m, dict):
                return INVENTED
            return m['n'] if m else FALSY      # `{}`: a decode error, or the valid pdu `30 00` (all-OPTIONAL SEQUENCE, nothing present)
        _DEFS[kind] = (_wrap_session(Base, asn1_message=VfAsnMsg), payload, token)
        return _DEFS[kind]
    from nasdaq_protocols.common import Record, Field, LongBE
    from nasdaq_protocols import itch, ouch, sqf
    impl = {'itch': itch, 'ouch': ouch, 'sqf': sqf}[kind]
    app = 'vf_' + kind

    class Base(impl.Message, app_name=app):
        def __init_subclass__(cls, **kwargs):
            kwargs['app_name'] = app
            super().__init_subclass__(**kwargs)

    extra = {} if kind == 'itch' else {'direction': 'outgoing'}

    class VfMsg(Base, indicator=7, **extra):
        class BodyRecord(Record):
            Fields = [Field('n', LongBE)]

    class Sess0(impl.ClientSession):
        @classmethod
        def decode(cls, bytes_):
            return Base.from_bytes(bytes_)

    def payload(n):
        m = VfMsg()
        m.n = n
        return m.to_bytes()[1]

    def token(m):
        return m.n if isinstance(m, VfMsg) else INVENTED      # anything else was never sent as an application message
    cls = _wrap_session(Sess0)
    cls.VfMsg = VfMsg
    _DEFS[kind] = (cls, payload, token)
    return _DEFS[kind]


BAD_PREFIX = b'\xff\xfe'      # not a known message indicator / not BER: the application decode fails
EMPTY_PREFIX = b'\x30\x00\xee'  # ASN.1 only: the valid pdu `30 00` (decodes to the falsy value `{}`); trailing bytes are ignored


def bad_payload(n):
    return BAD_PREFIX + n.to_bytes(8, 'big')


def empty_payload(n):
    return EMPTY_PREFIX + n.to_bytes(8, 'big')


def inner_token(msg):
    """the token of a soup message handed to `_on_soup_message`"""
    from nasdaq_protocols import soup
    if isinstance(msg, soup.LoginAccepted):
        return 0
    try:
        if isinstance(msg, soup.Debug):
            return int(msg.msg)
        if isinstance(msg, (soup.SequencedData, soup.UnSequencedData)):
            data = bytes(msg.data)
            if data.startswith(BAD_PREFIX):
                return int.from_bytes(data[2:10], 'big')
            if data.startswith(EMPTY_PREFIX):
                return int.from_bytes(data[3:11], 'big')
            return CUR['tok_of_payload'](data)
    except Exception:   # noqa
        return -2
    return -1


CUR = {}
REC = None


# ------------------------------------------------------------------ step logging
class AppRec:
    def __init__(self, loop):
        self.loop = loop
        self.obs = []
        self.log = []          # (event, [obs], snapshot)
        self.roles = {}
        self.soup = None
        self.app = None
        self.kind = None

    def role_of(self, task):
        r = self.roles.get(id(task))
        if r is not None:
            return r
        name = task.get_name()
        coro = task.get_coro()
        qn = getattr(coro, '__qualname__', '')
        if name.startswith('reader:'):
            r = 'R'
        elif name.endswith('-dispatcher'):
            r = 'D2' if name.startswith(self.kind + '-') else 'D'
        elif name.endswith('local-monitor-monitor'):
            r = 'L'
        elif name.endswith('remote-monitor-monitor'):
            r = 'M'
        elif name.startswith('asyncsession-close:'):
            r = 'C'
        elif qn == 'Queue.get':
            q = None
            try:
                q = coro.cr_frame.f_locals.get('self')
            except Exception:   # noqa
                pass
            app_q = getattr(getattr(self.app, '_message_queue', None), '_msg_queue', None) if self.app is not None else None
            r = 'V2' if (q is not None and q is app_q) else 'V'
        elif name[:1] in ('U', 'W') and name[1:].isdigit():
            r = name
        else:
            r = ''
        self.roles[id(task)] = r
        return r

    def _blocking_futures(self):
        """futures a task may be suspended on that are *not* timers: queue getters and event waiters"""
        out = []
        try:
            out += list(self.soup._msg_queue._msg_queue._getters)
        except Exception:   # noqa
            pass
        if self.app is not None:
            try:
                out += list(self.app._message_queue._msg_queue._getters)
            except Exception:   # noqa
                pass
            ev = getattr(self.app, '_close_event', None)
            if ev is not None:
                out += list(getattr(ev, '_waiters', []))
        return out

    def snapshot(self, current=None):
        run, alive = set(), set()
        blocking = None
        for t in self.loop.tasks_created:
            role = self.role_of(t)
            if not role or t.done():
                continue
            if getattr(t, 'first_ev', None) is not None:
                continue        # a user task that has not taken its first step: the model learns of it with that step
            alive.add(role)
            fw = getattr(t, '_fut_waiter', None)
            if fw is None or fw.done():
                run.add(role)
            elif not isinstance(fw, _tasks._PyTask):
                if blocking is None:
                    blocking = self._blocking_futures()
                if not any(fw is b for b in blocking):
                    run.add(role)      # a timer (asyncio.sleep): may fire at any time
        s, app = self.soup, self.app
        flags = [bool(s.is_closed())]
        if app is not None:
            q = app._message_queue
            ev = app._close_event
            flags += [bool(app.closed), bool(q.is_stopped()), 'none' if ev is None else ('set' if ev.is_set() else 'unset'),
                      len(getattr(q, '_unclaimed', ())) + q._msg_queue.qsize(), q._dispatcher_task is not None]
        return sorted(run), sorted(alive), flags


class LoggingTask(_tasks._PyTask):
    first_ev = None

    def _Task__step(self, exc=None):
        rec = REC
        if rec is None:
            return super()._Task__step(exc)
        role = rec.role_of(self)
        start = len(rec.obs)
        try:
            return super()._Task__step(exc)
        finally:
            if role:
                if self.first_ev is not None:
                    ev, self.first_ev = self.first_ev, None
                else:
                    ev = ['run', role]
                rec.log.append((ev, rec.obs[start:], rec.snapshot()))


def _factory(loop, coro, **kw):
    t = LoggingTask(coro, loop=loop, **kw)
    loop.tasks_created.append(t)
    return t


# ------------------------------------------------------------------ running one scenario on the implementation
def norm_scenario(sc):
    sc = dict(sc)
    sc.setdefault('has_cb', True)
    sc.setdefault('first', [])
    sc.setdefault('hb', 0.004)
    sc.setdefault('settle', 0.05)
    return sc


def tok_frame(tok, payload):
    """script token -> (model frame, bytes).  int n: decodable application message n | ('bad', n): sequenced data the application
    cannot decode | ('empty', n): (ASN.1) a valid pdu that decodes to the falsy value `{}` | ('dbg', n): a soup Debug packet (not
    SequencedData) | 'hb' | 'eos' | 'badframe' (malformed soup frame)"""
    from nasdaq_protocols import soup
    if tok == 'hb':
        return 'hb', soup.ServerHeartbeat().to_bytes()[1]
    if tok == 'eos':
        return 'logout', soup.EndOfSession().to_bytes()[1]
    if tok == 'badframe':
        return 'bad', b'\x00\x01?'
    if isinstance(tok, int):
        return ['msg', tok], soup.SequencedData(payload(tok)).to_bytes()[1]
    if tok[0] == 'bad':
        return ['msg', tok[1]], soup.SequencedData(bad_payload(tok[1])).to_bytes()[1]
    if tok[0] == 'empty':
        return ['msg', tok[1]], soup.SequencedData(empty_payload(tok[1])).to_bytes()[1]
    if tok[0] == 'dbg':
        return ['msg', tok[1]], soup.Debug(str(tok[1])).to_bytes()[1]
    raise ValueError(tok)


def dec_table(sc):
    """the `decode` parameter of the model for this scenario: inner token -> skip | fail | (val v)"""
    tab = {0: 'skip'}
    for it in [('data', sc.get('first', []))] + list(sc['script']):
        if it[0] == 'data':
            for tok in it[1]:
                if isinstance(tok, (tuple, list)) and tok[0] == 'bad':
                    tab[tok[1]] = ['val', FALSY] if sc['kind'] == 'asn1' else 'fail'
                elif isinstance(tok, (tuple, list)) and tok[0] == 'empty':
                    tab[tok[1]] = ['val', FALSY]
                elif isinstance(tok, (tuple, list)) and tok[0] == 'dbg':
                    tab[tok[1]] = 'skip'
    return tab


def run_app_scenario(kind, mode, cb_beh, msg_beh, script, hb=0.004, settle=0.05, has_cb=True, first=()):
    """script items: ('data', [tok..]) | ('eos',) peer end of session | ('eof',) | ('close', u) app.close() by W<u> |
    ('recv', u) app.receive_message() by W<u> | ('cancel', u) cancel W<u> | ('sclose', u) soup_session.close() by U<u> |
    ('scancel', u) cancel U<u> | ('iclose',) soup_session.initiate_close() | ('logout',) | ('send',) | ('hb',) |
    ('turns', k) | ('advance', dt).  mode: 'pull' | 'callback'.
    cb_beh / msg_beh[n]: 'ret' | ('await', k) | 'close' (await app.close()) | 'raise' (message callback only).
    `first`: tokens sent in the same segment as the login acceptance."""
    global REC
    from nasdaq_protocols import soup
    sess_cls, payload, token = app_defs(kind)
    loop = VirtualLoop()
    loop.set_task_factory(_factory)
    rec = AppRec(loop)
    rec.kind = kind
    out = {}
    holder = {'app': None}

    def payload_token(data):
        return token(sess_cls.decode(data)[1])
    CUR['tok_of_payload'] = payload_token

    class T(FakeTransport):
        def write(tself, data):
            FakeTransport.write(tself, data)
            rec.obs.append(['w', SC.classify_write(data)])

        def close(tself):
            FakeTransport.close(tself)
            rec.obs.append('tclose')

    class Client(soup.SoupClientSession):
        """observation only: which message `login()` consumed as its reply"""
        in_login = False

        async def login(self, msg):
            Client.in_login = True
            try:
                return await super().login(msg)
            finally:
                Client.in_login = False

        async def receive_msg(self):
            was_login = Client.in_login
            m = await super().receive_msg()
            if was_login:
                Client.in_login = False
                rec.obs.append(['loginReply', inner_token(m)])
            return m

    async def do_close(app, who):
        try:
            await app.close()
            rec.obs.append(who + ['ok'])
        except asyncio.CancelledError:
            rec.obs.append(who + ['cancelled'])
            raise
        except Exception as e:   # noqa
            rec.obs.append(who + [err_name(e)])

    async def beh(b, app, who):
        # ('await', k) / ('cc', k): k+1 loop turns; ('sleep', k) / ('ccsleep', k): k+1 timers of SLEEP_STEP seconds (the model does not
        # distinguish a turn from a timer: both are `await k`), so that other events can land while the callback is in flight
        if isinstance(b, (tuple, list)) and b[0] in ('cc', 'ccsleep'):
            # awaits; if cancelled meanwhile, its clean-up closes the session before letting the cancellation through
            try:
                for _ in range(b[1] + 1):
                    await asyncio.sleep(0 if b[0] == 'cc' else SLEEP_STEP)
            except asyncio.CancelledError:
                await do_close(app, who)
                raise
        elif isinstance(b, (tuple, list)) and b[0] in ('await_close', 'sleep_close'):
            # works for a while, then closes the session from inside the callback (more messages may be queued behind it by then)
            for _ in range(b[1] + 1):
                await asyncio.sleep(0 if b[0] == 'await_close' else SLEEP_STEP)
            await do_close(app, who)
        elif isinstance(b, (tuple, list)):
            for _ in range(b[1] + 1):
                await asyncio.sleep(0 if b[0] == 'await' else SLEEP_STEP)
        elif b == 'close':
            await do_close(app, who)
        elif b == 'close2':
            # closes twice in a row (not a behaviour of the Lean model: such scenarios go to the oracle only)
            await do_close(app, who)
            await do_close(app, who)
        elif b == 'raise':
            raise RuntimeError('handler failure (scripted)')

    async def on_msg(m):
        v = token(m)
        rec.obs.append(['msgEnter', v])
        try:
            await beh(msg_beh.get(v, 'ret'), holder['app'], ['hclose', v])
        except asyncio.CancelledError:
            rec.obs.append(['msgAbandon', v])
            raise
        except RuntimeError:
            rec.obs.append(['msgRaise', v])
            raise
        rec.obs.append(['msgExit', v])

    async def on_close():
        rec.obs.append('cbEnter')
        await beh(cb_beh, holder['app'], ['cbclose'])
        rec.obs.append('cbExit')

    def ext(ev, fn):
        start = len(rec.obs)
        try:
            fn()
        except Exception as e:   # noqa  (a raising synchronous API call is an observation)
            rec.obs.append(['raised', err_name(e)])
        rec.log.append((ev, rec.obs[start:], rec.snapshot()))

    def data_item(toks):
        frames, buf = [], b''
        for tok in toks:
            f, b = tok_frame(tok, payload)
            frames.append(f)
            buf += b
        return ['data'] + frames, buf

    async def main():
        s = rec.soup = Client(client_heartbeat_interval=hb, server_heartbeat_interval=hb)
        tr = T()
        ext('connect', lambda: s.connection_made(tr))

        async def login_and_build():
            # what `<kind>.connect_async` does: log in, then construct the application session in the same step
            try:
                await s.login(soup.LoginRequest('u', 'p', 's', '1'))
            except asyncio.CancelledError:
                rec.obs.append(['ret', 1, 'cancelled'])
                raise
            except Exception as e:   # noqa
                rec.obs.append(['ret', 1, 'refused' if err_name(e) in ('eoq', 'refused') else err_name(e)])
                return
            rec.obs.append(['ret', 1, 'ok'])
            try:
                rec.app = holder['app'] = sess_cls(s, on_msg_coro=on_msg if mode == 'callback' else None,
                                                   on_close_coro=on_close if has_cb else None)
            except Exception as e:   # noqa
                rec.obs.append(['raised', err_name(e)])
        t = loop.create_task(login_and_build(), name='U1')
        t.first_ev = ['login', 1]
        await asyncio.sleep(0)
        acc = soup.LoginAccepted('s', 1).to_bytes()[1]
        ev2, buf2 = data_item(list(first))
        ext(['data', ['msg', 0]] + ev2[1:], lambda: s.data_received(acc + buf2))
        await t
        users = {}

        async def call(u, what):
            app = holder['app']
            try:
                if what == 'close':
                    await app.close()
                    r = 'ok'
                elif what == 'sclose':
                    await s.close()
                    r = 'ok'
                else:
                    m = await app.receive_message()
                    r = ['msg', token(m)]
            except asyncio.CancelledError:
                r = 'cancelled'
            except Exception as e:   # noqa
                r = err_name(e)
            rec.obs.append([{'sclose': 'ret', 'close': 'cret'}.get(what, 'aret'), u, r])

        for it in script:
            k = it[0]
            app = holder['app']
            if k == 'data':
                ev, buf = data_item(it[1])
                ext(ev, lambda: s.data_received(buf))
            elif k == 'hb':
                ext(['data', 'hb'], lambda: s.data_received(soup.ServerHeartbeat().to_bytes()[1]))
            elif k == 'eos':
                ext(['data', 'logout'], lambda: s.data_received(soup.EndOfSession().to_bytes()[1]))
            elif k == 'eof':
                ext('eof', lambda: s.connection_lost(None))
            elif k == 'iclose':
                ext('iclose', s.initiate_close)
            elif k == 'logout':
                ext('logout', s.logout)
            elif k == 'send':
                if app is not None and hasattr(app, 'send_message') and hasattr(type(app), 'VfMsg'):
                    def snd():
                        m = type(app).VfMsg()
                        m.n = 1
                        app.send_message(m)
                    ext('send', snd)
                else:
                    ext('send', lambda: s.send_debug('x'))
            elif k in ('close', 'recv'):
                if app is None:
                    continue
                if k == 'recv' and any(kk == 'recv' and not t_.done() for t_, kk in users.values()):
                    continue          # one receive at a time (two concurrent receives are API misuse, outside the model)
                t_ = loop.create_task(call(it[1], k), name=f'W{it[1]}')
                t_.first_ev = ['aclose' if k == 'close' else 'arecv', it[1]]
                users[('W', it[1])] = (t_, k)
            elif k == 'sclose':
                t_ = loop.create_task(call(it[1], k), name=f'U{it[1]}')
                t_.first_ev = ['close', it[1]]
                users[('U', it[1])] = (t_, k)
            elif k in ('cancel', 'scancel'):
                key = ('W' if k == 'cancel' else 'U', it[1])
                if key not in users or users[key][0].done():
                    continue
                if users[key][0].first_ev is not None:
                    await asyncio.sleep(0)          # let the call start before it is cancelled
                    if users[key][0].done():
                        continue
                ext(['acancel' if k == 'cancel' else 'cancel', it[1]], users[key][0].cancel)
            elif k == 'turns':
                for _ in range(it[1]):
                    await asyncio.sleep(0)
            elif k == 'advance':
                await asyncio.sleep(it[1])
            else:
                raise ValueError(k)
        await asyncio.sleep(settle)
        me = asyncio.current_task()
        app = holder['app']
        out['built'] = app is not None
        out['soup_closed'] = s.is_closed()
        out['app_closed'] = bool(app.closed) if app is not None else None
        out['tcloses'] = len(tr.closes)
        out['pending'] = sorted(u for (w, u), (t_, k) in users.items() if not t_.done() and w == 'W')
        out['pending_kinds'] = {u: k for (w, u), (t_, k) in users.items() if not t_.done() and w == 'W'}
        out['alive'] = sorted((rec.role_of(t_) or t_.get_name()) for t_ in loop.tasks_created if not t_.done() and t_ is not me
                              and not any(t_ is x[0] for x in users.values()))
        out['task_exceptions'] = [(rec.role_of(t_) or t_.get_name(), err_name(t_.exception())) for t_ in loop.tasks_created
                                  if t_.done() and not t_.cancelled() and t_ is not me and t_.exception() is not None]
        q1, q2 = [], []
        try:
            # what the next reader finds, in order: the stash of a late-cancelled receive (`_unclaimed`, read first), then the queue
            q1 = [inner_token(m) for m in list(getattr(s._msg_queue, '_unclaimed', ())) + list(s._msg_queue._msg_queue._queue)]
            if app is not None:
                q2 = [token(m) for m in list(getattr(app._message_queue, '_unclaimed', ())) + list(app._message_queue._msg_queue._queue)]
        except Exception:   # noqa
            q1 = q2 = None
        out['q1'], out['q2'] = q1, q2

    c_task = asyncio.Task
    asyncio.Task = _tasks._PyTask        # the library tests `isinstance(task, asyncio.Task)`; our step-logging tasks are pure-python tasks
    REC = rec
    try:
        loop.run(main())
    finally:
        asyncio.Task = c_task
        REC = None
        out['loop_exceptions'] = [str(c.get('message')) for c in loop.loop_exceptions]
        loop.shutdown()
    out['log'] = rec.log
    # the flat observation list the oracles read (application level, old format)
    obs = []
    for _, os_, _ in rec.log:
        for o in os_:
            if o in ('cbEnter', 'cbExit'):
                obs.append(o)
            elif isinstance(o, list) and o[0] in ('msgEnter', 'msgExit', 'msgAbandon', 'msgRaise'):
                obs.append((o[0], o[1]))
            elif isinstance(o, list) and o[0] in ('aret', 'cret'):
                obs.append(('ret', o[1], tuple(o[2]) if isinstance(o[2], list) else o[2]))
            elif isinstance(o, list) and o[0] in ('hclose', 'cbclose'):
                obs.append(('inner-close', o[-1]))
            elif isinstance(o, list) and o[0] == 'raised':
                obs.append(('raised', o[1]))
    out['obs'] = obs
    return out


def run_sc(sc):
    sc = norm_scenario(sc)
    return run_app_scenario(sc['kind'], sc['mode'], sc['cb_beh'], sc['msg_beh'], sc['script'], hb=sc['hb'], settle=sc['settle'],
                            has_cb=sc['has_cb'], first=sc['first'])


# ------------------------------------------------------------------ model side
def beh_sx(b):
    if isinstance(b, (tuple, list)):
        return [{'cc': 'awaitcc', 'ccsleep': 'awaitcc', 'await_close': 'awaitclose', 'sleep_close': 'awaitclose'}.get(b[0], 'await'), b[1]]
    return b


def acfg_sx(sc):
    sc = norm_scenario(sc)
    dec = [[n, d] for n, d in sorted(dec_table(sc).items())]
    mb = [[n, beh_sx(b)] for n, b in sorted(sc['msg_beh'].items())]
    return ['acfg', ['dec', 'id'] + dec, sc['mode'] == 'callback', ['msgbeh', 'ret'] + mb, bool(sc['has_cb']), beh_sx(sc['cb_beh']),
            CLOSED_FIRST]


def oracle_only(sc):
    """scenarios with a callback behaviour the Lean model does not have (`close2`: close() twice in a row): property oracle only"""
    return sc['cb_beh'] == 'close2' or any(b == 'close2' for b in sc['msg_beh'].values())


def model_request(sc, log):
    if oracle_only(sc):
        sc = dict(sc, cb_beh='close' if sc['cb_beh'] == 'close2' else sc['cb_beh'],
                  msg_beh={k: ('close' if b == 'close2' else b) for k, b in sc['msg_beh'].items()})
    return 'app.run ' + sx(acfg_sx(sc)) + ' ' + ' '.join(sx(ev) for ev, _, _ in log)


HARNESS_ONLY = ()


def compare(sc, out, ans):
    """-> list of disagreement strings (empty = model and implementation agree on this run)"""
    parts = parse_sx(ans)
    per_ev, final = parts[:-1], {k[0]: k[1:] for k in parts[-1][1:]}
    log = out['log']
    if len(per_ev) != len(log):
        return [f'model answered {len(per_ev)} events for {len(log)}']
    for i, ((ev, obs, snap), m) in enumerate(zip(log, per_ev)):
        evs = sx(ev)
        if m == 'disabled':
            return [f'event #{i} {evs}: the implementation ran a step the model considers impossible']
        md = {k[0]: k[1:] for k in m}
        got = [parse_sx(sx(o))[0] for o in obs if not (isinstance(o, list) and o[0] in HARNESS_ONLY)]
        if got != md['o']:
            return [f'event #{i} {evs}: implementation produced {sx(got) if got else "()"}, model predicts {sx(md["o"]) if md["o"] else "()"}']
        run, alive, flags = snap
        if sorted(md['r']) != run:
            return [f'event #{i} {evs}: runnable tasks afterwards: implementation {run}, model {sorted(md["r"])}']
        if sorted(md['a']) != alive:
            return [f'event #{i} {evs}: tasks alive afterwards: implementation {alive}, model {sorted(md["a"])}']
        fl = [parse_sx(sx(x))[0] for x in flags]
        if fl != md['f']:
            return [f'event #{i} {evs}: flags (soup closed, app closed, queue stopped, close event, queue length, dispatcher set): '
                    f'implementation {fl}, model {md["f"]}']
    if out.get('q1') is not None and [str(x) for x in out['q1']] != list(final.get('q1', [])):
        return [f'soup queue at the end: implementation {out["q1"]}, model {final.get("q1")}']
    if out.get('q2') is not None and out['built'] and [str(x) for x in out['q2']] != list(final.get('q2', [])):
        return [f'application queue at the end: implementation {out["q2"]}, model {final.get("q2")}']
    return []


# ------------------------------------------------------------------ generator
CB_BEHS = ['ret', ('await', 0), ('await', 2), 'close', 'ret', ('sleep', 1)]
MSG_BEHS = [('await', 0), ('await', 1), ('await', 3), 'close', 'close', 'raise', ('sleep', 0), ('sleep', 2), ('sleep', 5),
            ('await_close', 1), ('sleep_close', 1), ('sleep_close', 3)]
CC_BEHS = [('cc', 1), ('ccsleep', 1), ('ccsleep', 4), ('ccsleep', 8)]


def gen_template(rng, kind):
    """dense versions of the interleavings that matter most (the random mix reaches them too, but rarely)"""
    t = rng.choice(['burst-close', 'burst-close', 'race', 'race', 'blocked-recv', 'cancel-closer', 'inflight', 'inflight', 'two-closers',
                    'leftovers', 'late-cancel', 'late-cancel'])
    turns = lambda a, b: ('turns', rng.randint(a, b))
    tick = lambda: ('advance', rng.choice([0.0001, 0.0001, 0.0002, 0.0003]))
    trigger = lambda u: rng.choice([('close', u), ('close', u), ('eos',), ('eof',), ('sclose', u), ('iclose',), ('logout',)])
    sc = dict(kind=kind, mode='callback', cb_beh=rng.choice(CB_BEHS), has_cb=rng.random() < 0.9, msg_beh={}, script=[], first=[])
    if t == 'burst-close':
        # a burst in one segment; one of the first callbacks closes the session while the others are queued behind it
        k = rng.randint(2, 5)
        closer = rng.randint(1, 2)
        sc['msg_beh'][closer] = rng.choice(['close', ('sleep_close', 1), ('sleep_close', 2), ('sleep_close', 4), ('sleep', 0), ('ccsleep', 1),
                                            ('await_close', 2), 'close'])
        if rng.random() < 0.4:
            sc['msg_beh'][closer + 1] = rng.choice(MSG_BEHS)
        sc['script'] = [('data', list(range(1, k + 1))), tick()]
        b = sc['msg_beh'][closer]
        if isinstance(b, tuple) and b[0] in ('sleep', 'ccsleep'):
            sc['script'] += [trigger(2)]            # the callback does not close by itself: something else does
        sc['script'] += [turns(0, 3)] + ([trigger(3)] if rng.random() < 0.4 else [])
    elif t == 'race':
        # two or three close triggers 0..3 loop turns apart, data in between
        sc['mode'] = rng.choice(['pull', 'callback'])
        trig = [trigger(2), trigger(3)] + ([trigger(4)] if rng.random() < 0.3 else [])
        sc['script'] = ([('data', [1, 2]), tick()] if rng.random() < 0.5 else [])
        for i, x in enumerate(trig):
            sc['script'] += [x, turns(0, 3)]
            if rng.random() < 0.3:
                sc['script'] += [('data', [10 + i])]
    elif t == 'blocked-recv':
        # pull mode: receive_message() blocked when the session ends
        sc['mode'] = 'pull'
        sc['script'] = [('recv', 2), turns(0, 3)] + ([('data', [1]), tick(), ('recv', 3), turns(0, 2)] if rng.random() < 0.4 else [])
        sc['script'] += [trigger(4), turns(0, 4)] + ([('cancel', 2)] if rng.random() < 0.3 else [])
    elif t == 'cancel-closer':
        # the caller of close() / soup close() is cancelled while it is blocked
        sc['msg_beh'][1] = rng.choice([('sleep', 3), ('ccsleep', 3), 'ret'])
        what = rng.choice(['close', 'sclose'])
        sc['script'] = [('data', [1, 2]), tick(), (what, 2), turns(0, 6), ('cancel' if what == 'close' else 'scancel', 2), turns(0, 3),
                        ('close', 3)]
        sc['cb_beh'] = rng.choice([('await', 2), ('sleep', 1), 'ret', 'close'])
    elif t == 'inflight':
        # a (sleeping) message callback is in flight when the session ends
        sc['msg_beh'][1] = rng.choice([('sleep', 4), ('sleep', 8), ('ccsleep', 4), ('ccsleep', 8)])
        if rng.random() < 0.5:
            sc['msg_beh'][2] = rng.choice(MSG_BEHS + CC_BEHS)
        sc['script'] = [('data', [1, 2, 3]), tick(), trigger(2), turns(0, 3)] + ([trigger(3)] if rng.random() < 0.5 else [])
    elif t == 'late-cancel':
        # pull mode: receive_message() is cancelled in the one-turn window after its helper task took the value off the application
        # queue (the former finding C04-late-cancel-loses-message on the second queue).  Right after login, `advance 0.0001` (one
        # reader poll) followed by two loop turns is that window: soup dispatcher -> _on_soup_message -> put -> helper -> caller.
        # What follows must see the held value first: the next receive_message(), a second late cancel, a close in the same turns.
        sc['mode'] = 'pull'
        k = rng.randint(1, 3)
        f = rng.choice(['recv', 'recv', 'twice', 'stop', 'leave'])
        sc['script'] = [('recv', 2), ('turns', 3), ('data', list(range(1, k + 1))), ('advance', 0.0001)]
        if f == 'stop':
            a = rng.randint(0, 2)
            sc['script'] += [('turns', a), trigger(9), ('turns', 2 - a)]
        else:
            sc['script'] += [('turns', rng.choice([2, 2, 2, 2, 2, 1, 3]))]
        sc['script'] += [('cancel', 2), turns(1, 4)]
        if f != 'leave':
            sc['script'] += [('recv', 3), turns(1, 3)]
        if f == 'twice':
            sc['script'] += [('advance', 0.0005), ('recv', 4), turns(1, 3), ('recv', 5), ('turns', 3), ('data', [10, 11]), ('advance', 0.0001),
                             ('turns', rng.choice([2, 2, 2, 1, 3])), ('cancel', 5), turns(1, 3), ('recv', 6), turns(1, 3)]
        elif rng.random() < 0.5:
            sc['script'] += [('advance', 0.0005), ('recv', 4), turns(1, 3)]
        if rng.random() < 0.3:
            sc['script'] += [trigger(8), turns(0, 3), ('recv', 7)]
    elif t == 'two-closers':
        sc['mode'] = rng.choice(['pull', 'callback'])
        sc['script'] = [('close', 2), turns(0, 4), ('close', 3), turns(0, 4), ('close', 4)] + ([('cancel', rng.choice([2, 3]))] if rng.random() < 0.4 else [])
    else:
        # callback mode closed from a handler with messages left behind, then pulled after the close
        sc['msg_beh'][1] = 'close'
        sc['script'] = [('data', [1, 2, 3]), tick(), ('advance', 0.02), ('recv', 2), turns(1, 2), ('recv', 3), turns(1, 2), ('recv', 4), turns(1, 2),
                        ('recv', 5)]
    if kind == 'asn1' and rng.random() < 0.5:
        # falsy decoded values in the burst
        for it in sc['script']:
            if it[0] == 'data' and len(it[1]) > 1:
                it[1][rng.randrange(len(it[1]))] = ('empty', 40 + rng.randint(0, 9))
                break
    return sc


def gen_app_scenario(rng, kinds=None):
    kinds = kinds or (KINDS if asn1_available() else KINDS[:3])
    kind = rng.choice(kinds)
    if rng.random() < 0.45:
        return gen_template(rng, kind)
    mode = rng.choice(['pull', 'callback', 'callback'])
    cb_beh = rng.choice(CB_BEHS)
    has_cb = rng.random() < 0.9
    msg_beh = {}
    script = []
    n = [1]
    users = [1]
    closes = [0]
    pending_recv = []
    closers = []
    sclosers = []
    dead = [False]

    def toks(k):
        out = []
        for _ in range(k):
            c = rng.random()
            v = n[0]
            n[0] += 1
            if c < 0.08:
                out.append(('bad', v))
            elif c < 0.2 and kind == 'asn1':
                out.append(('empty', v))
            elif c < 0.14:
                out.append(('dbg', v))
            elif c < 0.18:
                out.append('hb')
                n[0] -= 1
            else:
                out.append(v)
                if mode == 'callback' and rng.random() < 0.3:
                    msg_beh[v] = rng.choice(MSG_BEHS + (CC_BEHS if GEN_CLOSE_ON_CANCEL else []))
        return out

    def new_user():
        users[0] += 1
        return users[0]

    def gap():
        c = rng.random()
        if c < 0.4:
            return []
        if c < 0.75:
            return [('turns', rng.randint(1, 4))]
        if c < 0.95:
            return [('advance', rng.choice([0.0001, 0.0002, 0.0005, 0.001]))]
        return [('advance', 0.004 * rng.choice([0.5, 1, 2.5]))]

    first = toks(rng.randint(1, 3)) if rng.random() < 0.25 else []
    for _ in range(rng.randint(1, 7)):
        script += gap()
        c = rng.random()
        if c < 0.4 and not dead[0]:
            script.append(('data', toks(rng.randint(1, 4))))
            if rng.random() < 0.5:
                script.append(('advance', rng.choice([0.0001, 0.0001, 0.0002, 0.0003])))     # let the reader poll
        elif c < 0.5 and mode == 'pull' and not pending_recv:
            u = new_user()
            script.append(('recv', u))
            pending_recv.append(u)
        elif c < 0.56 and pending_recv:
            script.append(('cancel', pending_recv.pop()))
        elif c < 0.6:
            script.append(('send',))
        elif c < 0.64 and closers:
            script.append(('cancel', rng.choice(closers)))
        elif c < 0.67 and sclosers:
            script.append(('scancel', rng.choice(sclosers)))
        elif closes[0] < 3:
            closes[0] += 1
            k = rng.random()
            if k < 0.4:
                u = new_user()
                script.append(('close', u))
                closers.append(u)
            elif k < 0.55 and not dead[0]:
                script.append(('eos',))
                dead[0] = True
            elif k < 0.7:
                script.append(('eof',))
                dead[0] = True
            elif k < 0.78:
                u = new_user()
                script.append(('sclose', u))
                sclosers.append(u)
            elif k < 0.84:
                script.append(('iclose',))
            elif k < 0.9:
                script.append(('logout',))
            elif k < 0.94 and not dead[0]:
                script.append(('data', ['badframe']))
                dead[0] = True
            else:
                script.append(('advance', 0.004 * 2.6))
        if pending_recv and rng.random() < 0.4:
            pending_recv.pop()
    if mode == 'pull' and rng.random() < 0.3:
        # a receive after everything else (often on the closed session: leftovers first, then end-of-queue)
        script += gap() + [('recv', new_user())]
    return dict(kind=kind, mode=mode, cb_beh=cb_beh, has_cb=has_cb, msg_beh=msg_beh, script=script, first=first)


# ------------------------------------------------------------------ oracles (implementation only)
def sent_values(sc):
    """the decodable application messages carried by the bytes the peer sent, in order, up to the first end-of-session /
    malformed frame (token of the decoded value)"""
    out = []
    for it in [('data', sc.get('first', []))] + list(sc['script']):
        if it[0] in ('eos',):
            break
        if it[0] == 'data':
            stop = False
            for tok in it[1]:
                if tok in ('eos', 'badframe'):
                    stop = True
                    break
                if isinstance(tok, int):
                    out.append(tok)
                elif isinstance(tok, (tuple, list)) and tok[0] == 'bad' and sc['kind'] == 'asn1':
                    out.append(FALSY)
                elif isinstance(tok, (tuple, list)) and tok[0] == 'empty':
                    out.append(FALSY)
            if stop:
                break
    return out


def late_cancels(sc, out):
    """receive_message() calls cancelled after the helper task already held a message (the window of the former finding
    C04-late-cancel-loses-message, here on the application queue; repaired).  Counted for the evidence distribution only."""
    n = 0
    evs = [ev for ev, _, _ in out['log']]
    rets = {o[1]: o[2] for o in out['obs'] if isinstance(o, tuple) and o[0] == 'ret'}
    for ic, ev in enumerate(evs):
        if isinstance(ev, list) and ev[0] == 'acancel' and rets.get(ev[1]) in ('cancelled', 'eoq'):
            starts = [k for k, e in enumerate(evs[:ic]) if e == ['arecv', ev[1]]]
            if starts and sum(1 for e in evs[starts[-1]:ic] if e == ['run', 'V2']) >= 2:
                n += 1
    return n


def handler_closes(out):
    """the `close()` calls awaited from message callbacks in this run, classified (evidence distribution):
    carried-out = the dispatcher task carried the close of the soup session out itself (the repaired path: the step in which the
    call returned is the one in which `_on_soup_close` returned); soup-closing = past the guard, but the soup session was already
    closed or closing: returned at once; guard = returned through the guard (event exists / `closed`); in-cleanup = called from the
    cancellation clean-up of the callback; raised = ended with an exception"""
    kinds = []
    prev_flags = None
    for ev, os_, snap in out['log']:
        carried = False
        for o in os_:
            if isinstance(o, list) and o[0] == 'hclose':
                if o[-1] != 'ok':
                    kinds.append('raised')
                elif 'icbExit' in os_ and not carried:
                    carried = True
                    kinds.append('carried-out')
                elif any(isinstance(x, list) and x[0] == 'msgAbandon' and x[1] == o[1] for x in os_):
                    kinds.append('in-cleanup')
                elif prev_flags is not None and len(prev_flags) > 3 and prev_flags[3] == 'none' and not prev_flags[1]:
                    kinds.append('soup-closing')
                else:
                    kinds.append('guard')
        prev_flags = snap[2]
    # a close that is still under way at the end of the run
    return kinds


def app_oracle(sc, out, prop):
    """property statements on the application session; returns list of (message, kind)"""
    sc = norm_scenario(sc)
    v = []
    obs = out['obs']
    if not out.get('built', True):
        return v
    trig = [it for it in sc['script'] if it[0] in ('close', 'eos', 'eof', 'sclose', 'iclose', 'logout')
            or (it[0] == 'data' and any(t in ('eos', 'badframe') for t in it[1]))]
    sent = sent_values(sc)
    delivered = [o[1] for o in obs if isinstance(o, tuple) and o[0] == 'msgEnter']
    recvd = [o[2][1] for o in obs if isinstance(o, tuple) and o[0] == 'ret' and isinstance(o[2], tuple)]
    raised = [o for o in obs if isinstance(o, tuple) and o[0] == 'raised']
    if prop == 'C04':
        seen = delivered if sc['mode'] == 'callback' else recvd
        if seen != sent[:len(seen)]:
            v.append((f'application session handed {seen} to the consumer, the peer sent {sent}', 'scenario'))
        elif out.get('q2') is not None and not out['pending']:
            # conservation: every decoded payload handed to the application session is delivered or still queued (a cancelled
            # receive "consumes no message … the next receive returns the next undelivered message")
            tab = dec_table(sc)
            fed = []
            for _, os_, _ in out['log']:
                for o in os_:
                    if isinstance(o, list) and o[0] == 'imsgEnter':
                        d = tab.get(o[1], 'id')
                        if d == 'id':
                            fed.append(o[1])
                        elif isinstance(d, list):
                            fed.append(d[1])
            if seen + list(out['q2']) != fed:
                v.append((f'application session: decoded messages {fed} reached the second queue, the consumer saw {seen} and '
                          f'{out["q2"]} remained queued', 'scenario'))
        for ev, _, _ in out['log']:
            if isinstance(ev, list) and ev[0] == 'acancel':
                r = [o[2] for o in obs if isinstance(o, tuple) and o[0] == 'ret' and o[1] == ev[1]]
                recv_user = any(it == ('recv', ev[1]) for it in sc['script'])
                if recv_user and r and isinstance(r[0], tuple):
                    v.append((f'receive_message() of user {ev[1]} was cancelled while pending but returned {r[0]}', 'scenario'))
                if recv_user and r and r[0] == 'eoq' and not out['soup_closed']:
                    v.append((f'receive_message() of user {ev[1]} was cancelled on an open session but raised EndOfQueue', 'scenario'))
        return v
    if prop in ('C05', 'C06'):
        inner = [o for o in obs if isinstance(o, tuple) and o[0] == 'inner-close']
        if out['loop_exceptions'] or out['task_exceptions']:
            v.append((f'exception escaped: {out["loop_exceptions"] or out["task_exceptions"]}', 'scenario'))
        if raised:
            v.append((f'a synchronous API call raised {raised[0][1]}', 'scenario'))
        if not (trig or out['soup_closed']):
            return v
        ne, nx = obs.count('cbEnter'), obs.count('cbExit')
        # the user cancelling the very task that runs the close callback aborts it: the user's own doing
        self_abort = any(isinstance(ev, list) and ev[0] == 'cancel' for ev, _, _ in out['log']) and ne == 1 and nx == 0
        blocked_close = [u for u, k in out['pending_kinds'].items() if k == 'close']
        cancelled_closers = {ev[1] for ev, _, _ in out['log'] if isinstance(ev, list) and ev[0] == 'acancel'}
        if prop == 'C05':
            if sc['cb_beh'] == 'close' and sc['has_cb'] and ne == 1 and nx == 0 and not self_abort:
                v.append(('application close callback called app.close() and never returned (close() blocks forever)',
                          'app-close-from-close-callback'))
                return v
            if not out['soup_closed'] or out['tcloses'] < 1:
                v.append((f'close trigger {trig[0][0] if trig else "?"} but soup session closed={out["soup_closed"]}, transport closes={out["tcloses"]}', 'scenario'))
            if self_abort:
                return v
            if not out['app_closed']:
                v.append(('the application session does not report closed', 'scenario'))
            if sc['has_cb'] and (ne != 1 or nx != 1):
                v.append((f'application close callback entered {ne} times, completed {nx} times', 'scenario'))
            if not sc['has_cb'] and (ne or nx):
                v.append(('application close callback observed although none is configured', 'scenario'))
            if sc['has_cb'] and ne == 1:
                e = obs.index('cbEnter')
                late = [o for o in obs[e:] if isinstance(o, tuple) and o[0] == 'msgEnter']
                if late:
                    v.append((f'application message callback for {late[0][1]} started after the close callback was entered', 'scenario'))
            if blocked_close:
                v.append((f'app.close() of user(s) {blocked_close} never returned', 'scenario'))
            bad = [o for o in obs if isinstance(o, tuple) and o[0] == 'ret' and o[2] not in ('ok',) and
                   any(it == ('close', o[1]) for it in sc['script']) and not (o[2] == 'cancelled' and o[1] in cancelled_closers)]
            if bad:
                v.append((f'app.close() ended with {bad[0][2]}', 'scenario'))
            if any(i[1] != 'ok' for i in inner):
                # "close calls never raise ... a close requested from inside a message or close callback": nobody but the library
                # can cancel the task that runs a callback, so every exception out of such a call is the library's doing
                # (the former known finding C05-app-close-from-message-callback, repaired: fixes/C05-app-close-from-message-callback.md)
                who = [o for _, os_, _ in out['log'] for o in os_ if isinstance(o, list) and o[0] in ('hclose', 'cbclose') and o[-1] != 'ok'][0]
                v.append((f'app.close() awaited from {"the message callback for " + str(who[1]) if who[0] == "hclose" else "the close callback"} '
                          f'ended with {"CancelledError" if who[-1] == "cancelled" else who[-1]}', 'scenario'))
            # a close() awaited from a message callback that returns normally has closed the session — unless a close was already
            # under way when it was called (then it returns at once, as every close() does): without any earlier
            # `initiate_close()` (peer disconnect, logout, a user's app.close()) nobody else can be closing while the soup
            # session does not report closed
            started = False
            for ev, os_, snap in out['log']:
                if ev in ('eof', 'iclose', 'logout') or (isinstance(ev, list) and ev[0] in ('aclose', 'close')):
                    started = True
                hc = [o for o in os_ if isinstance(o, list) and o[0] == 'hclose' and o[-1] == 'ok']
                if hc and not started and not snap[2][0]:
                    v.append((f'app.close() awaited from the message callback for {hc[0][1]} returned although the session is not closed '
                              f'and no other close was under way', 'scenario'))
                    break
            # once the application session reports closed no further message callback starts (a close() awaited from a message
            # callback that carried the close out has returned by then: the backlog stays in the stopped queue)
            closed_at = None
            for i, (_, os_, snap) in enumerate(out['log']):
                if closed_at is None and len(snap[2]) > 1 and snap[2][1]:
                    closed_at = i
                elif closed_at is not None:
                    late = [o for o in os_ if isinstance(o, list) and o[0] == 'msgEnter']
                    if late:
                        v.append((f'application message callback for {late[0][1]} started after the application session reported closed', 'scenario'))
                        break
        else:
            if out['soup_closed'] and out['alive']:
                v.append((f'tasks still running after the application session closed: {out["alive"]}', 'scenario'))
            pend_recv = [u for u, k in out['pending_kinds'].items() if k == 'recv']
            if out['soup_closed'] and pend_recv and (nx or not sc['has_cb']) and not self_abort:
                v.append((f'receive_message() of user(s) {pend_recv} still blocked after close', 'scenario'))
            if sc['has_cb'] and nx == 1:
                x = obs.index('cbExit')
                # the message callback that itself awaited close() necessarily returns after the close completed (as on the soup
                # session: sess_checks._is_closer) — any other callback must be over by then
                def is_closer(o):
                    b = sc['msg_beh'].get(o[1], 'ret')
                    return o[0] == 'msgExit' and (b in ('close', 'close2') or (isinstance(b, (tuple, list)) and b[0] in ('await_close', 'sleep_close')))
                late = [o for o in obs[x:] if isinstance(o, tuple) and o[0] in ('msgEnter', 'msgExit', 'msgRaise') and not is_closer(o)]
                if late:
                    v.append((f'application message callback activity {late[0]} after the close callback had returned', 'scenario'))
    return v


# ------------------------------------------------------------------ family runner (called from sess_checks.run_family)
def sc_to_json(sc):
    sc = dict(sc)
    sc['msg_beh'] = {str(k): v for k, v in sc['msg_beh'].items()}
    return sc


def sc_from_json(sc):
    fix = lambda b: tuple(b) if isinstance(b, list) else b
    ftok = lambda t: tuple(t) if isinstance(t, list) else t

    def fitem(it):
        it = list(it)
        if it[0] == 'data':
            return ('data', [ftok(t) for t in it[1]])
        return tuple(it)
    sc = dict(sc)
    sc['cb_beh'] = fix(sc['cb_beh'])
    sc['msg_beh'] = {int(k): fix(b) for k, b in sc['msg_beh'].items()}
    sc['script'] = [fitem(x) for x in sc['script']]
    sc['first'] = [ftok(t) for t in sc.get('first', [])]
    return sc


def corpus_scenarios(prop):
    """application scenarios kept as regressions: corpus/<prop>/app-*.json (and those of C05 for C04 / C06 as well)"""
    import json
    from common import VERIF
    out = []
    for p in dict.fromkeys((prop, 'C05')):
        d = os.path.join(VERIF, 'corpus', p)
        if os.path.isdir(d):
            for fn in sorted(os.listdir(d)):
                if fn.startswith('app-') and fn.endswith('.json'):
                    sc = sc_from_json(json.load(open(os.path.join(d, fn)))['app_scenario'])
                    if sc['kind'] == 'asn1' and not asn1_available():
                        continue
                    out.append((sc, 'corpus:' + fn))
    return out


# Lean witness histories (Witness/C04App.lean, Witness/C05App.lean; printed by the driver op `app.witness`) and the scenario that makes
# the implementation walk through the same history: (scenario, model configuration of the witness, extra events, what is compared)
def witness_cases():
    base = ['dec', 'id', [0, 'skip']]
    return {
        'C04App-late-cancel': (
            dict(kind='itch', mode='pull', cb_beh='ret', has_cb=False, msg_beh={}, first=[],
                 script=[('recv', 2), ('turns', 3), ('data', [5]), ('advance', 0.0001), ('turns', 2), ('cancel', 2), ('turns', 3),
                         ('recv', 3), ('turns', 3)]),
            ['acfg', base, False, ['msgbeh', 'ret'], False, 'ret', True], [], 'C04'),
        'C05App-close-from-handler': (
            dict(kind='itch', mode='callback', cb_beh='ret', has_cb=True, msg_beh={3: 'close'}, first=[],
                 script=[('data', [3, 4]), ('advance', 0.0005)]),
            ['acfg', base, True, ['msgbeh', 'ret', [3, 'close']], True, 'ret', True], [], 'C05'),
        'C05App-cleanup-close': (
            dict(kind='itch', mode='callback', cb_beh='ret', has_cb=True, msg_beh={3: ('ccsleep', 20)}, first=[],
                 script=[('data', [3]), ('advance', 0.0004), ('eof',)]),
            ['acfg', base, True, ['msgbeh', ['awaitcc', 5]], True, 'ret', True], [['run', 'C']], 'C05'),
    }


APP_OBS = ('msgEnter', 'msgExit', 'msgAbandon', 'msgRaise', 'cbEnter', 'cbExit', 'aret', 'cret', 'hclose', 'cbclose')


def app_level(obs_list):
    out = []
    for o in obs_list:
        if (isinstance(o, str) and o in APP_OBS) or (isinstance(o, list) and o[0] in APP_OBS):
            out.append(parse_sx(sx(o))[0] if not isinstance(o, str) else o)
    return out


def replay_witnesses(ctx, prop):
    """the Lean witness histories are what the implementation does: same application-level observable sequence"""
    if not (ctx.driver and ctx.driver.available and ctx.lean.build_ok):
        return
    for name, (sc, cfg, extra, wprop) in witness_cases().items():
        if wprop != prop:
            continue
        hist = ctx.driver.ask(['app.witness ' + name])[0]
        if hist == 'bad-request':
            ctx.disagree(f'application session: the driver does not know the witness {name}', {'kind': 'witness', 'name': name})
            continue
        ans = ctx.driver.ask(['app.run ' + sx(cfg) + ' ' + hist + ''.join(' ' + sx(e) for e in extra)])[0]
        parts = parse_sx(ans)
        model_obs = []
        for m in parts[:-1]:
            if m == 'disabled':
                continue        # the driver runs a task that continues within the same real step at once; the explicit step is then a no-op
            md = {k[0]: k[1:] for k in m}
            model_obs += [o for o in md['o'] if (o if isinstance(o, str) else o[0]) in APP_OBS]
        try:
            out = run_sc(sc)
        except Exception as e:   # noqa
            ctx.violation(f'running the witness scenario {name} raised {type(e).__name__}: {e}', {'kind': 'scenario', 'app_scenario': sc_to_json(sc)})
            continue
        impl_obs = app_level([o for _, os_, _ in out['log'] for o in os_])
        ctx.case({'witness': name}, nontrivial=True)
        ctx.count('app-witness:' + name)
        if impl_obs != model_obs:
            ctx.disagree(f'application session: witness {name}: the Lean history yields {sx(model_obs)}, the implementation '
                         f'{sx(impl_obs) if impl_obs else "()"}', {'kind': 'witness', 'name': name, 'app_scenario': sc_to_json(sc)})
        # the scenario itself goes through the usual correspondence and oracle
        req = model_request(sc, out['log'])
        dis = compare(sc, out, ctx.driver.ask([req])[0])
        if dis:
            ctx.disagree('application session: ' + dis[0], {'kind': 'scenario', 'app_scenario': sc_to_json(sc)})
        for what, kind in app_oracle(sc, out, prop):
            ctx.violation(what, {'kind': kind, 'app_scenario': sc_to_json(sc)})


def stash_then_construct(kind, n_first=2, n_later=1, window=True, settle=0.005):
    """(not modelled: the Lean product machine constructs the application session in the step in which login() returns; oracle only)
    A soup session used in pull mode: `receive_msg()` is cancelled in the turn after its helper task took the first message (late
    cancel: the message goes to the queue's stash); then an application session is constructed on that soup session —
    `set_handlers` + `soup_session.start_dispatching()`, what `ClientSession.__attrs_post_init__` does.  The soup dispatcher must
    hand the stashed message to the application session FIRST: the application callback sees every value in the order sent.
    (Seeded C04k / C04n repaired the cancelled receive but forgot the dispatcher.)  window=False: the cancel lands one turn earlier
    (the helper is cancelled too, nothing is held) — the control case."""
    from nasdaq_protocols import soup
    sess_cls, payload, token = app_defs(kind)
    loop = VirtualLoop()
    got, out = [], {}
    vals = list(range(1, n_first + n_later + 1))

    def payload_token(data):
        return token(sess_cls.decode(data)[1])
    CUR['tok_of_payload'] = payload_token

    async def main():
        s = soup.SoupClientSession(client_heartbeat_interval=0.004, server_heartbeat_interval=0.004)
        s.connection_made(FakeTransport())
        t = asyncio.ensure_future(s.receive_msg())
        for _ in range(3):
            await asyncio.sleep(0)
        rd = s._reader
        fut = asyncio.get_running_loop().create_future()
        orig = rd.on_msg_coro

        async def hooked(m):
            rd.on_msg_coro = orig
            if not window and not fut.done():
                fut.set_result(None)        # continue ahead of the helper task the put is about to wake
            try:
                return await orig(m)
            finally:
                if not fut.done():
                    fut.set_result(None)    # continue behind the helper task: it has taken the message, the caller has not resumed
        rd.on_msg_coro = hooked
        s.data_received(b''.join(soup.SequencedData(payload(v)).to_bytes()[1] for v in vals[:n_first]))
        try:
            await asyncio.wait_for(fut, 0.01)
        except asyncio.TimeoutError:
            pass
        h = s._msg_queue._recv_task
        out['window'] = bool(h is not None and h.done() and not h.cancelled() and not t.done())
        t.cancel()
        try:
            m = await t
            out['first'] = ['msg', inner_token(m)]
        except asyncio.CancelledError:
            out['first'] = 'cancelled'
        except Exception as e:   # noqa
            out['first'] = err_name(e)

        async def on_msg(m):
            got.append(token(m))
        try:
            sess_cls(s, on_msg_coro=on_msg)
        except Exception as e:   # noqa
            out['construct'] = err_name(e)
        await asyncio.sleep(settle)
        if n_later:
            s.data_received(b''.join(soup.SequencedData(payload(v)).to_bytes()[1] for v in vals[n_first:]))
            await asyncio.sleep(settle)
        out['closed'] = s.is_closed()
        await s.close()
    try:
        loop.run(main())
    finally:
        out['loop_exceptions'] = [str(c.get('message')) for c in loop.loop_exceptions]
        loop.shutdown()
    out['got'], out['sent'] = got, vals
    return out


def construct_on_stash(ctx, only=None):
    """C04: late cancel of a soup-level pull, then an application session of every kind constructed on that soup session"""
    kinds = KINDS if asn1_available() else KINDS[:3]
    for kind in kinds:
        for window in (True, False):
            for n_first, n_later in ((1, 1), (2, 1), (3, 0)):
                if only is not None and only != [kind, window, n_first, n_later]:
                    continue
                rep = {'kind': 'scenario', 'late_construct': [kind, window, n_first, n_later]}
                try:
                    out = stash_then_construct(kind, n_first, n_later, window)
                except Exception as e:   # noqa
                    ctx.violation(f'late cancel then application session on the soup session: raised {type(e).__name__}: {e}', rep)
                    continue
                ctx.case({'late_construct': rep['late_construct']}, nontrivial=True)
                ctx.count('app-construct-on-stash:' + kind)
                if out['window']:
                    ctx.count('late-cancel-window:construct')
                if only is not None:
                    print('late_construct', rep['late_construct'], out)
                if out['first'] != 'cancelled':
                    ctx.violation(f'receive_msg() was cancelled while pending but ended with {out["first"]!r}', rep)
                elif out['got'] != out['sent']:
                    ctx.violation(f'pull cancelled {"after" if out["window"] else "before"} its helper task took a message, then an {kind} '
                                  f'application session was constructed on the soup session: the peer sent {out["sent"]}, the application '
                                  f'callback saw {out["got"]}', rep)
                elif out['loop_exceptions']:
                    ctx.violation(f'exception reached the event loop: {out["loop_exceptions"][0]}', rep)


def run_family_app(ctx, prop):
    """application scenarios: implementation run, replay through the Lean product machine, property oracle"""
    rng = ctx.rng
    n_app = 500 if ctx.tier == 'quick' else 12000
    try:
        replay_witnesses(ctx, prop)
    except Exception as e:   # noqa
        ctx.disagree(f'application session: could not replay the Lean witnesses: {type(e).__name__}: {e}', {'kind': 'witness'})
    if prop == 'C04':
        construct_on_stash(ctx)
    cases = corpus_scenarios(prop)
    for _ in range(n_app):
        r = random.Random(rng.random())
        cases.append((gen_app_scenario(r), 'gen'))
    # callbacks that await close() twice in a row (not a behaviour of the Lean model: oracle only)
    twice = 0
    for sc, tag in list(cases):
        if tag == 'gen' and twice < (12 if ctx.tier == 'quick' else 300) and any(b == 'close' for b in sc['msg_beh'].values()):
            twice += 1
            cases.append((dict(sc, msg_beh={k: ('close2' if b == 'close' else b) for k, b in sc['msg_beh'].items()}), 'gen-close2'))
    done, reqs = [], []
    for sc, tag in cases:
        rep = {'kind': 'scenario', 'app_scenario': sc_to_json(sc)}
        try:
            out = run_sc(sc)
        except Exception as e:   # noqa
            ctx.violation(f'running the application-session scenario raised {type(e).__name__}: {e}', rep)
            continue
        done.append((sc, tag, out))
        reqs.append(model_request(sc, out['log']))
    use_model = bool(ctx.driver and ctx.driver.available and ctx.lean.build_ok)
    answers = ctx.driver.ask(reqs) if use_model else [None] * len(reqs)
    n_events = 0
    for (sc, tag, out), ans in zip(done, answers):
        n_events += len(out['log'])
        ctx.case({'app_scenario': {k: (v if k != 'script' else v[:8]) for k, v in sc_to_json(sc).items()}}, nontrivial=len(out['obs']) >= 2,
                 sample_every=997)
        ctx.count('app:' + sc['kind'] + ':' + sc['mode'])
        for ev, _, _ in out['log']:
            if isinstance(ev, list) and ev[0] == 'run' and ev[1] in ('D2', 'V2'):
                ctx.count('app-steps:' + ev[1])
            elif isinstance(ev, list) and ev[0] in ('aclose', 'arecv', 'acancel'):
                ctx.count('app-ext:' + ev[0])
        lc = late_cancels(norm_scenario(sc), out)
        if lc:
            ctx.count('app-late-cancel-window', lc)
        for k in handler_closes(out):
            ctx.count('app-close-from-handler:' + k)
        for what, kind in app_oracle(sc, out, prop):
            ctx.violation(what, {'kind': kind, 'app_scenario': sc_to_json(sc)})
        if ans is not None and not oracle_only(sc):
            try:
                dis = compare(sc, out, ans)
            except Exception as e:   # noqa
                dis = [f'could not compare: {type(e).__name__}: {e}']
            if dis:
                ctx.disagree('application session: ' + dis[0], {'kind': 'scenario', 'app_scenario': sc_to_json(sc)})
    ctx.cov['app_events_replayed'] = n_events
    ctx.notes.append('application-session layer (ITCH/OUCH/SQF/ASN.1 ClientSession: second queue, its dispatcher and receive helper, the '
                     'close event, _on_soup_message, _on_soup_close): every scenario is replayed event by event through the Lean product '
                     'machine Model/AppSession.lean (observables, runnable and alive task sets, flags) and evaluated by the property oracle'
                     + ('' if use_model else ' — MODEL UNAVAILABLE in this run: oracle only'))


def replay_app(ctx, prop, rep):
    sc = sc_from_json(rep['app_scenario'])
    out = run_sc(sc)
    ctx.cov['rule'] = 'replay of an application-session scenario'
    ctx.case('app-replay')
    ctx.case('replay-marker')
    print('scenario:', sc)
    print('log:', [(sx(e), [sx(o) if not isinstance(o, str) else o for o in os_]) for e, os_, _ in out['log']
                   if os_ or not (isinstance(e, list) and e[0] == 'run')])
    print('observed:', out['obs'], 'closed', out['soup_closed'], out['app_closed'], 'pending', out['pending'], 'alive', out['alive'])
    for what, kind in app_oracle(sc, out, prop):
        print('ORACLE:', what)
        ctx.violation(what, {'kind': kind, 'app_scenario': sc_to_json(sc)})
    if ctx.driver and ctx.driver.available and not oracle_only(sc):
        ans = ctx.driver.ask([model_request(sc, out['log'])])[0]
        for d in compare(sc, out, ans):
            print('MODEL:', d)
            ctx.disagree('application session: ' + d, {'kind': 'scenario', 'app_scenario': sc_to_json(sc)})
