"""Application-session layer (ITCH / OUCH / SQF client sessions on top of a SoupBinTCP client session): scenarios evaluated by
the property oracles only.  The Lean session machine does not model this layer (second queue, its dispatcher, the close event);
C04 / C05 / C06 / C11 say so in their evidence notes."""
import asyncio
import random

from common import err_name
from vloop import VirtualLoop, FakeTransport

_DEFS = {}


def app_defs(kind):
    """one tiny application per protocol, written the way the code generator writes it (application base class with its
    own app_name, ClientSession subclass decoding through it); defined once per process (registries are global)"""
    if kind in _DEFS:
        return _DEFS[kind]
    from nasdaq_protocols.common import Record, Field, LongBE
    from nasdaq_protocols import itch, ouch, sqf
    impl = {'itch': itch, 'ouch': ouch, 'sqf': sqf}[kind]
    app = 'vf_' + kind

    class Base(impl.Message, app_name=app):
        def __init_subclass__(cls, **kwargs):
            kwargs['app_name'] = app
            super().__init_subclass__(**kwargs)

    extra = {} if kind == 'itch' else {'direction': 'outgoing'}

    class VfMsg(Base, indicator=7, **extra):
        class BodyRecord(Record):
            Fields = [Field('n', LongBE)]

    class Session(impl.ClientSession):
        @classmethod
        def decode(cls, bytes_):
            return Base.from_bytes(bytes_)

    _DEFS[kind] = (Session, VfMsg, Base)
    return _DEFS[kind]


def run_app_scenario(kind, mode, cb_beh, msg_beh, script, hb=0.004, settle=0.05):
    """script items: ('data', [n..]) app messages | ('eos',) peer end of session | ('eof',) | ('close', u) app.close() |
    ('recv', u) | ('turns', k) | ('advance', dt).  mode: 'pull' | 'callback'.
    cb_beh / msg_beh[n]: 'ret' | ('await', k) | 'close' (await app.close())."""
    from nasdaq_protocols import soup
    sess_cls, msg_cls, base = app_defs(kind)
    loop = VirtualLoop()
    obs = []
    out = {}

    async def beh(b, app):
        if isinstance(b, tuple):
            for _ in range(b[1] + 1):
                await asyncio.sleep(0)
        elif b == 'close':
            try:
                await app.close()
                obs.append(('inner-close', 'ok'))
            except asyncio.CancelledError:
                obs.append(('inner-close', 'cancelled'))
                raise
            except Exception as e:   # noqa
                obs.append(('inner-close', err_name(e)))

    async def main():
        holder = {}

        async def on_msg(m):
            obs.append(('msgEnter', m.n))
            await beh(msg_beh.get(m.n, 'ret'), holder['app'])
            obs.append(('msgExit', m.n))

        async def on_close():
            obs.append('cbEnter')
            await beh(cb_beh, holder['app'])
            obs.append('cbExit')

        s = soup.SoupClientSession(client_heartbeat_interval=hb, server_heartbeat_interval=hb)
        tr = FakeTransport()
        s.connection_made(tr)
        t = asyncio.create_task(s.login(soup.LoginRequest('u', 'p', 's', '1')))
        await asyncio.sleep(0)
        s.data_received(soup.LoginAccepted('s', 1).to_bytes()[1])
        await t
        app = holder['app'] = sess_cls(s, on_msg_coro=on_msg if mode == 'callback' else None, on_close_coro=on_close)
        users = {}

        async def call(u, what):
            try:
                if what == 'close':
                    await app.close()
                    r = 'ok'
                else:
                    m = await app.receive_message()
                    r = ('msg', m.n)
            except asyncio.CancelledError:
                r = 'cancelled'
            except Exception as e:   # noqa
                r = err_name(e)
            obs.append(('ret', u, r))

        for it in script:
            k = it[0]
            if k == 'data':
                buf = b''
                for n in it[1]:
                    m = msg_cls()
                    m.n = n
                    buf += soup.SequencedData(m.to_bytes()[1]).to_bytes()[1]
                s.data_received(buf)
            elif k == 'hb':
                s.data_received(soup.ServerHeartbeat().to_bytes()[1])
            elif k == 'eos':
                s.data_received(soup.EndOfSession().to_bytes()[1])
            elif k == 'eof':
                s.connection_lost(None)
            elif k in ('close', 'recv'):
                users[it[1]] = (asyncio.create_task(call(it[1], k)), k)
            elif k == 'turns':
                for _ in range(it[1]):
                    await asyncio.sleep(0)
            elif k == 'advance':
                await asyncio.sleep(it[1])
        await asyncio.sleep(settle)
        me = asyncio.current_task()
        out['soup_closed'] = s.is_closed()
        out['app_closed'] = app.closed
        out['tcloses'] = len(tr.closes)
        out['pending'] = sorted(u for u, (t_, k) in users.items() if not t_.done())
        out['pending_kinds'] = {u: k for u, (t_, k) in users.items() if not t_.done()}
        out['alive'] = sorted(t_.get_name() for t_ in loop.tasks_created if not t_.done() and t_ is not me
                              and not any(t_ is x[0] for x in users.values()))
        out['task_exceptions'] = [(t_.get_name(), err_name(t_.exception())) for t_ in loop.tasks_created
                                  if t_.done() and not t_.cancelled() and t_ is not me and t_.exception() is not None]

    try:
        loop.run(main())
    finally:
        out['loop_exceptions'] = [str(c.get('message')) for c in loop.loop_exceptions]
        loop.shutdown()
    out['obs'] = obs
    return out


def gen_app_scenario(rng):
    kind = rng.choice(['itch', 'ouch', 'sqf'])
    mode = rng.choice(['pull', 'callback', 'callback'])
    cb_beh = rng.choice(['ret', ('await', 0), ('await', 2), 'close'])
    msg_beh = {}
    script = []
    n = [1]
    closes = 0
    users = [0]
    for _ in range(rng.randint(1, 6)):
        c = rng.random()
        if c < 0.3:
            script.append(('turns', rng.randint(1, 4)))
        elif c < 0.4:
            script.append(('advance', rng.choice([0.0002, 0.001])))
        if rng.random() < 0.45:
            k = rng.randint(1, 3)
            script.append(('data', list(range(n[0], n[0] + k))))
            if mode == 'callback':
                for m in range(n[0], n[0] + k):
                    if rng.random() < 0.2:
                        msg_beh[m] = rng.choice([('await', 1), ('await', 3), 'close'])
            n[0] += k
        elif closes < 3:
            closes += 1
            users[0] += 1
            script.append(rng.choice([('close', users[0]), ('eos',), ('eof',), ('close', users[0])]))
        if mode == 'pull' and rng.random() < 0.2:
            users[0] += 1
            script.append(('recv', users[0]))
            script.append(('advance', 0.0005))
    return dict(kind=kind, mode=mode, cb_beh=cb_beh, msg_beh=msg_beh, script=script)


def app_oracle(sc, out, prop):
    """property statements on the application session; returns list of (message, kind)"""
    v = []
    obs = out['obs']
    trig = [it for it in sc['script'] if it[0] in ('close', 'eos', 'eof')]
    sent = [n for it in sc['script'] if it[0] == 'data' for n in it[1]]
    delivered = [o[1] for o in obs if isinstance(o, tuple) and o[0] == 'msgEnter'] + \
        []
    recvd = [o[2][1] for o in obs if isinstance(o, tuple) and o[0] == 'ret' and isinstance(o[2], tuple)]
    if prop == 'C04':
        seen = delivered if sc['mode'] == 'callback' else recvd
        if seen != sent[:len(seen)]:
            v.append((f'application session handed {seen} to the consumer, the peer sent {sent}', 'scenario'))
        return v
    if prop in ('C05', 'C06'):
        inner = [o for o in obs if isinstance(o, tuple) and o[0] == 'inner-close']
        if out['loop_exceptions'] or out['task_exceptions']:
            v.append((f'exception escaped: {out["loop_exceptions"] or out["task_exceptions"]}', 'scenario'))
        if not trig:
            return v
        ne, nx = obs.count('cbEnter'), obs.count('cbExit')
        blocked_close = [u for u, k in out['pending_kinds'].items() if k == 'close']
        if prop == 'C05':
            if sc['cb_beh'] == 'close' and ne == 1 and nx == 0:
                v.append(('application close callback called app.close() and never returned (close() blocks forever)',
                          'app-close-from-close-callback'))
                return v
            if not out['soup_closed'] or out['tcloses'] < 1:
                v.append((f'close trigger {trig[0][0]} but soup session closed={out["soup_closed"]}, transport closes={out["tcloses"]}', 'scenario'))
            if not out['app_closed']:
                v.append(('the application session does not report closed', 'scenario'))
            if ne != 1 or nx != 1:
                v.append((f'application close callback entered {ne} times, completed {nx} times', 'scenario'))
            if blocked_close:
                v.append((f'app.close() of user(s) {blocked_close} never returned', 'scenario'))
            bad = [o for o in obs if isinstance(o, tuple) and o[0] == 'ret' and o[2] not in ('ok',) and
                   any(it == ('close', o[1]) for it in sc['script'])]
            if bad:
                v.append((f'app.close() ended with {bad[0][2]}', 'scenario'))
            if any(i[1] != 'ok' for i in inner):
                from_msg = any(b == 'close' for b in sc['msg_beh'].values())
                v.append((f'app.close() called from a callback ended with {[i[1] for i in inner if i[1] != "ok"][0]}',
                          'app-close-from-message-callback' if from_msg and [i[1] for i in inner if i[1] != 'ok'][0] == 'cancelled' else 'scenario'))
        else:
            if out['soup_closed'] and out['alive']:
                v.append((f'tasks still running after the application session closed: {out["alive"]}', 'scenario'))
            pend_recv = [u for u, k in out['pending_kinds'].items() if k == 'recv']
            if out['soup_closed'] and pend_recv and nx:
                v.append((f'receive_message() of user(s) {pend_recv} still blocked after close', 'scenario'))
    return v
