"""C05 — session machine check (see harness/sess_checks.py, Model/Session.lean, Props/C05.lean), plus every close trigger on a transport
with write flow control (harness/flow_scen.py: the trigger issued while the transport has writing paused / after it resumed / with
resume_writing and connection_lost delivered around the close; C05 oracle `flow_scen.oracle_close`)."""
import json

import sess_checks
import flow_scen
import sess_r7

DRIVER = 'drv_C05'
LEAN_TARGETS = ['NasdaqModel.Props.C05', 'drv_C05']


def run(ctx):
    sess_checks.run_family(ctx, 'C05')
    flow_scen.run_flow(ctx, 'C05')
    sess_r7.run_r7(ctx, 'C05')


def replay(ctx, path):
    r = json.load(open(path))
    rep = r.get('replay') or (r.get('no_longer_checks') or [{}])[-1].get('case') or r
    if isinstance(rep, dict) and 'r7_scenario' in rep:
        sess_r7.replay_r7(ctx, 'C05', rep)
    elif isinstance(rep, dict) and 'flow_scenario' in rep:
        flow_scen.replay_flow(ctx, 'C05', rep)
    else:
        sess_checks.replay_family(ctx, 'C05', path)
