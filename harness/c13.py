"""C13 — FIX tag=value codec with nested repeating groups.

Correspondence with lean/NasdaqModel/Model/Fix.lean (ops fix.build / fix.rt / fix.dec of drv_C13) on generated dictionaries
(real classes are created dynamically from the same abstract dictionary the model receives), and the property oracle
evaluated on the implementation alone against an independent reference encoder written from the property text."""
import copy
import json
import os

import common
from common import sx, parse_sx, err_name
import fix_common as fc

DRIVER = 'drv_C13'
FIXED_EQ = None       # what the implementation's group equality is (probed, recorded in the evidence only).  The model the code
                      # is compared with is PINNED to `pyEqDict` (plain-dict equality of group instances, /repo 02aab28): a tree
                      # with the old order-sensitive equality disagrees with the model and fails the oracle.


def eq_is_repaired():
    """probe the implementation: do two instances of one group class with the same items in different order compare equal?"""
    global FIXED_EQ
    if FIXED_EQ is None:
        fix = fc.fixmod()
        a = type('ProbeA_c13', (fix.Field,), {}, Tag=99901, Name='ProbeA_c13', Type=fix.FixInt)
        b = type('ProbeB_c13', (fix.Field,), {}, Tag=99902, Name='ProbeB_c13', Type=fix.FixInt)
        g = type('ProbeG_c13', (fix.Group,), {'Entries': [fix.Entry(a, True), fix.Entry(b, False)]})
        x, y = g(), g()
        x[99901], x[99902] = 1, 2
        y[99902], y[99901] = 2, 1
        FIXED_EQ = bool(x == y)
    return FIXED_EQ


KNOWN_LOCAL = []      # C13-group-eq-order is repaired in /repo 02aab28 (recorded as `fixed`, suppresses nothing)


def report(ctx, what, replay):
    for k in KNOWN_LOCAL:
        if common.matches_known(k, replay):
            if k['id'] not in [x[0] for x in ctx.known_hits]:
                ctx.known_hits.append((k['id'], k['what']))
            return
    ctx.violation(what, replay)


# ------------------------------------------------------------------ generators
TYPE_CHARS = 'ABCDEFGHIJKLMNOPQRSTUVWXYZabcdefghijklmnopqrstuvwxyz0123456789'
# FIX String / char: every ASCII character except SOH (the field delimiter) is a value character — line feed, carriage return, tab,
# NUL, the other C0 controls, DEL, '=' and spaces at either end included.  `valid_values` (the quantifier) and the model's `wfText`
# say exactly this; the generator has to reach all of it, in header, body, trailer and group instances at every depth.
SPECIALS = ['\n', '\r', '\r\n', '\t', '\x0b', '\x0c', '\x00', '\x02', '\x1c', '\x1d', '\x1e', '\x1f', '\x7f', ' ', '  ', '=', '==',
            '35=', '\n35=A', '10=', '\n\n', ' \n', '\n ']
VALUE_CHARS = ''.join(chr(c) for c in range(128) if c != 1)


def gen_string_fix(rng, ty):
    if ty == 'char':
        c = rng.random()
        if c < 0.55:
            return rng.choice(fc.PRINTABLE)
        if c < 0.9:
            return rng.choice(VALUE_CHARS)
        return rng.choice(['', 'ab', '=', '\r\n', '\n'])
    c = rng.random()
    if c < 0.1:
        return ''
    if c < 0.25:
        return rng.choice(['=', 'a=b', '35=X', '==', '10=000', '8=FIX', 'x=', '=y', '9=12', ' ', ' a ', '\t', '\x02', '\x7f', '\n', '\r\n',
                           'a35=b', '35=', 'line1\nline2', 'line1\r\nline2\r\n', '\nx', 'x\n', ' lead', 'trail ', '\ta\t', '\x00'])
    if c < 0.45:        # printable runs with line breaks / control characters / '=' / blanks at the start, in the middle, at the end
        parts = []
        for _ in range(rng.randint(1, 4)):
            parts.append(rng.choice(SPECIALS) if rng.random() < 0.6 else ''.join(rng.choice(fc.PRINTABLE) for _ in range(rng.randint(1, 6))))
        if not any(p in SPECIALS for p in parts):
            parts.insert(rng.randint(0, len(parts)), rng.choice(SPECIALS))
        return ''.join(parts)
    if c < 0.55:        # any value character, uniformly
        return ''.join(rng.choice(VALUE_CHARS) for _ in range(rng.randint(1, 10)))
    n = rng.randint(1, 12) if c < 0.93 else rng.randint(13, 60)
    return ''.join(rng.choice(fc.PRINTABLE) for _ in range(n))


def use_fix_strings():
    """switch the shared value generator (fix_common.gen_prim -> gen_string) to the full FIX value alphabet — in this process only
    (C14 keeps the printable profile: its frames are cut by a line-oriented reader of the harness)"""
    fc.gen_string = gen_string_fix


def tag_ending_in_35(rng, used):
    while True:
        t = rng.choice([135, 235, 335, 435, 535, 635, 735, 835, 935, 1035, 1135, 3535, 9935, 10035, 35035, 13535, rng.randint(1, 999) * 100 + 35])
        if t not in used and t not in fc.STD_TAGS:
            used.add(t)
            return t


def retag(entries, rng, pool, p):
    """give some entries (fields, group count fields, nested ones) a tag whose decimal text ends in `35`"""
    out = []
    for e in entries:
        t = tag_ending_in_35(rng, pool.used) if rng.random() < p else e[1]
        out.append(('f', t, e[2], e[3]) if e[0] == 'f' else ('g', t, e[2], retag(e[3], rng, pool, p / 2)))
    return out


def level_fields(entries):
    return [(e[1], e[2]) for e in entries if e[0] == 'f' and e[1] not in fc.STD_TAGS]


def share_tags(rng, entries, outer, p):
    """let groups REUSE tags of what encloses them: a field entry of a group (its first one included) takes over tag and type of a
    field of the enclosing segment or of an outer group (the library's own test dictionary: body fields 1, 2 and group 22[1, 2]);
    tags of one level stay distinct, count tags stay unique"""
    out = []
    here = level_fields(entries)
    for e in entries:
        if e[0] == 'f':
            out.append(e)
            continue
        sub = list(e[3])
        avail = list(outer) + here
        used = {x[1] for x in sub}
        for i, x in enumerate(sub):
            cands = [c for c in avail if c[0] not in used]
            if x[0] == 'f' and cands and rng.random() < (p / 2 if i == 0 else p):
                t, ty = rng.choice(cands)
                used.discard(x[1])
                used.add(t)
                sub[i] = ('f', t, ty, x[3])
        out.append(('g', e[1], e[2], share_tags(rng, sub, avail, p)))
    return out


def favour_follow(rng, d, a):
    """put the wire where the COUNT alone ends a group: in a plain segment move a field whose tag the group uses too directly behind
    that group (assignment order is wire order there) and let the group's last instance hold that tag"""
    for s in ('hdr', 'body', 'trl'):
        seg, entries = a[s], d[s]
        groups = [(i, fc.find_entry(entries, t)) for i, (t, v) in enumerate(seg) if v[0] == 'grp' and v[1]]
        rng.shuffle(groups)
        for gi, g in groups:
            sub_tags = {x[1]: x for x in g[3] if x[0] == 'f'}
            fields = [j for j, (t, v) in enumerate(seg) if v[0] != 'grp' and t in sub_tags and t != 35]
            if not fields or rng.random() < 0.3:
                continue
            fj = rng.choice(fields)
            item = seg[fj]
            gt = seg[gi][0]
            del seg[fj]
            gi2 = next(i for i, (t, _) in enumerate(seg) if t == gt)
            seg.insert(gi2 + 1, item)
            last = seg[gi2][1][1][-1]
            if item[0] not in [t for t, _ in last] and rng.random() < 0.85:
                last.append((item[0], fc.gen_prim(rng, sub_tags[item[0]][2])))
            break
    return a


# FIX's own header and trailer fields.  A dictionary of the statement is free to use them like any other tag (every real dictionary
# does): BeginString / BodyLength / MsgSeqNum / the comp ids / SendingTime in the header, SignatureLength / Signature / CheckSum in
# the trailer — at any position of the dictionary, required or optional, assigned in any order ("any assignment order": CheckSum
# before Signature, BodyLength after MsgSeqNum, …).  The codec gives none of these tags a meaning (framing is C14's); the statement's
# "compares equal to the original" and "re-encodes identically" hold for them as for every other tag.
STD_HEADER_FIELDS = [8, 9, 34, 49, 56, 50, 57, 52]
STD_TRAILER_FIELDS = [(93, 'int'), (89, 'string'), (10, 'string')]          # 93 / 89 are not in fix_common.STD_FIELDS: plain fields


def add_standard_fields(rng, pool, hdr, trl):
    """insert a random subset of the standard header fields into `hdr` and of the standard trailer fields into `trl` (the trailer
    gets CheckSum together with at least one more field most of the time: order in the trailer only shows with two fields or more)"""
    hdr, trl = list(hdr), list(trl)
    for t in rng.sample(STD_HEADER_FIELDS, rng.randint(0, len(STD_HEADER_FIELDS))):
        hdr.insert(rng.randint(0, len(hdr)), ('f', t, fc.STD_TYPE[t], rng.random() < 0.5))
    c = rng.random()
    want = [10] if c < 0.15 else [93, 89, 10] if c < 0.55 else rng.sample([93, 89, 10], rng.randint(1, 3))
    if 10 not in want and rng.random() < 0.7:
        want.append(10)
    for t, ty in STD_TRAILER_FIELDS:
        if t in want and (t in fc.STD_TAGS or t not in pool.used):
            pool.used.add(t)
            trl.insert(rng.randint(0, len(trl)), ('f', t, ty, rng.random() < 0.5))
    return hdr, trl


def gen_dictionary(rng, allow_float=True, overlap=False, shared=False, standard=False):
    pool = fc.TagPool(rng)
    depth = rng.choice([0, 1, 1, 2, 2, 3])
    rest = fc.gen_entries(rng, pool, rng.randint(0, 3), min(depth, 1), allow_float)
    flavour = rng.random()
    if flavour < 0.3:
        # entries in front of MsgType whose tags end in 35 (135=…), string entries (their values may contain `35=`): the MsgType lookup
        # must find the field, not the text
        rest = retag(rest, rng, pool, 0.6)
        if rng.random() < 0.5:
            rest.insert(rng.randint(0, len(rest)), ('f', tag_ending_in_35(rng, pool.used), rng.choice(['string', 'int', 'char']), rng.random() < 0.5))
        if rng.random() < 0.5:
            rest.insert(rng.randint(0, len(rest)), ('f', pool.fresh(), 'string', rng.random() < 0.5))
    hdr = [('f', 35, 'string', True)] + rest
    if flavour < 0.3:
        hdr = rest + [('f', 35, 'string', True)] if rng.random() < 0.6 else hdr
    if rng.random() < 0.4:
        rng.shuffle(hdr)
    trl = fc.gen_entries(rng, pool, rng.randint(0, 3), min(depth, 1), allow_float)
    if standard:
        hdr, trl = add_standard_fields(rng, pool, hdr, trl)
    types = set()
    while len(types) < rng.randint(1, 3):
        types.add(''.join(rng.choice(TYPE_CHARS) for _ in range(rng.randint(1, 2))))
    mdefs = []
    for ty in sorted(types):
        body = fc.gen_entries(rng, pool, rng.randint(0, 6) if not shared else rng.randint(2, 6), depth if not shared else max(depth, 1), allow_float)
        mdefs.append({'name': fc.fresh_name(), 'type': ty, 'hdr': hdr, 'body': body, 'trl': trl})
    if shared:
        # inside the quantifier ("header, body and trailer with disjoint tags, repeating groups nested to any depth"): groups that reuse
        # tags of their enclosing segment / outer group.  Header and trailer are shared by the message classes: rewritten once.
        hdr2, trl2 = share_tags(rng, hdr, [], 0.5), share_tags(rng, trl, [], 0.5)
        for d in mdefs:
            d['hdr'], d['trl'], d['body'] = hdr2, trl2, share_tags(rng, d['body'], [], 0.5)
    if overlap:
        # outside the quantifier: a tag used at two different levels (like tests/fix_messages.py: body field 1 and
        # group field 1); tags inside one level stay distinct.  Compared for model/implementation agreement only.
        for d in mdefs:
            nested = [(g, e) for g in d['body'] if g[0] == 'g' for e in g[3] if e[0] == 'f']
            plain = [i for i, e in enumerate(d['body']) if e[0] == 'f']
            if nested and plain:
                g, e = rng.choice(nested)
                i = rng.choice(plain)
                if e[1] not in [x[1] for x in d['body']]:
                    d['body'] = list(d['body'])
                    d['body'][i] = ('f', e[1], e[2], d['body'][i][3])      # same field class at both levels
    return mdefs


# ------------------------------------------------------------------ the shortest wire forms the grammar allows
# A field on the wire is `tag` `=` `value` SOH: at least THREE bytes - a one-digit tag and an empty String / char value (`1=<SOH>`;
# "empty strings" are named in the quantifier).  A group instance must hold its first field and nothing else, so an instance can be
# three bytes too, and a message can END with any number of them (group assigned last in the body, nothing assigned in the trailer;
# or an inner group closing the last instance of the outer one; or a group in the trailer).  The general generator practically never
# gets there (tags are mostly 3-4 digits, values mostly non-empty, trailers mostly non-empty), so this family aims at it: small
# dictionaries whose groups start with one-digit tags, messages whose instances hold as little as an instance may hold, many such
# instances, and little or nothing behind the group.  All tags pairwise distinct: inside `wfDef` of Props/C13.lean.
ONE_DIGIT_TAGS = [t for t in range(1, 10) if t not in fc.STD_TAGS]       # 8 / 9 are BeginString / BodyLength (standard classes)
SHORT_FIRST_TYPES = ['string', 'string', 'string', 'char', 'char', 'int', 'bool']


def one_digit_tag(rng, pool):
    free = [t for t in ONE_DIGIT_TAGS if t not in pool.used]
    if not free:
        return pool.fresh()
    t = rng.choice(free)
    pool.used.add(t)
    return t


def two_digit_tag(rng, pool):
    free = [t for t in range(11, 100) if t not in pool.used]
    t = rng.choice(free)
    pool.used.add(t)
    return t


def gen_group_short(rng, pool, depth, allow_float):
    """a group whose first field has (mostly) a one-digit tag and a text type; the other entries mostly optional; nested to `depth`"""
    tys = fc.TYPES if allow_float else [t for t in fc.TYPES if t != 'float']
    c = rng.random()
    first_tag = one_digit_tag(rng, pool) if c < 0.75 else two_digit_tag(rng, pool) if c < 0.9 else pool.fresh()
    sub = [('f', first_tag, rng.choice(SHORT_FIRST_TYPES), rng.random() < 0.5)]
    for _ in range(rng.choice([0, 0, 1, 1, 2, 3])):
        if depth > 1 and rng.random() < 0.45:
            sub.append(gen_group_short(rng, pool, depth - 1, allow_float))
        else:
            c = rng.random()
            t = one_digit_tag(rng, pool) if c < 0.2 else two_digit_tag(rng, pool) if c < 0.5 else pool.fresh()
            sub.append(('f', t, rng.choice(tys), rng.random() < 0.15))
    c = rng.random()
    count_tag = one_digit_tag(rng, pool) if c < 0.15 else two_digit_tag(rng, pool) if c < 0.5 else pool.fresh()
    return ('g', count_tag, rng.random() < 0.2, sub)


def gen_dictionary_short(rng, allow_float=True):
    pool = fc.TagPool(rng)
    tys = fc.TYPES if allow_float else [t for t in fc.TYPES if t != 'float']

    def plain(p_req=0.3):
        c = rng.random()
        t = one_digit_tag(rng, pool) if c < 0.15 else two_digit_tag(rng, pool) if c < 0.5 else pool.fresh()
        return ('f', t, rng.choice(tys), rng.random() < p_req)
    hdr = [('f', 35, 'string', True)] + [plain() for _ in range(rng.choice([0, 0, 1]))]
    c = rng.random()
    if c < 0.4:
        trl = []
    elif c < 0.6:
        trl = [('f', 10, 'string', rng.random() < 0.3)]                    # CheckSum, like any other tag (`10=nnn<SOH>`: 7 bytes)
    elif c < 0.8:
        trl = [plain(0.2)]
    else:
        trl = [plain(0.2) for _ in range(rng.choice([0, 1]))] + [gen_group_short(rng, pool, rng.choice([1, 1, 2]), allow_float)]
    types = set()
    while len(types) < rng.choice([1, 1, 2]):
        types.add(''.join(rng.choice(TYPE_CHARS) for _ in range(rng.randint(1, 2))))
    mdefs = []
    for ty in sorted(types):
        body = [plain() for _ in range(rng.choice([0, 0, 1, 2]))]
        body += [gen_group_short(rng, pool, rng.choice([1, 1, 2, 2, 3]), allow_float) for _ in range(rng.choice([1, 1, 1, 2]))]
        rng.shuffle(body)
        mdefs.append({'name': fc.fresh_name(), 'type': ty, 'hdr': hdr, 'body': body, 'trl': trl})
    return mdefs


def short_prim(rng, ty, empty=None):
    """a value of minimal width: the empty text (String / char), one character, a one-digit number"""
    if ty in ('string', 'char'):
        if empty is None:
            empty = rng.random() < 0.65
        return ('s', '' if empty else rng.choice(VALUE_CHARS if rng.random() < 0.3 else fc.PRINTABLE))
    if ty == 'int':
        return ('i', rng.randint(0, 9) if rng.random() < 0.8 else rng.choice([-1, 10, -9]))
    return fc.gen_prim(rng, ty)


INSTANCE_COUNTS = [1, 1, 1, 2, 2, 3, 4, 5, 8, 9, 10, 13, 21]


def gen_group_value_short(rng, e, closes):
    """instances of group entry `e`.  mode `min`: every instance holds its first field only (plus what the dictionary requires), values
    of minimal width - all of them empty text most of the time - and there are many of them (one per three bytes of the wire: more
    instances than any estimate of four or more bytes apiece allows); when the group `closes` its surroundings the last instance may
    end with a nested group of the same kind.  mode `mixed`: the general generator's instances with short values here and there"""
    sub = e[3]
    first = sub[0]
    nested = [x for x in sub[1:] if x[0] == 'g']
    if rng.random() < 0.55:
        n = rng.choice(INSTANCE_COUNTS)
        all_empty = rng.random() < 0.7
        insts = []
        for j in range(n):
            inst = [(first[1], short_prim(rng, first[2], True if all_empty else None))] if first[0] == 'f' else \
                [(first[1], gen_group_value_short(rng, first, False))]
            for x in sub[1:]:
                if (x[3] if x[0] == 'f' else x[2]) and rng.random() < 0.8:        # `required` is the session's business, not the codec's
                    inst.append((x[1], short_prim(rng, x[2]) if x[0] == 'f' else gen_group_value_short(rng, x, False)))
            insts.append(inst)
        if nested and closes and rng.random() < 0.5:
            x = rng.choice(nested)
            if x[1] not in [t for t, _ in insts[-1]]:
                insts[-1].append((x[1], gen_group_value_short(rng, x, True)))
        return ('grp', insts)
    insts = []
    n = rng.choice([0, 1, 1, 2, 3, 4])
    for j in range(n):
        inst = []
        for i, x in enumerate(sub):
            req = x[3] if x[0] == 'f' else x[2]
            if i == 0 or req or rng.random() < 0.35:
                if x[0] == 'f':
                    inst.append((x[1], short_prim(rng, x[2]) if rng.random() < 0.6 else fc.gen_prim(rng, x[2])))
                else:
                    inst.append((x[1], gen_group_value_short(rng, x, closes and j == n - 1)))
        if rng.random() < 0.5:
            head, rest = inst[:1], inst[1:]
            rng.shuffle(rest)
            inst = head + rest if rng.random() < 0.5 else rest + head
        insts.append(inst)
    return ('grp', insts)


def gen_seg_short(rng, entries, p_optional, group_last):
    chosen = [e for e in entries if (e[3] if e[0] == 'f' else e[2]) or rng.random() < p_optional]
    groups = [e for e in entries if e[0] == 'g']
    if groups and not any(e[0] == 'g' for e in chosen) and rng.random() < 0.9:
        chosen.append(rng.choice(groups))
    rng.shuffle(chosen)
    got = [e for e in chosen if e[0] == 'g']
    if got and group_last:
        g = rng.choice(got)
        chosen.remove(g)
        chosen.append(g)                          # a plain segment is written in assignment order: this group closes the segment
    seg = []
    for i, e in enumerate(chosen):
        if e[0] == 'f':
            seg.append((e[1], short_prim(rng, e[2]) if rng.random() < 0.4 else fc.gen_prim(rng, e[2])))
        else:
            seg.append((e[1], gen_group_value_short(rng, e, i == len(chosen) - 1)))
    return seg


def gen_assignments_short(rng, d):
    rest = [e for e in d['hdr'] if e[1] != 35]
    h = [(35, ('s', d['type']))] + gen_seg_short(rng, rest, 0.4, False)
    if rng.random() < 0.2:
        rng.shuffle(h)
    b = gen_seg_short(rng, d['body'], 0.5, rng.random() < 0.75)
    t = gen_seg_short(rng, d['trl'], 0.4, rng.random() < 0.75)
    return {'hdr': h, 'body': b, 'trl': t}


def wire_fields(entries, seg, dictionary_order, out):
    """the fields of a segment in wire order as (length with SOH, number of instances announced or None)"""
    order = [(e[1], dict(seg)[e[1]]) for e in entries if e[1] in dict(seg)] if dictionary_order else seg
    for t, v in order:
        if v[0] == 'grp':
            out.append((len(str(t)) + 1 + len(str(len(v[1]))) + 1, len(v[1]), [len(i) for i in v[1]]))
            for inst in v[1]:
                wire_fields(fc.find_entry(entries, t)[3], inst, True, out)
        else:
            out.append((len(str(t)) + 1 + len(fc.ref_value_bytes(v)) + 1, None, None))
    return out


def density_classes(d, m):
    """how tightly the instances of the message's groups are packed (for the input distribution): a group whose instances are all
    3 bytes; a group that is the last thing on the wire; a group announcing more instances than a quarter of the bytes that follow it"""
    out = set()
    fields = []
    for s in ('hdr', 'body', 'trl'):
        wire_fields(d[s], m[s], False, fields)
    total = sum(f[0] for f in fields)
    off = 0
    for k, (ln, n, sizes) in enumerate(fields):
        off += ln
        if not n:
            continue
        left = total - off
        flat = all(x == 1 for x in sizes)          # instances of one field each: the next n wire fields are the instances
        if flat and all(f[0] == 3 for f in fields[k + 1:k + 1 + n]):
            out.add('all-instances-3-bytes')
            if k + 1 + n == len(fields):
                out.add('3-byte-instances-close-the-message')
        if left < 4 * n:
            out.add('fewer-than-4-bytes-per-announced-instance-left')
        if left == 3 * n:
            out.add('exactly-3-bytes-per-announced-instance-left')
    if _group_is_last(d, m):
        out.add('group-closes-the-message')
    return out


def _group_is_last(d, m):
    for s in ('trl', 'body', 'hdr'):
        if m[s]:
            return m[s][-1][1][0] == 'grp' and bool(m[s][-1][1][1])
    return False


def upsert(seg, t, v):
    for i, (k, _) in enumerate(seg):
        if k == t:
            seg[i] = (t, v)
            return
    seg.append((t, v))


def built_seg(assign):
    """what `values` holds after the assignments (a key assigned twice keeps its first position)"""
    seg = []
    for t, v in assign:
        upsert(seg, t, v if v[0] != 'grp' else ('grp', [built_seg(i) for i in v[1]]))
    return seg


def gen_assignments(rng, d):
    """assignment lists (header, body, trailer) of a well-formed message"""
    rest = [e for e in d['hdr'] if e[1] != 35]
    h = fc.gen_seg(rng, rest)
    pos = 0 if rng.random() < 0.5 else rng.randint(0, len(h))        # MsgType assigned first, or anywhere in the header
    h.insert(pos, (35, ('s', d['type'])))
    b = fc.gen_seg(rng, d['body'])
    t = fc.gen_seg(rng, d['trl'])
    for seg, entries in ((h, d['hdr']), (b, d['body']), (t, d['trl'])):
        if seg and rng.random() < 0.15:            # assign one key a second time: keeps its position, new value
            k, v = rng.choice(seg)
            e = fc.find_entry(entries, k)
            if e[0] == 'f' and k != 35:
                seg.append((k, fc.gen_prim(rng, e[2])))
    return {'hdr': h, 'body': b, 'trl': t}


def unknown_tag(rng, d):
    used = set(fc.all_tags(d['hdr'] + d['body'] + d['trl']))
    while True:
        t = rng.choice([6, 7, 77777, 123456, rng.randint(1, 99999)])
        if t not in used and t not in fc.STD_TAGS:
            return t


def mutate_assignments(rng, d, a):
    """outside the property's quantifier (compared for model/implementation agreement only)"""
    a = copy.deepcopy(a)
    kind = rng.choice(['wrong-type', 'wrong-type', 'unknown-tag', 'bool-in-int', 'non-ascii', 'soh-in-string',
                       'no-first', 'empty-instance', 'nested-unknown', 'nested-wrong-type'])
    segname = rng.choice(['hdr', 'body', 'body', 'trl'])
    seg, entries = a[segname], d[segname]

    def groups_of(seg):
        return [i for i, (t, v) in enumerate(seg) if v[0] == 'grp' and v[1]]
    if kind == 'wrong-type' and seg:
        i = rng.randrange(len(seg))
        t, v = seg[i]
        if t == 35:
            return None
        seg[i] = (t, rng.choice([x for x in [('i', 7), ('fl', '1.5'), ('b', True), ('s', 'zz'), ('grp', [])] if x[0] != v[0]]))
    elif kind == 'unknown-tag':
        seg.insert(rng.randint(0, len(seg)), (unknown_tag(rng, d), ('i', 1)))
    elif kind == 'bool-in-int':
        ints = [i for i, (t, v) in enumerate(seg) if v[0] == 'i']
        if not ints:
            return None
        i = rng.choice(ints)
        seg[i] = (seg[i][0], ('b', rng.random() < 0.5))
    elif kind in ('non-ascii', 'soh-in-string'):
        strs = [i for i, (t, v) in enumerate(seg) if v[0] == 's' and t != 35]
        if not strs:
            return None
        i = rng.choice(strs)
        bad = rng.choice(['é', 'a€b', '\x80']) if kind == 'non-ascii' else rng.choice(['\x01', 'a\x01b', 'a\x0112=3', '\x01\x01'])
        seg[i] = (seg[i][0], ('s', bad))
    elif kind in ('no-first', 'empty-instance', 'nested-unknown', 'nested-wrong-type'):
        gs = groups_of(seg)
        if not gs:
            return None
        gi = rng.choice(gs)
        t, v = seg[gi]
        e = fc.find_entry(entries, t)
        insts = v[1]
        j = rng.randrange(len(insts))
        if kind == 'no-first':
            insts[j] = [(k, x) for k, x in insts[j] if k != e[3][0][1]]
        elif kind == 'empty-instance':
            insts[j] = []
        elif kind == 'nested-unknown':
            insts[j].insert(rng.randint(0, len(insts[j])), (unknown_tag(rng, d), ('s', 'q')))
        else:
            k = rng.randrange(len(insts[j]))
            tt, vv = insts[j][k]
            insts[j][k] = (tt, rng.choice([x for x in [('i', 7), ('fl', '2.5'), ('s', 'zz'), ('grp', [])] if x[0] != vv[0]]))
    else:
        return None
    return kind, a


def mutate_bytes(rng, b, types):
    c = rng.randrange(14)
    ba = bytearray(b)
    if c == 0 and len(ba) > 1:
        return 'truncate', bytes(ba[:rng.randrange(1, len(ba))])
    if c == 1:
        idx = [i for i, x in enumerate(ba) if x == 1]
        if idx:
            del ba[rng.choice(idx)]
            return 'del-soh', bytes(ba)
    if c == 2:
        idx = [i for i, x in enumerate(ba) if x == 61]
        if idx:
            ba[rng.choice(idx)] = rng.choice(b':-1 ')
            return 'del-eq', bytes(ba)
    if c == 3:
        idx = [i for i, x in enumerate(ba) if 48 <= x <= 57]
        if idx:
            ba[rng.choice(idx)] = rng.choice(b'0123456789')
            return 'digit', bytes(ba)
    if c == 4:
        fields = bytes(ba).split(b'\x01')[:-1]
        if len(fields) >= 2:
            i, j = rng.sample(range(len(fields)), 2)
            fields[i], fields[j] = fields[j], fields[i]
            return 'swap', b''.join(f + b'\x01' for f in fields)
    if c == 5:
        fields = bytes(ba).split(b'\x01')[:-1]
        i = rng.randint(0, len(fields))
        fields.insert(i, rng.choice([b'7=1', b'77777=x', b'=', b'abc', b'1_2=3', b' 12=4', b'+5=1', b'-5=1', b'12', b'\xff=1', b'0x1=1', b'\x1c7=1', b'7\x1f=1', b'7\x0c=1']))
        return 'insert', b''.join(f + b'\x01' for f in fields)
    if c == 6:
        fields = bytes(ba).split(b'\x01')[:-1]
        if fields:
            i = rng.randrange(len(fields))
            fields.insert(rng.randint(0, len(fields)), fields[i])
            return 'dup-field', b''.join(f + b'\x01' for f in fields)
    if c == 7:
        i = bytes(ba).find(b'35=')
        if i >= 0:
            j = bytes(ba).find(b'\x01', i)
            new = rng.choice([b'', b'zz9', b'\xc3\xa9', b'M'] + [t.encode() for t in types])
            return 'type', bytes(ba[:i + 3]) + new + bytes(ba[j:] if j >= 0 else b'')
    if c == 8 and ba:
        ba[rng.randrange(len(ba))] = rng.randrange(256)
        return 'byte', bytes(ba)
    if c == 9:
        return 'random', rng.randbytes(rng.randint(0, 30))
    if c == 10 and ba:
        return 'no-final-soh', bytes(ba[:-1])
    if c == 12:
        idx = [i for i, x in enumerate(ba) if x == 61]
        if idx:
            i = rng.choice(idx) + rng.choice([0, 1])
            ba[i:i] = bytes([rng.choice(b' \t\n\x0b\x0c\r\x1c\x1d\x1e\x1f_+-0')])
            return 'ws', bytes(ba)
    if c == 11:
        return 'extra', bytes(ba) + rng.choice([b'\x01', b'x', b'1=2\x01', b'35=A\x01'])
    return 'same', bytes(ba)


# ------------------------------------------------------------------ implementation side
def impl_build(built, d, a, rng=None):
    try:
        return ('ok', fc.make_message(built, d, a, rng))
    except Exception as e:  # noqa
        return ('err', err_name(e))


def impl_rt(mdefs_by_name, msg):
    """`impl_rt_unguarded` under a time limit: a decoder that does not come back is an observation, not a hang of the check"""
    try:
        with fc.time_limit(20):
            return impl_rt_unguarded(mdefs_by_name, msg)
    except (fc.CaseTimeout, MemoryError) as e:
        r = {}
        try:
            r['bytes'] = bytes(msg.to_bytes()[1])
            r['n'] = len(r['bytes'])
        except Exception:  # noqa
            return {'enc_err': 'timeout'}
        r['dec_err'] = 'timeout' if isinstance(e, fc.CaseTimeout) else 'memory'
        return r


def impl_rt_unguarded(mdefs_by_name, msg):
    """encode, decode through the base class, compare, re-encode — everything the property speaks about"""
    fix = fc.fixmod()
    r = {}
    try:
        n, b = msg.to_bytes()
        r['n'], r['bytes'] = n, bytes(b)
    except Exception as e:  # noqa
        r['enc_err'] = err_name(e)
        return r
    try:
        k, dec = fix.Message.from_bytes(r['bytes'])
    except Exception as e:  # noqa
        r['dec_err'] = err_name(e)
        return r
    r['k'], r['dec'] = k, dec
    r['cls'] = getattr(type(dec), 'Name', type(dec).__name__)
    try:
        r['coll'] = dec.as_collection()
        r['eq'] = bool(dec == msg)
        r['eq_seg'] = {s: bool(getattr(dec, a) == getattr(msg, a)) for s, a in (('hdr', 'Header'), ('body', 'Body'), ('trl', 'Trailer'))}
        r['re'] = bytes(dec.to_bytes()[1])
    except Exception as e:  # noqa
        r['post_err'] = err_name(e)
    return r


def impl_line(mdefs_by_name, r):
    """the implementation's observables in the syntax of the model's `fix.rt` answer (eqd column left out)"""
    if 'enc_err' in r:
        return 'enc-err ' + r['enc_err']
    if 'dec_err' in r:
        return f'ok {sx(r["bytes"])} dec-err {r["dec_err"]}'
    if 'post_err' in r:
        return f'ok {sx(r["bytes"])} post-err {r["post_err"]}'
    d2 = mdefs_by_name.get(r['cls'])
    if d2 is None:
        return f'ok {sx(r["bytes"])} stale-class {r["cls"]}'
    m2 = fc.msg_of_collection(d2, r['coll'])
    return f'ok {sx(r["bytes"])} {r["k"]} {sx(common.cps(r["cls"]))} {sx(fc.msg_sx(m2))} {1 if r["eq"] else 0} {sx(r["re"])}'


def model_line_without_eqd(line):
    """drop the `pyEqDict` column (or, when FIXED_EQ, the `pyEq` column) from the model's fix.rt answer"""
    if line is None or not line.startswith('ok ') or ' dec-err ' in line:
        return line
    parts = parse_sx(line)
    # ok, bytes, n, name, msg, eq, eqd, re
    if len(parts) != 8:
        return line
    eq = parts[6]           # pyEqDict column (pinned, see FIXED_EQ)
    return f'ok {parts[1]} {parts[2]} {sx_of(parts[3])} {sx_of(parts[4])} {eq} {parts[7]}'


def sx_of(p):
    return p if isinstance(p, str) else '(' + ' '.join(sx_of(x) for x in p) + ')'


def offset_of_msgtype(d, m):
    """byte offset of the header's MsgType field in the reference encoding (None when absent)"""
    off = 0
    for t, v in m['hdr']:
        if t == 35:
            return off
        e = fc.find_entry(d['hdr'], t)
        off += sum(len(f) + 1 for f in fc.ref_fields(d['hdr'], [(t, v)], False))
    return None


def text_classes(seg, depth=0):
    """which kinds of text a segment value contains (for the input distribution): line feeds, other control characters, …"""
    out = set()
    for _t, v in seg:
        if v[0] == 'grp':
            for inst in v[1]:
                out |= {c if c.startswith('group:') else 'group:' + c for c in text_classes(inst, depth + 1)}
        elif v[0] == 's' and _t != 35:
            x = v[1]
            if '\n' in x:
                out.add('LF')
            if '\r' in x:
                out.add('CR')
            if any(ord(c) < 32 and c not in '\n\r' for c in x) or '\x7f' in x:
                out.add('other-control')
            if '=' in x:
                out.add('equals')
            if x != x.strip(' ') and x.strip(' '):
                out.add('edge-blank')
    return out


def valid_values(entries, seg):
    """right Python type for the field, text ASCII without SOH, floats finite with a round-tripping repr"""
    for t, v in seg:
        e = fc.find_entry(entries, t)
        if e is None:
            return False
        if v[0] == 'grp':
            if e[0] != 'g' or not all(valid_values(e[3], inst) for inst in v[1]):
                return False
            continue
        if e[0] != 'f':
            return False
        want = {'int': 'i', 'float': 'fl', 'bool': 'b', 'char': 's', 'string': 's'}[e[2]]
        if v[0] != want:
            return False
        if v[0] in ('s', 'fl') and not all(ord(c) < 128 and c != '\x01' for c in v[1]):
            return False
        if v[0] == 'fl':
            try:
                x = float(v[1])
            except ValueError:
                return False
            if x != x or x in (float('inf'), float('-inf')) or repr(x) != v[1]:
                return False
    return True


def level_distinct(entries):
    tags = [e[1] for e in entries]
    return len(set(tags)) == len(tags) and all(level_distinct(e[3]) for e in entries if e[0] == 'g')


def tag_uses(entries, out):
    for e in entries:
        out.setdefault(e[1], []).append(('g',) if e[0] == 'g' else ('f', e[2]))
        if e[0] == 'g':
            tag_uses(e[3], out)
    return out


def dict_ok(d):
    """the dictionaries of the statement: header, body and trailer with disjoint tags (all tags, nested ones included); inside a
    segment the entries of ONE level have distinct tags, a group may reuse tags of its enclosing segment / outer groups / other
    groups; a tag means the same field (same type) wherever it occurs and a group's count tag occurs once"""
    segs = [set(fc.all_tags(d[s])) for s in ('hdr', 'body', 'trl')]
    if segs[0] & segs[1] or segs[0] & segs[2] or segs[1] & segs[2]:
        return False
    if not all(level_distinct(d[s]) for s in ('hdr', 'body', 'trl')):
        return False
    for uses in tag_uses(d['hdr'] + d['body'] + d['trl'], {}).values():
        if len(set(uses)) != 1 or (uses[0] == ('g',) and len(uses) != 1):
            return False
    return True


def shares_tags(d):
    tags = fc.all_tags(d['hdr'] + d['body'] + d['trl'])
    return len(set(tags)) != len(tags)


def count_ends_groups(entries, seg, follow, dictionary_order, hits=None):
    """Is the wire unambiguous BY THE COUNT?  A group instance on the wire takes fields as long as the next tag is one of its group's
    entries and not yet in the instance.  The announced count says where the group ends - but only if no instance can take a field
    that is not its own: for every instance, the tag that directly follows its last field (`follow`: the first field of the next
    instance, or whatever follows the group in the enclosing instance / segment / the next segment) is either no entry of that group
    or already held by the instance.  With pairwise distinct tags this always holds; with reused tags it is the condition under which
    the statement's round trip is meaningful.  hits: collects ('count-only', depth) where ONLY the count ends the group (the following
    tag is an entry of the group, held by the last instance)."""
    order = [(e[1], dict(seg)[e[1]]) for e in entries if e[1] in dict(seg)] if dictionary_order else seg
    level = {e[1] for e in entries}
    keys = {t for t, _ in order}
    if follow is not None and follow in level and follow not in keys:
        return False
    for i, (t, v) in enumerate(order):
        if v[0] != 'grp':
            continue
        nxt = order[i + 1][0] if i + 1 < len(order) else follow
        e = fc.find_entry(entries, t)
        if e is None or e[0] != 'g':
            return False
        for j, inst in enumerate(v[1]):
            f = e[3][0][1] if j + 1 < len(v[1]) else nxt
            if not count_ends_groups(e[3], inst, f, True, hits):
                return False
            if hits is not None and j + 1 == len(v[1]) and f is not None and f in {x[1] for x in e[3]}:
                hits.append(t)
    return True


def counted_ok(d, m, hits=None):
    segs = [(s, m[s]) for s in ('hdr', 'body', 'trl')]
    firsts = [(m[s][0][0] if m[s] else None) for s, _ in segs]
    for i, (s, seg) in enumerate(segs):
        follow = next((f for f in firsts[i + 1:] if f is not None), None)
        if not count_ends_groups(d[s], seg, follow, False, hits):
            return False
    return True


def in_domain(d, m):
    """the property's quantifier, decided without the library and without the model"""
    if not dict_ok(d):
        return False
    if not py_wf(d, m) or not counted_ok(d, m) or not all(valid_values(d[s], m[s]) for s in ('hdr', 'body', 'trl')):
        return False
    # the header holds MsgType = the class's type, at any position (since /repo a2cfe01 the lookup is anchored at a field start:
    # Props/C13Anchor.lean `C13_statement_any_order`; fields in front of it may have tags ending in 35 and values containing `35=`)
    e35 = fc.find_entry(d['hdr'], 35)
    return e35 is not None and e35[0] == 'f' and e35[2] == 'string' and (35, ('s', d['type'])) in m['hdr']


def oracle_rt(ctx, d, m, msg, r, rep):
    """the statement of C13 on the implementation's behaviour; returns True when everything held"""
    ok = True

    def bad(what, **extra):
        nonlocal ok
        ok = False
        report(ctx, what, dict(rep, **extra))
    if 'enc_err' in r:
        bad(f'encoding a well-formed message raised {r["enc_err"]}', finding='encode-raises')
        return False
    ref = fc.ref_encode(d, m)
    if r['bytes'] != ref:
        reordered = sorted(r['bytes'].split(b'\x01')) == sorted(ref.split(b'\x01'))
        bad(f'bytes differ from the layout (segment fields in assignment order; count field = number of instances, instances in '
            f'dictionary order){" - the same fields, written in another order" if reordered else ""}: '
            f'got {r["bytes"][:80]!r} expected {ref[:80]!r}', finding='layout')
    if r['n'] != len(r['bytes']):
        bad(f'to_bytes reported {r["n"]} for {len(r["bytes"])} bytes', finding='length')
    if 'dec_err' in r:
        bad(f'decoding its own encoding raised {r["dec_err"]}', finding='decode-raises')
        return False
    if 'post_err' in r:
        bad(f'decoded message unusable: {r["post_err"]}', finding='decode-raises')
        return False
    if r['cls'] != d['name'] or type(r['dec']).Type != d['type']:
        bad(f'decoded class {r["cls"]} is not the class registered for MsgType {d["type"]}', finding='class')
        return False
    if fc.unordered(r['coll']) != fc.unordered(msg.as_collection()):
        bad('decoded message does not have the same field values', finding='values')
    elif fc.msg_of_collection(d, r['coll']) != fc.canon_msg(d, m):
        bad('decoded field order is not (top level: wire order, groups: dictionary order)', finding='values')
    if r['k'] != len(r['bytes']):
        bad(f'decode consumed {r["k"]} of {len(r["bytes"])} bytes', finding='consumed')
    if r['re'] != r['bytes']:
        bad('re-encoding the decoded message gives different bytes', finding='reencode')
    seg_ne = [s for s in ('hdr', 'body', 'trl') if not r.get('eq_seg', {}).get(s, True)]
    if not r['eq']:
        same_values = fc.unordered(r['coll']) == fc.unordered(msg.as_collection())
        order = not fc.msg_groups_in_dict_order(d, m)
        where = ''
        if seg_ne:
            names = {'hdr': 'header', 'body': 'body', 'trl': 'trailer'}
            dm = fc.msg_of_collection(d, r['coll']) if same_values else None
            where = '; ' + ', '.join(
                names[s] + (f' holds its fields in the order {[t for t, _ in dm[s]]}, assigned {[t for t, _ in m[s]]}'
                            if dm is not None and [t for t, _ in dm[s]] != [t for t, _ in m[s]] else ' differs') for s in seg_ne)
        bad('decoded message != original' + (' (group instance assigned out of dictionary order)' if order else '') + where,
            finding='group-eq-order' if (order and same_values) else 'eq')
    elif seg_ne:
        bad(f'decoded message == original, yet its {"/".join(seg_ne)} segment(s) compare unequal to the original\'s', finding='eq')
    return ok


# ------------------------------------------------------------------ shrinking
def shrink_rt(d, m, fails):
    """greedy: drop fields / instances / entries while `fails(d, m)` keeps returning the same finding"""
    base = fails(d, m)
    if base is None:
        return d, m
    changed = True
    rounds = 0
    while changed and rounds < 30:
        changed = False
        rounds += 1
        for cand in shrink_candidates(d, m):
            try:
                if not (py_wf(*cand) and in_domain(*cand)):
                    continue            # stay inside the property's quantifier
                if fails(*cand) == base:
                    d, m = cand
                    changed = True
                    break
            except Exception:  # noqa
                continue
    return d, m


def py_wf_seg(entries, seg, group):
    keys = [t for t, _ in seg]
    if len(set(keys)) != len(keys):
        return False
    if group and (not entries or entries[0][1] not in keys):
        return False
    for t, v in seg:
        e = fc.find_entry(entries, t)
        if e is None or (e[0] == 'g') != (v[0] == 'grp'):
            return False
        if v[0] == 'grp' and not all(py_wf_seg(e[3], inst, True) for inst in v[1]):
            return False
    return True


def py_wf(d, m):
    """harness-side copy of the well-formedness of the statement: known distinct keys, every instance has its first field"""
    return dict_ok(d) and all(py_wf_seg(d[s], m[s], False) for s in ('hdr', 'body', 'trl'))


def shrink_candidates(d, m):
    for s in ('trl', 'body', 'hdr'):
        for i, (t, v) in enumerate(m[s]):
            if t == 35:
                continue
            m2 = copy.deepcopy(m)
            del m2[s][i]
            yield d, m2
        for path, seg in list(walk_segs(m[s], ())):
            for i, (t, v) in enumerate(seg):
                if v[0] == 'grp':
                    if len(v[1]) >= 4:               # long instance lists: halves first
                        for keep in (slice(0, len(v[1]) // 2), slice(len(v[1]) // 2, None)):
                            m2 = copy.deepcopy(m)
                            seg2 = follow(m2[s], path)
                            seg2[i] = (t, ('grp', seg2[i][1][1][keep]))
                            yield d, m2
                    for j in range(len(v[1])):
                        m2 = copy.deepcopy(m)
                        seg2 = follow(m2[s], path)
                        del seg2[i][1][1][j]
                        yield d, m2
                if path and i > 0:
                    m2 = copy.deepcopy(m)
                    seg2 = follow(m2[s], path)
                    del seg2[i]
                    yield d, m2
                if v[0] == 'i' and v[1] not in (0, 1):
                    m2 = copy.deepcopy(m)
                    follow(m2[s], path)[i] = (t, ('i', 1))
                    yield d, m2
                if v[0] == 's' and v[1] != 'a' and t != 35:
                    m2 = copy.deepcopy(m)
                    follow(m2[s], path)[i] = (t, ('s', 'a'))
                    yield d, m2
                    if len(v[1]) > 1:
                        for ch in sorted(set(v[1]) - set(fc.PRINTABLE.replace('=', '').replace(' ', ''))):      # one special character alone
                            m2 = copy.deepcopy(m)
                            follow(m2[s], path)[i] = (t, ('s', ch))
                            yield d, m2
                        m2 = copy.deepcopy(m)
                        follow(m2[s], path)[i] = (t, ('s', v[1][:len(v[1]) // 2]))
                        yield d, m2
                        m2 = copy.deepcopy(m)
                        follow(m2[s], path)[i] = (t, ('s', v[1][len(v[1]) // 2:]))
                        yield d, m2
    used = {s: used_tags(m[s]) for s in ('hdr', 'body', 'trl')}
    for s in ('hdr', 'body', 'trl'):
        pruned = prune_entries(d[s], used[s])
        if pruned != d[s]:
            d2 = dict(d)
            d2[s] = pruned
            yield d2, m


def walk_segs(seg, path):
    yield path, seg
    for i, (t, v) in enumerate(seg):
        if v[0] == 'grp':
            for j, inst in enumerate(v[1]):
                yield from walk_segs(inst, path + ((i, j),))


def follow(seg, path):
    for i, j in path:
        seg = seg[i][1][1][j]
    return seg


def used_tags(seg):
    out = set()
    for t, v in seg:
        out.add(t)
        if v[0] == 'grp':
            for inst in v[1]:
                out |= used_tags(inst)
    return out


def prune_entries(entries, used):
    out = []
    for e in entries:
        if e[1] not in used:
            continue
        out.append(e if e[0] == 'f' else ('g', e[1], e[2], prune_entries(e[3], used) or e[3][:1]))
    return out


def make_fails(ctx_like):
    """closure: run the oracle on a fresh copy of the dictionary; return the first finding name or None"""
    def fails(d, m):
        d = dict(d, name=fc.fresh_name())
        built = fc.build_dictionary([d])
        got = impl_build(built, d, m)
        if got[0] != 'ok':
            return None
        msg = got[1]
        r = impl_rt({d['name']: d}, msg)
        col = Collector()
        oracle_rt(col, d, m, msg, r, {})
        return col.first
    return fails


class Collector:
    """stands in for ctx inside the shrinker"""
    def __init__(self):
        self.first = None
        self.known_hits = []

    def violation(self, what, replay):
        if self.first is None:
            self.first = replay.get('finding')


def shrunk_replay(d, m):
    d2, m2 = shrink_rt(d, m, make_fails(None))
    return d2, m2


# ------------------------------------------------------------------ run
def rt_replay_dict(mdefs, d, m, **extra):
    return dict({'kind': 'rt', 'reg': [sx(fc.mdef_sx(x)) for x in mdefs], 'mdef': sx(fc.mdef_sx(d)), 'msg': sx(fc.msg_sx(m))}, **extra)


MAX_SHRINKS = 2          # per run: shrinking rebuilds the dictionary classes many times (and Field.Def only grows)
_shrinks = [0]


def report_shrunk(ctx, mdefs, d, m, msg, r):
    """run the oracle; on failure shrink the case first and report the minimal one"""
    col = Collector()
    oracle_rt(col, d, m, msg, r, {})
    if col.first is None:
        return True
    known = any(k['signature'].get('finding') == col.first for k in KNOWN_LOCAL + common.load_known('C13'))
    ctx.count('known:' + col.first if known else 'violation:' + col.first)
    if known and ctx.known_hits:
        return False          # already reported once this run: no need to shrink again
    if len(ctx.violations) >= 20:
        return False
    if _shrinks[0] >= MAX_SHRINKS:
        oracle_rt(ctx, d, m, msg, r, rt_replay_dict(mdefs, d, m))
        return False
    _shrinks[0] += 1
    d2, m2 = shrunk_replay(d, m)
    d2 = dict(d2, name=fc.fresh_name())
    built = fc.build_dictionary([d2])
    got = impl_build(built, d2, m2)
    msg2 = got[1]
    r2 = impl_rt({d2['name']: d2}, msg2)
    oracle_rt(ctx, d2, m2, msg2, r2, rt_replay_dict([d2], d2, m2))
    return False


def load_corpus():
    out = []
    cdir = os.path.join(common.VERIF, 'corpus', 'C13')
    if os.path.isdir(cdir):
        for f in sorted(os.listdir(cdir)):
            if f.endswith('.json'):
                out.append(json.load(open(os.path.join(cdir, f))))
    return out


def case_from_replay(rep):
    mdefs = [fc.mdef_from_parsed(parse_sx(x)[0]) for x in rep['reg']]
    d = fc.mdef_from_parsed(parse_sx(rep['mdef'])[0])
    m = fc.msg_from_parsed(parse_sx(rep['msg'])[0])
    return mdefs, d, m


def rename(mdefs, d):
    """fresh class names for a replayed dictionary (Message.Def is process-global)"""
    ren = {x['name']: fc.fresh_name() for x in mdefs}
    mdefs2 = [dict(x, name=ren[x['name']]) for x in mdefs]
    d2 = dict(d, name=ren.get(d['name'], fc.fresh_name()))
    if d['name'] not in ren:
        mdefs2.append(d2)
    return mdefs2, d2


def gen_entry(rng, i, n_msg, n_mal, n_dec):
    shared = i % 4 == 1
    standard = i % 3 == 0          # every third dictionary uses the standard FIX header / trailer fields (tag 10 in the trailer, 8 / 9 / 34 … in the header)
    mdefs = gen_dictionary(rng, allow_float=(i % 3 != 2), overlap=(i % 11 == 10), shared=shared, standard=standard)
    entry = {'mdefs': mdefs, 'wf': [], 'mal': [], 'dec': []}
    seeds = []
    for _ in range(n_msg):
        d = rng.choice(mdefs)
        a = gen_assignments(rng, d)
        if shared and rng.random() < 0.7:
            a = favour_follow(rng, d, a)
        m = {s: built_seg(a[s]) for s in a}
        entry['wf'].append((d, a, m))
        seeds.append(fc.ref_encode(d, m))
    for _ in range(n_mal):
        d = rng.choice(mdefs)
        mut = mutate_assignments(rng, d, gen_assignments(rng, d))
        if mut is not None:
            entry['mal'].append((d, mut[0], mut[1]))
    types = [x['type'] for x in mdefs]
    for _ in range(n_dec):
        entry['dec'].append(mutate_bytes(rng, rng.choice(seeds), types))
    return entry


def gen_entry_short(rng, i, n_msg, n_dec):
    """one dictionary of the `shortest wire forms` family with its messages (and mutated encodings for the decoder)"""
    mdefs = gen_dictionary_short(rng, allow_float=(i % 3 != 2))
    entry = {'mdefs': mdefs, 'wf': [], 'mal': [], 'dec': [], 'short': True}
    seeds = []
    for _ in range(n_msg):
        d = rng.choice(mdefs)
        a = gen_assignments_short(rng, d)
        m = {s: built_seg(a[s]) for s in a}
        entry['wf'].append((d, a, m))
        seeds.append(fc.ref_encode(d, m))
    types = [x['type'] for x in mdefs]
    for _ in range(n_dec):
        entry['dec'].append(mutate_bytes(rng, rng.choice(seeds), types))
    return entry


def execute_plan(ctx, rng, plan):
    # ---------------- model answers, one batch
    lines = []
    for entry in plan:
        md = {x['name']: sx(fc.mdef_sx(x)) for x in entry['mdefs']}
        reg = '(' + ' '.join(md[x['name']] for x in entry['mdefs']) + ')'
        for d, a, m in entry['wf']:
            lines.append(f'fix.build {md[d["name"]]} {sx(fc.seg_sx(a["hdr"]))} {sx(fc.seg_sx(a["body"]))} {sx(fc.seg_sx(a["trl"]))}')
            lines.append(f'fix.rt {reg} {md[d["name"]]} {sx(fc.msg_sx(m))}')
        for d, kind, a in entry['mal']:
            lines.append(f'fix.build {md[d["name"]]} {sx(fc.seg_sx(a["hdr"]))} {sx(fc.seg_sx(a["body"]))} {sx(fc.seg_sx(a["trl"]))}')
        for kind, b in entry['dec']:
            lines.append(f'fix.dec {reg} {sx(b)}')
    if ctx.driver.available:
        answers = iter(ctx.driver.ask(lines))
    else:
        answers = iter([None] * len(lines))
        if 'model driver unavailable: oracle only' not in ctx.notes:
            ctx.notes.append('model driver unavailable: oracle only')
    # second batch (model round trip of successfully built out-of-domain messages) is asked per dictionary below
    fix = fc.fixmod()
    for entry in plan:
        mdefs = entry['mdefs']
        by_name = {x['name']: x for x in mdefs}
        try:
            built = fc.build_dictionary(mdefs)
        except Exception as e:  # noqa
            ctx.violation(f'defining the dictionary classes raised {err_name(e)}',
                          {'kind': 'dictionary', 'reg': [sx(fc.mdef_sx(x)) for x in mdefs]})
            for _ in range(2 * len(entry['wf']) + len(entry['mal']) + len(entry['dec'])):
                next(answers)
            continue
        # ---- well-formed messages
        edited = []
        for d, a, m in entry['wf']:
            a_build, a_rt = next(answers), next(answers)
            dom = in_domain(d, m)
            crep = sx(fc.mdef_sx(d)) + ' ' + sx(fc.msg_sx(m))
            ctx.case(crep if len(crep) < 600 else crep[:600] + '…', nontrivial=True, sample_every=131)
            ctx.count('wf:depth%d' % fc.depth_of(d['body'] + d['hdr'] + d['trl']))
            ctx.count('wf:groups' + str(min(3, sum(fc.count_groups(m[s]) for s in m))) + ('+' if sum(fc.count_groups(m[s]) for s in m) >= 3 else ''))
            ctx.count('wf:assignment-order-' + ('dictionary' if fc.msg_groups_in_dict_order(d, m) else 'shuffled'))
            off35 = offset_of_msgtype(d, m)
            if dom and off35:
                ctx.count('wf:MsgType-not-first' + ('+earlier-35=' if fc.ref_encode(d, m).find(b'35=') != off35 else ''))
            for s_ in ('hdr', 'body', 'trl'):
                for cls_ in text_classes(m[s_]):
                    ctx.count(f'wf:text:{s_}:{cls_}')
            tk = [t for t, _ in m['trl']]
            if 10 in tk and len(tk) >= 2:
                ctx.count('wf:trailer:CheckSum-' + ('assigned-last' if tk[-1] == 10 else 'assigned-before-another-trailer-field'))
            hk = [t for t, _ in m['hdr']]
            if len(hk) >= 3 and any(t in (8, 9, 34) for t in hk):
                ctx.count('wf:header:standard-fields:' + ('BeginString-first' if hk[0] == 8 else 'any-order'))
            if shares_tags(d):
                hits = []
                ctx.count('wf:reused-tags:' + ('in-domain' if dom else 'out-of-domain'))
                if dom and counted_ok(d, m, hits) and hits:
                    ctx.count('wf:reused-tags:only-the-count-ends-a-group')
            for cls_ in density_classes(d, m):
                ctx.count(('wf:short-family:' if entry.get('short') else 'wf:density:') + cls_ + ('' if dom else ':out-of-domain'))
            if not dom:
                ctx.count('wf:out-of-domain(segments not disjoint, an instance could take a field that follows its group, or no MsgType in the header)')
            got = impl_build(built, d, a, rng)
            rep = rt_replay_dict(mdefs, d, m)
            if got[0] != 'ok':
                report(ctx, f'assigning valid values raised {got[1]}', dict(rep, finding='build-raises'))
                continue
            msg = got[1]
            try:
                m_impl = fc.msg_of_collection(d, msg.as_collection())
            except Exception as e:  # noqa
                report(ctx, f'as_collection raised {err_name(e)}', dict(rep, finding='build-raises'))
                continue
            if m_impl != m:
                report(ctx, 'message does not hold the assigned values (a re-assigned key keeps its position)', dict(rep, finding='build'))
            if a_build is not None and a_build != 'ok ' + sx(fc.msg_sx(m_impl)):
                ctx.disagree(f'fix.build: model {a_build[:100]} vs implementation {sx(fc.msg_sx(m_impl))[:100]}', rep)
            fc.reregister(built)
            r = impl_rt(by_name, msg)
            if dom:
                report_shrunk(ctx, mdefs, d, m, msg, r)
                fc.reregister(built)
            if a_rt is not None:
                mine, theirs = impl_line(by_name, r), model_line_without_eqd(a_rt)
                if theirs.endswith('dec-err key') and mine != theirs and stale_type(by_name, r.get('bytes')):
                    ctx.count('wf:stale-type-skipped')        # MsgType of an earlier dictionary still in Message.Def
                elif mine != theirs:
                    ctx.disagree(f'fix.rt: model {theirs[:160]} vs implementation {mine[:160]}', rep)
            # ---- the same object, edited in place after it has been encoded, must encode what it holds NOW (group = count field +
            # instances in dictionary order of the message as it is, not as it was when first written)
            if dom and 'bytes' in r and rng.random() < 0.5:
                try:
                    m2 = fc.edit_in_place(rng, built, d, m, msg)
                    if m2 is not None:
                        ctx.count('wf:edited-in-place')
                        want = fc.ref_encode(d, m2)
                        with fc.time_limit(20):
                            got2 = bytes(msg.to_bytes()[1])
                        if got2 != want:
                            report(ctx, 're-encoding a message after a field of a group instance was changed in place does not give the '
                                        f'layout of its current values: {got2[:60]!r} vs {want[:60]!r}',
                                   dict(rt_replay_dict(mdefs, d, m2), kind='rt-inplace', before=sx(fc.msg_sx(m)), finding='stale-encoding'))
                        edited.append((d, m2, got2, rt_replay_dict(mdefs, d, m2)))
                except Exception as e:  # noqa
                    report(ctx, f'editing a group instance in place and re-encoding raised {err_name(e)}', dict(rep, finding='inplace-raises'))
        if edited and ctx.driver.available:
            reg = sx([fc.mdef_sx(x) for x in mdefs])
            ans = ctx.driver.ask([f'fix.rt {reg} {sx(fc.mdef_sx(d))} {sx(fc.msg_sx(m2))}' for d, m2, _, _ in edited])
            for (d, m2, got2, rep2), a2 in zip(edited, ans):
                parts = a2.split(' ')
                if parts[0] == 'ok' and parts[1] != sx(got2):
                    ctx.disagree(f'fix.rt after an in-place edit: model bytes {parts[1][:80]} vs implementation {sx(got2)[:80]}', rep2)
        # ---- out-of-domain assignments
        follow_up = []
        for d, kind, a in entry['mal']:
            a_build = next(answers)
            ctx.case('mal ' + kind + ' ' + sx(fc.msg_sx(a))[:300], nontrivial=True, sample_every=0)
            got = impl_build(built, d, a)
            rep = {'kind': 'build', 'reg': [sx(fc.mdef_sx(x)) for x in mdefs], 'mdef': sx(fc.mdef_sx(d)), 'assign': sx(fc.msg_sx(a))}
            if got[0] == 'ok':
                try:
                    mine = 'ok ' + sx(fc.msg_sx(fc.msg_of_collection(d, got[1].as_collection())))
                except Exception as e:  # noqa
                    mine = 'err-coll ' + err_name(e)
            else:
                mine = 'err ' + got[1]
            ctx.count(f'mal:{kind}:' + mine.split()[0] + (':' + mine.split()[1] if mine.startswith('err') else ''))
            if a_build is not None and a_build != mine:
                ctx.disagree(f'fix.build ({kind}): model {a_build[:120]} vs implementation {mine[:120]}', rep)
            if got[0] == 'ok' and mine.startswith('ok'):
                follow_up.append((d, kind, fc.msg_of_collection(d, got[1].as_collection()), got[1]))
        if follow_up and ctx.driver.available:
            reg = sx([fc.mdef_sx(x) for x in mdefs])
            ans = ctx.driver.ask([f'fix.rt {reg} {sx(fc.mdef_sx(d))} {sx(fc.msg_sx(m))}' for d, _, m, _ in follow_up])
            for (d, kind, m, msg), a_rt in zip(follow_up, ans):
                r = impl_rt(by_name, msg)
                mine, theirs = impl_line(by_name, r), model_line_without_eqd(a_rt)
                ctx.count(f'mal-rt:{kind}:' + ('enc-err' if 'enc_err' in r else 'dec-err' if 'dec_err' in r else 'ok'))
                if theirs.endswith('dec-err key') and mine != theirs and stale_type(by_name, r.get('bytes')):
                    ctx.count('mal-rt:stale-type-skipped')
                elif mine != theirs and 'float' in sx(fc.mdef_sx(d)) and (float_tokens_differ(theirs, mine) or mine.endswith('dec-err value')):
                    ctx.count('mal-rt:float-opaque-skipped')     # float(text) is not modelled
                elif mine != theirs:
                    ctx.disagree(f'fix.rt ({kind}): model {theirs[:160]} vs implementation {mine[:160]}',
                                 rt_replay_dict(mdefs, d, m))
        # ---- decoder on mutated bytes
        has_float = any('float' in sx(fc.mdef_sx(x)) for x in mdefs)
        for kind, b in entry['dec']:
            a_dec = next(answers)
            ctx.case('dec ' + b[:60].hex(), nontrivial=True, sample_every=0)
            rep = {'kind': 'dec', 'reg': [sx(fc.mdef_sx(x)) for x in mdefs], 'bytes': b.hex()}
            try:
                with fc.time_limit(20):
                    k, dec = fix.Message.from_bytes(b)
                name = getattr(type(dec), 'Name', '?')
                if name not in by_name:
                    ctx.count('dec:stale-class')
                    continue
                mine = f'ok {k} {sx(common.cps(name))} {sx(fc.msg_sx(fc.msg_of_collection(by_name[name], dec.as_collection())))}'
            except Exception as e:  # noqa
                mine = 'err ' + err_name(e)
                if mine == 'err key':
                    try:
                        ty = fix.Message.get_msg_type(b)
                    except Exception:  # noqa
                        ty = None
            ctx.count(f'dec:{kind}:' + mine.split()[0] + (':' + mine.split()[1] if mine.startswith('err') else ''))
            if a_dec is not None and a_dec != mine:
                if a_dec == 'err key' and stale_type(by_name, b):
                    ctx.count('dec:stale-type-skipped')      # MsgType of an earlier dictionary still in Message.Def
                    continue
                if has_float and (mine == 'err value' or float_tokens_differ(a_dec, mine)):
                    ctx.count('dec:float-opaque-skipped')    # float(text) is not modelled
                    continue
                ctx.disagree(f'fix.dec ({kind}): model {a_dec[:140]} vs implementation {mine[:140]}', rep)


def run_chunk(ctx, p):
    """one batch of generated dictionaries, in a fresh process (see fix_common.run_chunks)"""
    common.use_repo()
    use_fix_strings()
    plan = [gen_entry(ctx.rng, p['first'] + i, p['n_msg'], p['n_mal'], p['n_dec']) for i in range(p['count'])]
    # the `shortest wire forms` family draws from a generator of its own (seeded per chunk): the general family above is the same
    # sequence of cases whether or not this one runs
    import random
    rng_s = random.Random(f'C13-short-{ctx.seed}-{p["first"]}')
    plan += [gen_entry_short(rng_s, p['first'] + i, p['n_msg'], p['n_dec'] // 2) for i in range(p.get('n_short', 0))]
    execute_plan(ctx, ctx.rng, plan)


def run(ctx):
    rng = ctx.rng
    quick = ctx.tier == 'quick'
    use_fix_strings()
    ctx.notes.append('implementation group equality: ' + ('plain-dict (repaired)' if eq_is_repaired() else 'OrderedDict (order sensitive, known finding)'))
    n_dict = 1200 if quick else 12000
    n_msg = 8 if quick else 12
    n_mal = 4 if quick else 6
    n_dec = 12 if quick else 20
    ctx.cov['rule'] = ('random dictionaries (header with MsgType + 0-3 entries, 1-3 message classes with 0-6 body entries, trailer 0-3; '
                       'types int/float/bool/char/string; groups nested to depth 3; tags 1-5 digits, pairwise distinct; every third dictionary uses the standard FIX header / trailer fields like any other tag - 8, 9, 34, 49, 56, 50, 57, 52 anywhere in the header, '
                       '93, 89, 10 anywhere in the trailer, assigned in any order (CheckSum before Signature …) - and, every fourth '
                       'dictionary, groups that REUSE tags of their enclosing segment / outer group / first field of the outer group, with '
                       'the same-tag field assigned directly behind the group, judged by the oracle whenever the count alone ends every group '
                       '(no instance can take the field that follows it)) x messages '
                       '(optional subsets, 0..7 instances, shuffled assignment order, re-assignment, negative/huge ints, repr floats, '
                       "'=' inside strings, empty strings; text values over the whole FIX value alphabet: LF, CR, CRLF, TAB, NUL and the other "
                       "controls, DEL, blanks at either end, `35=` inside values — in header, body, trailer and group instances; headers with "
                       "entries in front of MsgType, tags ending in 35, MsgType assigned at any position); distinct = distinct (dictionary, message) s-expression; plus out-of-domain "
                       'assignments (type errors, unknown keys, bool in int field, non-ASCII, SOH in text, instance without first field) '
                       'and mutated byte strings for the decoder — those for model/implementation agreement only; plus the family of the '
                       'SHORTEST WIRE FORMS (per worker process 12 / 50 small dictionaries, generator seeded per chunk): groups whose first '
                       'field has a one-digit tag (1-7) and type String / char (also int / bool), the other entries optional, nested to '
                       'depth 3, count tags of 1-5 digits, trailer empty / CheckSum only / one field / a group; messages whose instances hold '
                       'their first field only, values of minimal width (the empty text, one character, one digit), 1-21 instances, the group '
                       'assigned last in its segment, nothing or little in the trailer, an inner group closing the last outer instance - '
                       'so that a message ends in 3-byte instances `t=<SOH>` and announces more instances than a quarter of the bytes left '
                       '(histogram wf:short-family:*)')
    # ---------------- plan all cases (pure data)
    plan = []      # per dictionary: {'mdefs', 'wf': [(d, assign, m)], 'mal': [(d, kind, assign)], 'dec': [(kind, bytes)]}
    for rep in load_corpus():
        if rep.get('kind') == 'rt':
            mdefs, d, m = case_from_replay(rep)
            mdefs, d = rename(mdefs, d)
            plan.append({'mdefs': mdefs, 'wf': [(d, m, m)], 'mal': [], 'dec': [], 'corpus': True})
    wit = None
    if ctx.driver.available:
        try:
            w = parse_sx(ctx.driver.ask(['fix.witness'])[0])
            mdefs = [fc.mdef_from_parsed(x) for x in w[0]]
            d = fc.mdef_from_parsed(w[1])
            m = fc.msg_from_parsed(w[2])
            mdefs, d = rename(mdefs, d)
            plan.append({'mdefs': mdefs, 'wf': [(d, m, m)], 'mal': [], 'dec': [], 'witness': True})
            wit = (d, m)
        except Exception as e:  # noqa
            ctx.notes.append(f'witness not available from the driver: {e!r}')
    execute_plan(ctx, rng, plan)                      # corpus + witness first (in this process)
    per = 60 if quick else 250                        # dictionaries per fresh worker process
    n_short = 12 if quick else 50                     # `shortest wire forms` dictionaries per worker process, on top of the general ones
    payloads = [{'first': s0, 'count': min(per, n_dict - s0), 'n_msg': n_msg, 'n_mal': n_mal, 'n_dec': n_dec, 'n_short': n_short}
                for s0 in range(0, n_dict, per)]
    fc.run_chunks(ctx, 'c13', payloads)
    if wit is not None:
        ctx.notes.append('Lean witness Witness.C13 (fix.witness) replayed on the implementation')
    n_short_corpus = len([f for f in os.listdir(os.path.join(common.VERIF, 'corpus', 'C13')) if f.startswith('short-')]) \
        if os.path.isdir(os.path.join(common.VERIF, 'corpus', 'C13')) else 0
    if n_short_corpus:
        ctx.notes.append(f'{n_short_corpus} messages of Props/C13Short.lean / Witness/C13Short.lean (corpus/C13/short-*.json: 3-byte group '
                         'instances closing the message) replayed on the implementation')


def stale_type(by_name, b):
    """the type `get_msg_type` extracts from `b` is not one of the current dictionary (the process-global `Message.Def`
    may still know it from an earlier dictionary; the model's registry is the current dictionary only)"""
    if b is None:
        return False
    try:
        ty = fc.fixmod().Message.get_msg_type(b)
    except Exception:  # noqa
        return False
    return ty not in by_name and ty not in [x['type'] for x in by_name.values()]


def float_tokens_differ(a, b):
    """both answers are `ok …` and differ only inside float tokens (the model keeps the text, Python normalises it:
    `float('3')` prints as `3.0`) and in what follows from that (equality flag, re-encoded bytes)"""
    if not (a.startswith('ok') and b.startswith('ok')):
        return False
    import re
    strip = lambda s: re.sub(r'\(fl \([0-9 ]*\)\)', '(fl)', s)
    if strip(a) == strip(b):
        return True
    pa, pb = parse_sx(a), parse_sx(b)
    if len(pa) == len(pb) == 7 and pa[:4] == pb[:4]:            # fix.rt: ok bytes n name msg eq re
        return strip(sx_of(pa[4])) == strip(sx_of(pb[4])) and sx_of(pa[4]) != sx_of(pb[4])
    return False


# ------------------------------------------------------------------ replay
def replay(ctx, path):
    r = json.load(open(path))
    rep = r.get('replay') or (r.get('no_longer_checks') or [{}])[-1].get('case') or r      # r: a corpus file
    ctx.cov['rule'] = 'replay of ' + path
    fix = fc.fixmod()
    kind = rep.get('kind')
    ctx.case('replay-marker')
    if kind == 'rt':
        mdefs, d, m = case_from_replay(rep)
        mdefs, d = rename(mdefs, d)
        by_name = {x['name']: x for x in mdefs}
        built = fc.build_dictionary(mdefs)
        got = impl_build(built, d, m)
        ctx.case(rep['msg'][:300])
        if got[0] != 'ok':
            print('implementation: assignment raised', got[1])
            report(ctx, f'assigning raised {got[1]}', dict(rep, finding='build-raises'))
            return
        msg = got[1]
        res = impl_rt(by_name, msg)
        print('original :', msg.as_collection())
        print('bytes    :', res.get('bytes'))
        if 'dec' in res:
            print('decoded  :', res.get('coll'), ' ==original:', res.get('eq'), ' consumed:', res.get('k'), ' class:', res.get('cls'))
        else:
            print('result   :', {k: v for k, v in res.items() if k != 'bytes'})
        if in_domain(d, m):
            oracle_rt(ctx, d, m, msg, res, dict(rep))
        if ctx.driver.available:
            reg = sx([fc.mdef_sx(x) for x in mdefs])
            a = ctx.driver.ask([f'fix.rt {reg} {sx(fc.mdef_sx(d))} {sx(fc.msg_sx(m))}'])[0]
            print('model    :', a[:400])
            if model_line_without_eqd(a) != impl_line(by_name, res):
                ctx.disagree('fix.rt differs', rep)
    elif kind == 'rt-inplace':
        mdefs, d, m2 = case_from_replay(rep)
        before = fc.msg_from_parsed(parse_sx(rep['before'])[0])
        mdefs, d = rename(mdefs, d)
        built = fc.build_dictionary(mdefs)
        got = impl_build(built, d, before)
        ctx.case(rep['msg'][:300])
        if got[0] != 'ok':
            report(ctx, f'assigning raised {got[1]}', dict(rep, finding='build-raises'))
            return
        msg = got[1]
        first = bytes(msg.to_bytes()[1])
        fc.apply_difference(built, d, before, m2, msg)
        second, want = bytes(msg.to_bytes()[1]), fc.ref_encode(d, m2)
        print('first encoding        :', first)
        print('after in-place edit   :', second)
        print('layout of its values  :', want)
        if second != want:
            report(ctx, 're-encoding a message after a field of a group instance was changed in place does not give the layout of its '
                        'current values', dict(rep))
    elif kind == 'build':
        mdefs = [fc.mdef_from_parsed(parse_sx(x)[0]) for x in rep['reg']]
        d = fc.mdef_from_parsed(parse_sx(rep['mdef'])[0])
        a = fc.msg_from_parsed(parse_sx(rep['assign'])[0])
        mdefs, d = rename(mdefs, d)
        built = fc.build_dictionary(mdefs)
        got = impl_build(built, d, a)
        mine = ('ok ' + sx(fc.msg_sx(fc.msg_of_collection(d, got[1].as_collection())))) if got[0] == 'ok' else 'err ' + got[1]
        print('implementation:', mine[:400])
        if ctx.driver.available:
            ans = ctx.driver.ask([f'fix.build {sx(fc.mdef_sx(d))} {sx(fc.seg_sx(a["hdr"]))} {sx(fc.seg_sx(a["body"]))} {sx(fc.seg_sx(a["trl"]))}'])[0]
            print('model         :', ans[:400])
            if ans != mine:
                ctx.disagree('fix.build differs', rep)
    elif kind == 'dec':
        mdefs = [fc.mdef_from_parsed(parse_sx(x)[0]) for x in rep['reg']]
        ren = {x['name']: fc.fresh_name() for x in mdefs}
        mdefs = [dict(x, name=ren[x['name']]) for x in mdefs]
        by_name = {x['name']: x for x in mdefs}
        fc.build_dictionary(mdefs)
        b = bytes.fromhex(rep['bytes'])
        try:
            k, dec = fix.Message.from_bytes(b)
            name = type(dec).Name
            mine = f'ok {k} {sx(common.cps(name))} {sx(fc.msg_sx(fc.msg_of_collection(by_name[name], dec.as_collection())))}'
        except Exception as e:  # noqa
            mine = 'err ' + err_name(e)
        print('implementation:', mine[:400])
        if ctx.driver.available:
            ans = ctx.driver.ask([f'fix.dec {sx([fc.mdef_sx(x) for x in mdefs])} {sx(b)}'])[0]
            print('model         :', ans[:400])
            if ans != mine:
                ctx.disagree('fix.dec differs', rep)
    else:
        print('nothing to replay in', path)
