"""C08 — a logged-in session never stays silent longer than two heartbeat intervals of its own role.

Correspondence: real soup client / soup server / FIX sessions under the virtual-time loop against Model/Monitor.lean
(driver drv_C08, op `hb.run`): time, kind and liveness of every write while the session is alive.
Oracle (implementation only): the property statement evaluated on the observed writes with the interval of the
session's *own role* — (a) every window (t, t+2I] before close contains a write, (b) idle periods between ticks get
exactly one heartbeat, (c) no heartbeat at a tick when the application sent something since the previous tick.
"Application sends" are the application messages that were actually *written*: "every pattern of application sends" includes send
attempts the library rejects (`sendfail:*` events: the call raises before the write — validation failure, value that cannot be
encoded, oversized payload); such an attempt transmits nothing, so it neither serves a window of (a) nor excuses a missing
heartbeat in (b).  Schedules contain them at every phase relative to the ticks (Props/C08Failed.lean: erasable from any history).

Transport flow control (`hw`, `wstop`, `wgo` — see monitor_common): "every pattern of application sends" is quantified on top of
whatever the *transport* does, and an asyncio transport talks back: when the peer stops reading, the transport buffers and calls the
session's `pause_writing()`; when the peer reads again, `resume_writing()`.  The oracle is unchanged — an outbound transmission is a
`transport.write` call, whether the transport passes the bytes on at once or keeps them in a buffer that is already full: the
property is about the session emitting (a session that goes quiet because its peer is slow is exactly what the peer's heartbeat
monitor would punish).  Schedules: the peer stops reading at every phase relative to the ticks, for a fraction of an interval up to
five intervals, on transports whose high-water mark is reached by the first or by a later write; idle and sending applications.
Model: Model/MonitorFlow.lean (`hbf.run`; the callbacks the transport made are events), theorems Props/C08Flow.lean.
"""
import itertools
import json

import monitor_common as mc
from monitor_common import own_interval, life, describe

DRIVER = 'drv_C08'
LEAN_TARGETS = ['NasdaqModel.Props.C08', 'NasdaqModel.Props.C08Failed', 'NasdaqModel.Props.C08Flow', 'drv_C08']
KNOWN_LOCAL = [k for k in mc.KNOWN_LOCAL if k['property'] == 'C08']


# ------------------------------------------------------------------ oracle
def oracle(case, obs, interval=None):
    """list of failure descriptions of the property statement on one observation"""
    I = interval if interval is not None else own_interval(case)
    if 'error' in obs:
        return [f"the session raised {obs['error']}"]
    fails = []
    if obs.get('loop_exceptions'):
        fails.append(f"exception reached the event loop: {obs['loop_exceptions']}")
    if obs.get('offgrid'):
        fails.append('a write happened off the time grid (neither at a tick nor at a scripted send)')
    L = life(obs, case)
    by_mon = bool(obs['closed']) and obs['closed'][1] == 'mon'
    last_end = L - 1 if by_mon else L          # windows must end before the instant the monitor closed the session
    live = [w for w in obs['writes'] if w[2] == 'live' or (by_mon and w[0] == L)]
    times = sorted({w[0] for w in live})
    explicit_hb = sorted(t for t, ev in case['events'] if ev == 'sendhb')
    app = sorted(w[0] for w in obs['writes'] if w[1] == 'app')
    # (a) every window (t, t + 2I] that ends before close contains an outbound write
    for t in range(0, last_end - 2 * I + 1):
        if not any(t < x <= t + 2 * I for x in times):
            fails.append(f'no outbound write in the window ({t}, {t + 2 * I}] (own interval {I}, session alive until {L})')
            break
    # (b)/(c) tick by tick
    k = 2
    while k * I <= last_end:
        T = k * I
        recent = [x for x in app if T - I <= x < T]
        hbs = [w for w in obs['writes'] if w[1] == 'hb' and T - I < w[0] <= T]
        n_auto = len(hbs) - len([x for x in explicit_hb if T - I < x <= T])
        if not recent and n_auto != 1:
            fails.append(f'application idle in [{T - I}, {T}) but {n_auto} heartbeats were emitted in ({T - I}, {T}] instead of one')
            break
        if recent and n_auto != 0:
            fails.append(f'heartbeat emitted in ({T - I}, {T}] although the application sent at {recent[-1]} (interval {I})')
            break
        k += 1
    return fails


def classify(case, obs, fails):
    """replay dict for a failing case; `kind` says whether the session merely behaves as if its two intervals were exchanged"""
    kind = 'c08'
    # only when the observation is long enough for the exchanged interval to be a real test, not a vacuous one
    if case['ci'] != case['si'] and 'error' not in obs and mc.life(obs, case) >= 2 * max(case['ci'], case['si']) \
            and not oracle(case, obs, interval=mc.peer_interval(case)):
        kind = 'role-intervals-swapped'
    return dict(case, kind=kind, property='C08', observed=mc.canon(obs), why=fails[0])


# ------------------------------------------------------------------ generators
def exhaustive(role, I, k, far):
    """all schedules of at most k send attempts — each one either accepted (`send`) or rejected by the library (`sendfail`) — on the
    odd instants of the first four intervals"""
    pts = mc.odd_points(0, 4 * I)
    H = 6 * I + 1
    out = []
    for n in range(k + 1):
      for sub in itertools.combinations(pts, n):
        for kinds in itertools.product(['send', 'sendfail'], repeat=n):
            sends = [[t, kd] for t, kd in zip(sub, kinds)]
            if role == 'soupServer':
                out.append({'role': role, 'ci': I, 'si': I, 'events': mc.merge(sends, mc.feed(6, H)), 'horizon': H})
            else:
                out.append({'role': role, 'ci': I, 'si': far, 'events': sends, 'horizon': H})
    return out


def failing_sends(rng, I, H, sends):
    """rejected send attempts to go with the accepted `sends` of a schedule (odd instants)"""
    odd = mc.odd_points(0, H)
    style = rng.random()
    if style < 0.3:                      # a few isolated rejected attempts
        return rng.sample(odd, min(len(odd), rng.randrange(1, 5)))
    if style < 0.55:                     # an application that retries an invalid message about once per interval, from some moment on
        start = rng.choice(odd)
        p = rng.choice([I - 2, I, I, I + 2, 2 * I - 2])
        return list(range(start, H, max(2, p)))
    if style < 0.8:                      # rejected attempts hugging the ticks (just before / just after)
        return [k * I + rng.choice([-1, 1]) for k in range(1, H // I + 1) if rng.random() < 0.6]
    # the same message retried a few times right after an accepted send
    out = []
    for t in sends[:3]:
        out += [t + 2 * j for j in range(1, rng.randrange(2, 5))]
    return out or [rng.choice(odd)]


def random_case(rng, thorough):
    role = rng.choice(mc.ROLES)
    I = rng.choice([4, 6, 8, 8, 10, 12, 16])                       # interval of the session's own role
    H = rng.randrange(4 * I, (14 if thorough else 9) * I) | 1
    equal = rng.random() < 0.15
    mode = rng.random()
    if equal:
        P = I
        mode = max(mode, 0.45)
    elif mode < 0.45:                    # peer interval far away: no remote trip
        P = 2 * ((H + 40) // 2 + rng.randrange(1, 9))
    else:
        P = rng.choice([x for x in (4, 6, 8, 12, 16, 24) if x != I])
    ev = []
    if 0.45 <= mode < 0.8:               # peer keeps the session alive with bytes
        ev += mc.feed(rng.choice([p for p in (2, 4, 6, 8, 12, 16, 22) if p <= P]), H, rng.choice(['recv:hb', 'recv:msg', 'recv:frag']))
    elif mode >= 0.8:                    # peer goes silent at some point: closed by the remote monitor mid-run
        stop = rng.randrange(1, H)
        ev += [e for e in mc.feed(rng.choice([p for p in (2, 4, 6) if p <= P]), H) if e[0] < stop]
    ci, si = (P, I) if role == 'soupServer' else (I, P)
    odd = mc.odd_points(0, H)
    style = rng.random()
    sends = []
    if style < 0.35:                     # a few isolated sends
        sends = rng.sample(odd, min(len(odd), rng.randrange(0, 5)))
    elif style < 0.6:                    # sends hugging the ticks of the own interval (just before / just after)
        for k in range(1, H // I + 1):
            if rng.random() < 0.5:
                sends.append(k * I + rng.choice([-1, 1]))
    elif style < 0.8:                    # a busy stretch then silence
        a = rng.choice(odd)
        b = min(H, a + rng.randrange(1, 4 * I))
        sends = [t for t in odd if a <= t < b and rng.random() < 0.7]
    else:                                # periodic sender with a period around the interval
        p = rng.choice([I - 2, I, I + 2, 2 * I - 2, 2 * I, 2 * I + 2])
        sends = list(range(rng.choice([1, 3, 5]), H, max(2, p)))
    ev += [[t, 'send'] for t in sends if 0 < t < H]
    if rng.random() < 0.5:
        taken = set(sends)
        ev += [[t, 'sendfail'] for t in sorted(set(failing_sends(rng, I, H, sorted(sends)))) if 0 < t < H and t not in taken]
    ev += [[t, 'sendhb'] for t in rng.sample(odd, min(len(odd), rng.choice([0, 0, 1, 2])))]
    if rng.random() < 0.2:
        ev.append([rng.choice(odd), 'close'])
    return {'role': role, 'ci': ci, 'si': si, 'events': mc.merge(ev), 'horizon': H}


def unequal_server_cases(rng, n):
    """the server role with unequal intervals and a chatty client (regression family of the fixed call-site defect)"""
    out = []
    for _ in range(n):
        I = rng.choice([4, 6, 8])
        P = rng.choice([x for x in (4, 8, 12, 16, 24) if x != I])
        H = (6 * max(I, P)) | 1
        ev = mc.feed(2, H)
        ev += [[t, 'send'] for t in rng.sample(mc.odd_points(0, H), rng.randrange(0, 3))]
        out.append({'role': 'soupServer', 'ci': P, 'si': I, 'events': mc.merge(ev), 'horizon': H})
    return out


# high-water marks (bytes) per session kind: reached by the first buffered write / only by a later one (soup heartbeat 3 bytes,
# soup application message 4..7, FIX frames 60..120)
HW = {'soupClient': [0, 5, 12], 'soupServer': [0, 5, 12], 'fix': [0, 100, 260]}


def flow_cases(role, I, far, thorough):
    """the peer stops reading at every phase `a` relative to the ticks and reads again d units later (d from a fraction of an interval
    to five intervals) x high-water mark reached by the first / a later write x an application that is idle, sends once while the
    transport is paused, or sends just before the peer stops"""
    out = []
    phases = mc.odd_points(0, 2 * I) if thorough else [1, I - 1, I + 1, 2 * I - 1]
    for hw in HW[role][:3 if thorough else 2]:
        for a in phases:
            for d in (2, I, 2 * I, 2 * I + 2, 3 * I, 5 * I):
                for app in ('idle', 'send-paused', 'send-before'):
                    if (app == 'send-before' and (a < 3 or not thorough)) or (app == 'send-paused' and d < 4):
                        continue
                    b = a + d
                    H = b + 3 * I + 1
                    ev = [[a, 'wstop'], [b, 'wgo']]
                    if app == 'send-paused':
                        ev.append([a + 2 * (d // 4), 'send'])       # an odd instant strictly inside (a, b)
                    elif app == 'send-before':
                        ev.append([a - 2, 'send'])
                    if role == 'soupServer':
                        out.append({'role': role, 'ci': I, 'si': I, 'hw': hw, 'events': mc.merge(ev, mc.feed(6, H)), 'horizon': H})
                    else:
                        out.append({'role': role, 'ci': I, 'si': far, 'hw': hw, 'events': mc.merge(ev), 'horizon': H})
    return out


def add_flow(rng, case):
    """a write buffer and one to three stop / read episodes of the peer at random odd instants (also partial reads and a kernel that
    still takes some bytes) on top of a random schedule"""
    H, I = case['horizon'], own_interval(case)
    odd = mc.odd_points(0, H)
    ev = list(case['events'])
    for _ in range(rng.choice([1, 1, 2, 3])):
        a = rng.choice(odd)
        d = rng.choice([2, I, 2 * I, 2 * I + 2, 3 * I, 4 * I + 2, 2 * rng.randrange(1, 3 * I)])
        k = rng.choice([0, 0, 0, 2, 50])
        ev.append([a, 'wstop' + (f':{k}' if k else '')])
        if rng.random() < 0.25:
            ev.append([a + 2 * rng.randrange(1, d // 2 + 1), f'wgo:{rng.choice([1, 3, 8, 70])}'])
        if rng.random() < 0.9:
            ev.append([a + d, 'wgo'])
    ev = [e for e in ev if 0 < e[0] < H]
    hw = rng.choice(HW[case['role']] + [HW[case['role']][-1] * 4])
    c = dict(case, events=mc.merge(ev), hw=hw)
    if rng.random() < 0.5:
        c['lw'] = rng.choice([0, hw // 4, hw // 2, hw])
    return c


# ------------------------------------------------------------------ one case
def check_case(ctx, case, model_line, tag, obs=None):
    if obs is None:
        obs = mc.impl_run(case)
    ctx.case(describe(case), nontrivial=bool(case['events']) or tag == 'exhaustive', sample_every=211)
    ctx.count(f"{tag}:{case['role']}")
    for _t, ev in case['events']:
        if ev.startswith('send'):
            ctx.count(f"{case['role']}:{ev}")
    if case.get('hw') is not None:
        fl = obs.get('flow') or []
        ctx.count('flow:' + ('paused-over-two-intervals' if any(
            e == 'wpause' and min([t2 for t2, e2 in fl if e2 == 'wresume' and t2 >= t] + [case['horizon']]) - t > 2 * own_interval(case)
            for t, e in fl if isinstance(t, int)) else 'paused' if fl else 'never-paused'))
    if 'error' in obs:
        ctx.count('impl-error')
    else:
        ctx.count('closed:' + (obs['closed'][1] if obs['closed'] else 'no'))
        ctx.count('intervals:' + ('equal' if case['ci'] == case['si'] else 'unequal'))
    fails = oracle(case, obs)
    if fails and len(ctx.violations) >= 3:        # enough minimised examples: record the rest as they are
        mc.report(ctx, f"{case['role']} (client interval {case['ci']}, server interval {case['si']}): {fails[0]}", classify(case, obs, fails))
    elif fails:
        kind = classify(case, obs, fails)['kind']

        def still(c):
            o = mc.impl_run(c)
            f = oracle(c, o)
            return bool(f) and classify(c, o, f)['kind'] == kind
        small = mc.shrink(case, still)
        o2 = mc.impl_run(small)
        f2 = oracle(small, o2) or fails
        rep = classify(small, o2, f2)
        mc.report(ctx, f"{small['role']} (client interval {small['ci']}, server interval {small['si']}): {f2[0]}", rep)
    if model_line is not None:
        # C08 speaks about the writes while the session is alive; when (and whether) it is closed is C09's observable:
        # compare every write before the earlier of the two close instants
        m = mc.parse_model(model_line)
        ci, cm = mc.canon(obs), mc.canon(m)
        if 'error' in ci or 'error' in cm:
            same = False
        else:
            upto = min(life(ci, case), life(cm, case))
            same = [w for w in ci['writes'] if w[0] < upto] == [w for w in cm['writes'] if w[0] < upto] \
                and ci.get('offgrid') == cm.get('offgrid')
        if not same:
            ctx.disagree(f"{'hbf' if case.get('hw') is not None else 'hb'}.run {describe(case)[:150]}: implementation {json.dumps(ci)[:300]} vs model {json.dumps(cm)[:300]}",
                         dict(case, kind='correspondence'))
    return obs


def run(ctx):
    rng = ctx.rng
    thorough = ctx.tier == 'thorough'
    ctx.cov['rule'] = ('send schedules on a grid of I/8 (ticks on even instants, sends on odd ones): exhaustive up to '
                       f"{3 if thorough else 2} send attempts, each accepted or rejected by the library (validation / encoding failure: raises before "
                       'the write), over four intervals x 3 session kinds, then random schedules (isolated, tick-hugging, bursts, '
                       'periodic; rejected attempts isolated / once per interval / tick-hugging / retried after a send; explicit heartbeats; '
                       'peer feeding / silent / far; application close), unequal client/server intervals; '
                       'transport write flow control (write buffer with high/low-water marks, the transport calls pause_writing() / '
                       'resume_writing() as asyncio does): the peer stops reading at every phase relative to the ticks for 2 units .. 5 intervals '
                       'x high-water mark reached by the first / a later write x idle / sending application, and 1..3 stop/read episodes '
                       '(partial reads, kernel slack) on 12% of the random schedules; '
                       'distinct = distinct (role, intervals, schedule, horizon)')
    ctx.notes.append('an outbound transmission is a transport.write call: a write accepted into a buffer that is over its high-water mark '
                     'counts (the property is about the session emitting); the pause_writing()/resume_writing() calls the fake transport made '
                     'are handed to the model as events at the instants they happened (Model/MonitorFlow.lean)')
    ctx.notes.append('ties between a monitor tick and an external event are excluded from generated schedules; heartbeats written at the '
                     'instant the remote monitor closes the session are not compared (timer-heap order of equal floats)')
    cases = []
    for c in mc.load_corpus('C08'):
        if 'role' in c:
            cases.append(('corpus', mc.case_of(c)))
    for role in mc.ROLES:
        for c in exhaustive(role, 8, 3 if thorough else 2, 400):
            cases.append(('exhaustive', c))
        if thorough:
            for c in exhaustive(role, 4, 3, 402):
                cases.append(('exhaustive', c))
    for c in unequal_server_cases(rng, 30 if thorough else 8):
        cases.append(('server-unequal', c))
    for role in mc.ROLES:
        for c in flow_cases(role, 8, 400, thorough):
            cases.append(('flow', c))
        if thorough:
            for c in flow_cases(role, 4, 402, False):
                cases.append(('flow', c))
    for _ in range(20000 if thorough else 1500):
        c = random_case(rng, thorough)
        if rng.random() < 0.12:
            cases.append(('random-flow', add_flow(rng, c)))
        else:
            cases.append(('random', c))
    for tag, c in cases:
        if tag != 'corpus':
            mc.vary_sends(rng, c)
    # the implementation runs first: the flow-control callbacks its transport made are part of the history the model is asked about
    observed = mc.impl_run_many([c for _, c in cases])
    lines = [mc.model_request(c, o.get('flow')) for (_, c), o in zip(cases, observed)]
    ans = ctx.driver.ask(lines) if ctx.driver.available else [None] * len(lines)
    for (tag, c), o, a in zip(cases, observed, ans):
        check_case(ctx, c, a, tag, obs=o)


def replay(ctx, path):
    r = json.load(open(path))
    rep = r.get('replay') or (r.get('no_longer_checks') or [{}])[-1].get('case') or r
    case = mc.case_of(rep)
    ctx.cov['rule'] = 'replay of ' + path
    obs = mc.impl_run(case)
    line = ctx.driver.ask([mc.model_request(case, obs.get('flow'))])[0] if ctx.driver.available else None
    check_case(ctx, case, line, 'replay', obs=obs)
    print('case          :', describe(case))
    print('implementation:', json.dumps(mc.canon(obs)))
    if case.get('hw') is not None:
        print('transport     :', 'flow-control callbacks made', json.dumps(obs.get('flow')))
    print('model         :', json.dumps(mc.canon(mc.parse_model(line))) if line else None)
    print('oracle        :', oracle(case, obs) or 'holds')
