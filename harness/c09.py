"""C09 — peer silence closes the session within (n+1) intervals of the peer's role; a live peer is never timed out;
any inbound byte counts.

Correspondence: real soup client / soup server / FIX sessions under the virtual-time loop against Model/Monitor.lean
(driver drv_C08, op `hb.run`): close time and who closed, under concurrent local activity; and bare
`HeartbeatMonitor`s with tolerance 0..3 and both stop flags (op `mon.run`): trip times.
Oracle (implementation only), with the interval of the *peer's role* and n = 1 for sessions:
(a) no byte in (p, p+(n+1)P] => closed by p+(n+1)P;  (b) closed for inactivity => some window of length P without a byte;
arrival kinds (heartbeat / other message / fragment of a frame) are not distinguished by the oracle.

Hold-ups (`block:<d>` events, see monitor_common): "whatever else it is doing" includes a handler that blocks the event loop.
While the loop is blocked nothing can be handed to the session, so the notion of "the peer delivers a byte" used by (b) is the
instant the bytes **reach the socket** (the stamp of the `recv:*` event); bytes that arrive during a hold-up are handed to
`data_received` when it ends, before the late timers of that loop iteration run (asyncio processes selector events before due
timers).  (b) is evaluated on those stamps, unchanged: a peer with a byte in every window of P is never dropped, for every length
and phase of the hold-up.  (a) cannot hold to the letter while the loop is blocked (no code runs): its deadline is extended by the
total length of the hold-ups that overlap the window (each hold-up delays a check by at most its own length).
Model side: Model/MonitorLate.lean (`hbl.run`), theorems in Props/C09Late.lean (every check window is at least one interval long
because the next sleep starts when the late check ran).

Application latency and inbound back-pressure (`recv:msg@d`, `recv:burst:n@d`, `loginlat` — see monitor_common): "whatever else it
is doing" also includes an application whose message callback *awaits* (the loop keeps running, the dispatcher task is inside the
callback) and an application that consumes more slowly than the peer sends (a backlog of parsed messages).  Neither is an excuse:
(a) silence closes the session in bounded time also when the trip instant falls while a callback is in flight, for every latency
and phase; (b) a peer that keeps writing a byte in every window is never dropped, however long the backlog — "the peer delivers a
byte" is the instant the peer writes (the bytes reach the socket: the stamp of the `recv:*` event), as for hold-ups.  All inbound
bytes go through `FakeTransport.feed`, which honours `pause_reading()`: a session that stops reading under back-pressure does
not see the bytes, the oracle still counts them.  Both oracles are unchanged.  Model side: the remote monitor consults neither
the queue nor the dispatcher (Props/C09Flow.lean explains why there is nothing to add); the callbacks of a transport with write
flow control are events of `hbf.run` (Model/MonitorFlow.lean), `C09Flow_*`.

Backlog of UNPARSED bytes (`flood_case`): the backlog above is one of parsed messages (thousands of frames, tens of kilobytes).  The
other backlog a session can hold is the reader's buffer: the reader parses one frame per 0.1 ms poll (0.08 units), so a burst of
300 - 600 KiB of small frames (tens of thousands of soup frames, thousands of FIX frames) written by the peer in one go takes
hundreds of intervals to parse, while the peer goes on heart-beating in every window.  Same events (`recv:burst:<n>@<d>`, n chosen
from the frame size of the role so that the burst is a multiple of 256 KiB / 64 KiB marks a byte-based limit could sit at), same
transport (`feed`: one `data_received` call for what the peer wrote while the session was reading, everything else waits while
reading is paused), same oracle: never to be dropped.  The run stops a few intervals after the burst (nothing of either clause needs
the drain to complete).
"""
import itertools
import json

import monitor_common as mc
from monitor_common import peer_interval, describe

DRIVER = 'drv_C08'
LEAN_TARGETS = ['NasdaqModel.Props.C09', 'NasdaqModel.Props.C09Late', 'NasdaqModel.Props.C09Flow', 'drv_C08']
KNOWN_LOCAL = [k for k in mc.KNOWN_LOCAL if k['property'] == 'C09']


# ------------------------------------------------------------------ oracles
def silent_window_exists(recvs, P, end):
    """is there a closed window of length P inside [0, end] without an arrival?"""
    if end < P:
        return False
    pts = sorted(r for r in recvs if r <= end)
    if not pts:
        return True
    if pts[0] > P or end - pts[-1] > P:
        return True
    return any(b - a > P and a + P < end for a, b in zip(pts, pts[1:]))


def deadline(p, bound, blocks):
    """p + bound, extended by the hold-ups that overlap (p, deadline]: while the loop is blocked no check can run"""
    dl = p + bound
    while True:
        ext = p + bound + sum(e - b for b, e in blocks if b < dl and e > p)
        if ext == dl:
            return dl
        dl = ext


def oracle(case, obs, interval=None, n=1):
    P = interval if interval is not None else peer_interval(case)
    if 'error' in obs:
        return [f"the session raised {obs['error']}"]
    fails = []
    if obs.get('loop_exceptions'):
        fails.append(f"exception reached the event loop: {obs['loop_exceptions']}")
    H = case['horizon']
    closed = obs['closed']
    c = closed[0] if closed else None
    if closed and not isinstance(c, int):
        return fails + ['is_closed() is true but transport.close() was never called (or off the grid)']
    recvs = sorted(t for t, ev in case['events'] if ev.startswith('recv'))
    blocks = mc.blocks_of(case)
    bound = (max(n, 1) + 1) * P
    # (a) silence => closed in bounded time
    for p in [0] + recvs:
        if c is not None and p >= c:
            break
        nxt = min([r for r in recvs if r > p], default=None)
        dl = deadline(p, bound, blocks)
        if (nxt is None or nxt > dl) and dl <= H:
            if c is None or c > dl:
                fails.append(f'no byte from the peer in ({p}, {dl}] (peer interval {P}'
                             + (f', event loop held up during {[list(b) for b in blocks if b[0] < dl and b[1] > p]}' if dl > p + bound else '')
                             + ') but the session was ' + ('never closed' if c is None else f'closed only at {c}'))
                break
    # (b) live peer never dropped
    if closed and closed[1] == 'mon' and not silent_window_exists([r for r in recvs if r < c], P, c):
        fails.append(f'closed for inactivity at {c} although every window of {P} (peer interval) up to then contains a byte from the peer'
                     + (f' (event loop held up during {[list(b) for b in blocks if b[0] < c]}; bytes that arrived meanwhile were handed over '
                        'when each hold-up ended, before the late timers ran)' if any(b[0] < c for b in blocks) else ''))
    return fails


def classify(case, obs, fails):
    kind = 'c09'
    # only when the observation is long enough for the exchanged interval to be a real test, not a vacuous one
    if case['ci'] != case['si'] and 'error' not in obs and mc.life(obs, case) >= 2 * max(case['ci'], case['si']) \
            and not oracle(case, obs, interval=mc.own_interval(case)):
        kind = 'role-intervals-swapped'
    return dict(case, kind=kind, property='C09', observed=mc.canon(obs), why=fails[0])


def monitor_oracle(m, obs):
    if 'error' in obs:
        return [f"the monitor raised {obs['error']}"]
    I, n = m['interval'], max(m['tol'], 1)
    pings = sorted(t for t, ev in m['events'] if ev == 'ping')
    blocks = mc.blocks_of(m)
    trips = obs['trips']
    fails = []
    if any(t is None for t in trips):
        return ['trip off the time grid']
    first = trips[0] if trips else None
    for p in [0] + pings:
        if first is not None and p >= first:
            break
        nxt = min([r for r in pings if r > p], default=None)
        dl = deadline(p, (n + 1) * I, blocks)
        if (nxt is None or nxt > dl) and dl <= m['horizon']:
            if first is None or first > dl:
                fails.append(f'no ping in ({p}, {dl}] (interval {I}, tolerance {m["tol"]}, hold-ups {[list(b) for b in blocks]}) but first trip {first}')
                break
    if first is not None and not silent_window_exists([r for r in pings if r < first], I, first):
        fails.append(f'tripped at {first} although every window of {I} contains a ping')
    if m['stop'] and len(trips) > 1:
        fails.append(f'stop_when_no_activity monitor tripped {len(trips)} times')
    return fails


# ------------------------------------------------------------------ generators
KINDS = ['recv:hb', 'recv:msg', 'recv:frag']


def exhaustive(role, P, k, far, rng):
    """all schedules of at most k arrivals on the odd instants of the first four peer intervals"""
    pts = mc.odd_points(0, 4 * P)
    H = 7 * P + 1
    out = []
    for n in range(k + 1):
        for sub in itertools.combinations(pts, n):
            ev = [[t, rng.choice(KINDS)] for t in sub]
            if role == 'soupServer':
                out.append({'role': role, 'ci': P, 'si': P, 'events': ev, 'horizon': H})
            else:
                out.append({'role': role, 'ci': far, 'si': P, 'events': ev, 'horizon': H})
    return out


def random_case(rng, thorough):
    role = rng.choice(mc.ROLES)
    P = rng.choice([4, 6, 8, 8, 10, 12, 16])                     # interval of the peer's role
    H = rng.randrange(4 * P, (16 if thorough else 10) * P) | 1
    equal = rng.random() < 0.15
    I = P if equal else rng.choice([x for x in (4, 6, 8, 12, 16, 24, 2 * ((H + 40) // 2)) if x != P])
    odd = mc.odd_points(0, H)
    style = rng.random()
    arr = []
    if style < 0.3:                      # periodic peer, period around the interval, possibly stopping
        p = rng.choice([2, P - 2, P - 2, P, P, P + 2, 2 * P - 2, 2 * P, 2 * P + 2])
        stop = H if rng.random() < 0.5 else rng.choice(odd)
        arr = [t for t in range(rng.choice([1, 3, P - 1, P + 1]), H, max(2, p)) if t < stop]
    elif style < 0.5:                    # arrivals hugging the remote monitor's ticks
        for k in range(1, H // P + 1):
            r = rng.random()
            if r < 0.4:
                arr.append(k * P - 1)
            elif r < 0.8:
                arr.append(k * P + 1)
    elif style < 0.7:                    # lively, then a gap, then lively again
        a = rng.choice(odd)
        g = rng.choice([P - 2, P, P + 2, 2 * P - 2, 2 * P, 2 * P + 2, 3 * P])
        arr = [t for t in odd if (t < a or t > a + g) and rng.random() < 0.8]
    elif style < 0.85:                   # a few isolated arrivals
        arr = rng.sample(odd, min(len(odd), rng.randrange(0, 6)))
    else:                                # every period between ticks gets exactly one byte, at a random phase
        arr = [k * P + rng.choice(mc.odd_points(0, P)) for k in range(0, H // P + 1)]
    kinds = rng.choice([KINDS, ['recv:hb'], ['recv:msg'], ['recv:frag'], ['recv:frag', 'recv:msg']])
    ev = [[t, rng.choice(kinds)] for t in sorted(set(arr)) if 0 < t < H]
    act = rng.random()                   # concurrent local activity
    if act < 0.5:
        ev += [[t, rng.choice(['send', 'send', 'sendhb'])] for t in rng.sample(odd, min(len(odd), rng.randrange(1, 8)))]
    elif act < 0.65:
        ev += [[t, 'send'] for t in range(1, H, rng.choice([2, 4, I, I + 2]))]
    if rng.random() < 0.15:
        ev.append([rng.choice(odd), 'close'])
    ci, si = (P, I) if role == 'soupServer' else (I, P)
    return {'role': role, 'ci': ci, 'si': si, 'events': mc.merge(ev), 'horizon': H}


def hold_cases(role, P, far):
    """a peer that is live by the letter — one byte per period p <= P at every phase — x one hold-up of the event loop at every phase
    relative to the checks and every (odd) length from a fraction of an interval to more than two intervals.  Never to be dropped."""
    out = []
    for p in (P - 2, P):
        for phase in mc.odd_points(0, p):
            for b in mc.odd_points(P, 2 * P):
                for d in range(1, 2 * P + 6, 2):
                    H = b + d + 3 * P + 1
                    ev = mc.merge(mc.feed(p, H, 'recv:hb', start=phase), [[b, f'block:{d}']])
                    ci, si = (P, P) if role == 'soupServer' else (far, P)
                    out.append(mc.sanitize({'role': role, 'ci': ci, 'si': si, 'events': ev, 'horizon': H}))
    return out


def latency_cases(role, P, far, thorough):
    """one message whose application callback awaits for L units, arriving at phase t, L from half a unit to beyond the bound of two
    peer intervals — so that the remote monitor's trip instant falls before, at and after the end of the callback — followed by
    silence (must be closed in time), by a second slow message queued behind it, or by a peer that stays live (must not be dropped)"""
    out = []
    phases = mc.odd_points(0, 2 * P) if thorough else [1, P - 1, P + 1]
    lats = [x + 0.5 for x in range(0, 3 * P, 1 if thorough else 2)]
    k = 0
    for t in phases:
        for L in lats:
            for after in ('silence', 'second', 'live'):
                if after == 'second' and L < P:
                    continue
                k += 1
                H = (t + max(4 * P, int(L) + 2 * P) + 3) | 1
                ev = [[t, f'recv:msg@{L}']]
                if after == 'second':
                    ev.append([t + 2, f'recv:msg@{L / 2 + 0.25 if int(L) % 2 else L}'])
                elif after == 'live':
                    ev += mc.feed(P - 2, H, 'recv:hb', start=t + P - 2)
                ci, si = (P, P) if role == 'soupServer' else (far, P)
                c = {'role': role, 'ci': ci, 'si': si, 'events': mc.merge(ev), 'horizon': H}
                if role == 'soupServer' and k % 3:
                    c['loginlat'] = [0, 3.5, 2 * P + 4.5][k % 3]      # `on_login` itself awaits before it accepts
                out.append(c)
    return out


def burst_case(rng, role, P, far, n, L):
    """the peer sends n small messages in one segment, then goes on heart-beating every P-2 units; the application's callback awaits
    L units per message, so a backlog of parsed messages builds up (the reader parses one message per 0.08 units).  Never to be
    dropped.  The horizon covers the growth of the backlog to several hundred messages and some intervals beyond."""
    H = min(int(n * 0.08) + 6 * P, 40 * P) | 1
    ev = mc.merge([[1, f'recv:burst:{n}@{L}']], mc.feed(P - 2, H, rng.choice(['recv:hb', 'recv:hb', 'recv:frag']), start=3))
    ci, si = (P, rng.choice([P, 6, 12])) if role == 'soupServer' else (far, P)
    return {'role': role, 'ci': ci, 'si': si, 'events': ev, 'horizon': H}


# smallest inbound frame `Rig._frame('msg', lat)` produces per role, in bytes (soup: 2 length + 1 type + payload; FIX: a Nope with
# header, Username and trailer is 85+ bytes): used to size a burst in BYTES, and checked against the transport's log in check_case
FRAME_MIN = {'soupClient': 3, 'soupServer': 3, 'fix': 85}
FLOOD_KIB = [272, 300, 384, 520, 600]                 # beyond 256 KiB, beyond 512 KiB
FLOOD_KIB_SMALL = [70, 96, 136, 200]                  # thorough only: beyond 64 KiB / 128 KiB


def burst_bytes(case):
    """lower bound of the bytes the largest `recv:burst` of a case carries"""
    best = 0
    for _t, e in case['events']:
        if e.startswith('recv:burst:'):
            n, lat = e[11:].split('@')
            per = FRAME_MIN[case['role']] + (len(lat) if case['role'] != 'fix' else 0)
            best = max(best, int(n) * per)
    return best


def flood_case(rng, role, P, far, kib, L):
    """the peer writes `kib` KiB of small frames in one go (tens of thousands of soup frames / thousands of FIX frames: a backlog of
    UNPARSED bytes in the reader's buffer that takes the one-frame-per-poll reader hundreds of intervals to work off), then goes on
    heart-beating every P-2 units (whole heartbeats, fragments, small messages).  Never to be dropped.  The horizon ends a few
    intervals after the burst: both clauses are decided by then, the rest of the drain adds nothing."""
    lat = str(L)
    per = FRAME_MIN[role] + (len(lat) if role != 'fix' else 0)
    n = kib * 1024 // per + 1
    t0 = rng.choice([1, 3, P + 1, 2 * P + 3])
    H = (t0 + rng.choice([5, 7, 10]) * P) | 1
    ev = mc.merge([[t0, f'recv:burst:{n}@{lat}']], mc.feed(P - 2, H, rng.choice(['recv:hb', 'recv:hb', 'recv:frag', 'recv:msg']), start=1 if t0 > 1 else 3))
    ci, si = (P, rng.choice([P, 6, 12])) if role == 'soupServer' else (far, P)
    return {'role': role, 'ci': ci, 'si': si, 'events': ev, 'horizon': H}


def add_latency(rng, case, P):
    """slow application callbacks on some of the messages of a random schedule"""
    ev = []
    for t, e in case['events']:
        if e == 'recv:msg' and rng.random() < 0.7:
            e = f'recv:msg@{rng.choice([0, 1, 3, P - 1, P, P + 1, 2 * P - 1, 2 * P + 1, 3 * P, rng.randrange(0, 3 * P)]) + 0.5}'
        ev.append([t, e])
    return dict(case, events=ev)


def add_blocks(rng, case, P):
    """one to three hold-ups at random odd instants, odd lengths from 1 to a few intervals"""
    H = case['horizon']
    odd = mc.odd_points(0, H)
    ev = list(case['events'])
    for _ in range(rng.choice([1, 1, 2, 3])):
        d = rng.choice([1, 3, P - 1, P + 1, P + 3, 2 * P - 1, 2 * P + 1, 2 * P + 3, 3 * P + 1, rng.randrange(1, 4 * P) | 1])
        ev.append([rng.choice(odd), f'block:{d}'])
    return mc.sanitize(dict(case, events=mc.merge(ev)))


def unequal_server_cases(rng, n):
    out = []
    for i in range(n):
        P = rng.choice([4, 6, 8])
        I = rng.choice([x for x in (4, 8, 12, 16, 24) if x != P])
        H = (6 * max(I, P)) | 1
        if i % 2:     # peer live by its own interval
            ev = mc.feed(P - 2 if P > 2 else 2, H, rng.choice(KINDS))
        else:         # peer silent after a while
            ev = [e for e in mc.feed(2, H) if e[0] < rng.randrange(1, H // 2)]
        out.append({'role': 'soupServer', 'ci': P, 'si': I, 'events': mc.merge(ev), 'horizon': H})
    return out


def random_monitor(rng):
    I = rng.choice([4, 6, 8, 10])
    tol = rng.choice([0, 1, 1, 2, 3])
    H = rng.randrange(3 * I, 14 * I) | 1
    odd = mc.odd_points(0, H)
    style = rng.random()
    if style < 0.4:
        p = rng.choice([2, I - 2, I, I + 2, 2 * I, 3 * I - 2])
        stop = H if rng.random() < 0.4 else rng.choice(odd)
        pings = [t for t in range(rng.choice([1, 3, I - 1, I + 1]), H, max(2, p)) if t < stop]
    elif style < 0.7:
        pings = rng.sample(odd, min(len(odd), rng.randrange(0, 7)))
    else:
        pings = [k * I + rng.choice([-1, 1]) for k in range(1, H // I + 1) if rng.random() < 0.6]
    m = {'interval': I, 'tol': tol, 'stop': rng.random() < 0.6, 'events': [[t, 'ping'] for t in sorted(set(pings)) if 0 < t < H], 'horizon': H}
    if rng.random() < 0.3:               # the event loop is held up once or twice (oracle only)
        ev = list(m['events'])
        for _ in range(rng.choice([1, 1, 2])):
            ev.append([rng.choice(odd), f"block:{rng.choice([1, 3, I - 1, I + 1, 2 * I - 1, 2 * I + 1, 3 * I + 1])}"])
        end, out = -1, []
        for t, e in mc.merge(ev):
            if e.startswith('block:'):
                if t <= end:
                    continue
                end = t + int(e[6:])
            out.append([t, e])
        m['events'] = out
        m['horizon'] = max(H, end + 1)
    return m


# ------------------------------------------------------------------ one case
def check_case(ctx, case, model_line, tag, obs=None):
    if obs is None:
        obs = mc.impl_run(case)
    ctx.case(describe(case), nontrivial=bool(case['events']) or tag == 'exhaustive', sample_every=211)
    ctx.count(f"{tag}:{case['role']}")
    for _t, ev in case['events']:
        if ev.startswith('send'):
            ctx.count(f"{case['role']}:{ev}")
    bb = burst_bytes(case)
    if bb:
        ctx.count('burst-bytes:' + ('>512KiB' if bb > 512 * 1024 else '>256KiB' if bb > 256 * 1024 else '>64KiB' if bb > 64 * 1024 else '<=64KiB'))
    if 'error' in obs:
        ctx.count('impl-error')
    else:
        if obs.get('read_paused'):
            ctx.count('session-paused-reading')
        ctx.count('closed:' + (obs['closed'][1] if obs['closed'] else 'no'))
        ctx.count('intervals:' + ('equal' if case['ci'] == case['si'] else 'unequal'))
        c = mc.life(obs, case)
        for t, ev in case['events']:
            if ev.startswith('recv:msg@') and t < c < t + float(ev[9:]) + 0.1:
                ctx.count('callback-in-flight-at-close')
                break
    fails = oracle(case, obs)
    if fails and len(ctx.violations) >= 3:        # enough minimised examples: record the rest as they are
        mc.report(ctx, f"{case['role']} (client interval {case['ci']}, server interval {case['si']}): {fails[0]}", classify(case, obs, fails))
    elif fails:
        kind = classify(case, obs, fails)['kind']

        def still(c):
            o = mc.impl_run(c)
            f = oracle(c, o)
            return bool(f) and classify(c, o, f)['kind'] == kind
        start = case
        if obs.get('closed') and isinstance(obs['closed'][0], int):
            # first move: nothing after the close matters to either clause
            c = obs['closed'][0]
            cand = dict(case, events=[e for e in case['events'] if e[0] <= c], horizon=max(c + 1, max(mc.blocks_of(case), default=(0, 0))[1] + 1))
            if still(cand):
                start = cand
        small = shrink_bursts(mc.shrink(start, still), still)
        o2 = mc.impl_run(small)
        f2 = oracle(small, o2) or fails
        rep = classify(small, o2, f2)
        mc.report(ctx, f"{small['role']} (client interval {small['ci']}, server interval {small['si']}): {f2[0]}", rep)
    if model_line is not None:
        # C09 speaks about the close (when, by whom) — the writes are C08's observable and are compared there
        m = mc.parse_model(model_line)
        ci, cm = mc.canon(obs), mc.canon(m)
        if 'error' in ci or 'error' in cm or ci['closed'] != cm['closed']:
            ctx.disagree(f"hb.run {describe(case)[:150]}: implementation closed={json.dumps(ci.get('closed', ci))} vs model closed={json.dumps(cm.get('closed', cm))}",
                         dict(case, kind='correspondence'))
        elif mc.blocks_of(case):
            # schedules with hold-ups exist only here: compare the writes as well (late heartbeats of the local monitor), as C08 does
            upto = mc.life(ci, case)
            wi, wm = [w for w in ci['writes'] if w[0] < upto], [w for w in cm['writes'] if w[0] < upto]
            if wi != wm:
                ctx.disagree(f"hbl.run {describe(case)[:150]}: implementation writes {json.dumps(wi)[:300]} vs model {json.dumps(wm)[:300]}",
                             dict(case, kind='correspondence'))
    return obs


def shrink_bursts(case, still):
    """halve the bursts of a failing case while it keeps failing (the smallest backlog that shows the failure)"""
    cur = case
    for _ in range(8):
        ev, changed = [], False
        for t, e in cur['events']:
            if e.startswith('recv:burst:'):
                n, L = e[11:].split('@')
                if int(n) > 8:
                    e, changed = f'recv:burst:{int(n) * 3 // 4}@{L}', True
            ev.append([t, e])
        if not changed:
            break
        cand = dict(cur, events=ev)
        if not still(cand):
            break
        cur = cand
    return cur


def check_monitor(ctx, m, model_line):
    obs = mc.impl_monitor(m)
    ctx.case(f"monitor I={m['interval']} tol={m['tol']} stop={m['stop']} H={m['horizon']} events={[(t, e) if e != 'ping' else t for t, e in m['events']][:30]}",
             nontrivial=True, sample_every=97)
    ctx.count(f"monitor:tol{m['tol']}:{'stop' if m['stop'] else 'keep'}" + (':held-up' if mc.blocks_of(m) else ''))
    fails = monitor_oracle(m, obs)
    if fails:
        ctx.violation(f"HeartbeatMonitor(interval {m['interval']}, tolerance {m['tol']}): {fails[0]}", dict(m, kind='monitor', property='C09', observed=obs))
    if model_line is not None:
        mo = mc.parse_monitor(model_line)
        if mo != obs:
            ctx.disagree(f"mon.run I={m['interval']} tol={m['tol']} stop={m['stop']}: implementation {obs} vs model {mo}", dict(m, kind='monitor-correspondence'))
    return obs


def run(ctx):
    rng = ctx.rng
    thorough = ctx.tier == 'thorough'
    ctx.cov['rule'] = ('arrival schedules on a grid of P/8 (ticks on even instants, arrivals on odd ones): exhaustive up to '
                       f"{3 if thorough else 2} arrivals over four peer intervals x 3 session kinds, then random schedules (periodic around the interval, "
                       'tick-hugging, gap in a lively stream, isolated, one per period; heartbeat / message / fragment arrivals; concurrent sends; '
                       'application close), unequal intervals; hold-ups of the event loop (a handler that blocks for d units, bytes arriving meanwhile '
                       'handed over when it ends, before the late timers): a peer with one byte per period p in {P-2, P} at every phase x hold-up at '
                       'every phase x every odd length up to 2P+5, and 1..3 random hold-ups in 30% of the random schedules; '
                       'application latency: a message whose callback AWAITS for L units (L = 0.5 .. 3P) at every phase, followed by silence / a '
                       'second slow message / a live peer, soup server also with a slow on_login, and slow callbacks on 20% of the random '
                       'schedules; inbound back-pressure: bursts of several hundred to a few thousand messages in one segment with an awaiting '
                       'consumer while the peer goes on heart-beating, all bytes through a transport that honours pause_reading(); '
                       'backlog of UNPARSED bytes: 272 - 600 KiB of small frames written in one go (tens of thousands of soup frames, thousands '
                       'of FIX frames; the reader parses one per 0.08 units) while the peer goes on heart-beating, 2 per quick run / 18 in thorough '
                       '(there also 70 - 200 KiB); '
                       'write flow control episodes (as C08) on 6% of the random schedules; '
                       'bare monitors with tolerance 0..3 (30% with hold-ups, oracle only); distinct = distinct case')
    ctx.notes.append('a hold-up is a synchronous jump of the virtual clock inside a callback; "the peer delivers a byte" is then the instant the bytes '
                     'reach the socket, handed to data_received when the hold-up ends (before the late timers, as in BaseEventLoop._run_once)')
    ctx.notes.append('callback latency and backlog are not model inputs (the remote monitor consults neither queue nor dispatcher: Props/C09Flow.lean); '
                     'a burst is one data_received call for the model; "the peer delivers a byte" = the peer writes it (FakeTransport.feed), whether or '
                     'not the session is reading at that moment')
    ctx.notes.append('ties between a monitor tick and an arrival are excluded from generated schedules; heartbeats written at the '
                     'instant the remote monitor closes the session are not compared (timer-heap order of equal floats)')
    cases = []
    for c in mc.load_corpus('C09'):
        if 'role' in c:
            cases.append(('corpus', mc.case_of(c)))
    for role in mc.ROLES:
        for c in exhaustive(role, 8, 3 if thorough else 2, 400, rng):
            cases.append(('exhaustive', c))
        if thorough:
            for c in exhaustive(role, 4, 3, 402, rng):
                cases.append(('exhaustive', c))
    for c in unequal_server_cases(rng, 30 if thorough else 8):
        cases.append(('server-unequal', c))
    for role in mc.ROLES:
        for c in hold_cases(role, 8, 400):
            cases.append(('hold', c))
        if thorough:
            for c in hold_cases(role, 4, 402) + hold_cases(role, 12, 404):
                cases.append(('hold', c))
    for role in mc.ROLES:
        for c in latency_cases(role, 8, 400, thorough):
            cases.append(('latency', c))
        if thorough:
            for c in latency_cases(role, 4, 402, False):
                cases.append(('latency', c))
    # bursts: one per session kind in the quick tier (a few thousand messages each: the expensive family)
    sizes = [64, 300, 520, 800, 1300, 2600, 5000] if thorough else [800, 1300, 2000]
    for i in range(36 if thorough else 3):
        role = mc.ROLES[i % 3]
        cases.append(('burst', burst_case(rng, role, rng.choice([6, 8, 8, 12]), 400, rng.choice(sizes), rng.choice([0.3, 0.5, 0.5, 1.5]))))
    # floods: a backlog of unparsed BYTES (the roles alternate with the seed; FIX frames are encoded one by one: the slowest)
    order = list(mc.ROLES)
    rng.shuffle(order)
    for i in range(18 if thorough else 2):
        role = order[i % 3]
        kib = rng.choice(FLOOD_KIB + (FLOOD_KIB_SMALL if thorough else []))
        cases.append(('flood', flood_case(rng, role, rng.choice([6, 8, 8, 12]), 400, kib, rng.choice([0.5, 0.5, 0.3, 1.5]))))
    import c08
    for _ in range(16000 if thorough else 1300):
        c = random_case(rng, thorough)
        r = rng.random()
        if r < 0.3:
            cases.append(('random-hold', add_blocks(rng, c, mc.peer_interval(c))))
        elif r < 0.5:
            cases.append(('random-latency', add_latency(rng, c, mc.peer_interval(c))))
        elif r < 0.56:
            cases.append(('random-flow', c08.add_flow(rng, c)))
        else:
            cases.append(('random', c))
    mons = [random_monitor(rng) for _ in range(6000 if thorough else 600)]
    for tag, c in cases:
        if tag != 'corpus':
            mc.vary_sends(rng, c)
    mreqs = [mc.monitor_request(m) for m in mons]
    # the implementation runs first: the flow-control callbacks its transport made are part of the history the model is asked about
    observed = mc.impl_run_many([c for _, c in cases])
    lines = [mc.model_request(c, o.get('flow')) for (_, c), o in zip(cases, observed)] + [r for r in mreqs if r is not None]
    ans = ctx.driver.ask(lines) if ctx.driver.available else [None] * len(lines)
    for (tag, c), o, a in zip(cases, observed, ans):
        check_case(ctx, c, a, tag, obs=o)
    mans = iter(ans[len(cases):])
    for m, r in zip(mons, mreqs):
        check_monitor(ctx, m, next(mans) if r is not None else None)


def replay(ctx, path):
    r = json.load(open(path))
    rep = r.get('replay') or (r.get('no_longer_checks') or [{}])[-1].get('case') or r
    ctx.cov['rule'] = 'replay of ' + path
    if 'role' in rep:
        case = mc.case_of(rep)
        obs = mc.impl_run(case)
        line = ctx.driver.ask([mc.model_request(case, obs.get('flow'))])[0] if ctx.driver.available else None
        check_case(ctx, case, line, 'replay', obs=obs)
        print('case          :', describe(case))
        print('implementation:', json.dumps(mc.canon(obs)))
        if obs.get('read_paused'):
            print('transport     :', 'the session paused / resumed reading at', json.dumps(obs['read_paused']))
        print('model         :', json.dumps(mc.canon(mc.parse_model(line))) if line else None)
        print('oracle        :', oracle(case, obs) or 'holds')
    else:
        m = {k: rep[k] for k in ('interval', 'tol', 'stop', 'events', 'horizon')}
        req = mc.monitor_request(m)
        line = ctx.driver.ask([req])[0] if (ctx.driver.available and req is not None) else None
        obs = check_monitor(ctx, m, line)
        print('monitor       :', m)
        print('implementation:', obs)
        print('model         :', mc.parse_monitor(line) if line else None)
        print('oracle        :', monitor_oracle(m, obs) or 'holds')
