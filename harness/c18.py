"""C18 — messages are independent values: no state is shared between instances.

Random operation histories (construct / read / assign / mutate-in-place / encode / decode / scribble-the-buffer) over 2-4
instances of dynamically generated binary (ITCH-style application) and FIX message types are executed on the real library and
on the Lean heap model (Model/Heap.lean, driver `heap.run`).  Decoded are complete encodings and SHORT frames: `cutbuf b n` makes
a new buffer of the first n bytes of buffer b (every field / count / element boundary of the frame, and bytes in between); the
decoded messages' lists are then changed in place and FRESH instances of every class are created and observed (`short-decode`
histories; model: Model/HeapCut.lean, driver `heapc.run`; Props/C18Short.lean).

* correspondence: after every operation the status (ok / exception class), the value a `read` returned, and for every live
  instance the deep value of all its reads and its encoding are compared between model and implementation;
* oracle (implementation only): an operation about instance `a` changes neither the reads nor the encoding of any other
  instance; reading / encoding / scribbling over / cutting a decode buffer changes nobody; an instance created later (constructor or
  decoder) reads and encodes exactly what a pristine instance of that class / the first decode of the same bytes read; no mutable object is
  reachable through reads from two instances, from an instance and a class-level default, or from an instance and a buffer.
"""
import itertools
import json
import os

from common import sx, parse_sx, err_name, VERIF

# narrow signatures of findings that are reported as KNOWN until the coordinator registers / fixes them
KNOWN_LOCAL = []      # C18-shared-array-default is repaired in /repo fcb8b8f (recorded as `fixed`, suppresses nothing)

_UNIQ = itertools.count()
HEAPD = True          # the driver answers `heapd.run` (Model/HeapD.lean: declared defaults on array / record fields, 2-D arrays)

INT_TYPES = {  # (width, signed, big endian) -> attribute of nasdaq_protocols.common.message.types
    (1, 0, 0): 'Byte',
    (2, 1, 0): 'Short', (2, 1, 1): 'ShortBE', (2, 0, 0): 'UnsignedShort', (2, 0, 1): 'UnsignedShortBE',
    (4, 1, 0): 'Int', (4, 1, 1): 'IntBE', (4, 0, 0): 'UnsignedInt', (4, 0, 1): 'UnsignedIntBE',
    (8, 1, 0): 'Long', (8, 1, 1): 'LongBE', (8, 0, 0): 'UnsignedLong', (8, 0, 1): 'UnsignedLongBE',
}


def lib():
    """the library modules, imported lazily (run.py points sys.path at VERIF_REPO first)"""
    from nasdaq_protocols.common.message import structures as st, types as ty
    from nasdaq_protocols import itch, fix
    return st, ty, itch, fix


def class_level_default():
    """the class-level list handed out for unset array fields (None once the library no longer has one)"""
    st = lib()[0]
    d = getattr(st.Array, 'default_value', None)
    return d if isinstance(d, list) else None


_MODE = None


def array_default_mode():
    """which of the two behaviours the library under test has for a never-assigned array field:
    'shared' — every read returns one class-level list (the code as it is), 'fresh' — every read returns a new list
    (repaired get_field_value).  Anything else is reported as 'fresh' and will show up as a correspondence difference."""
    global _MODE
    if _MODE is None:
        st, ty, _itch, _fix = lib()
        rec = type(f'C18probe{os.getpid()}', (st.Record,), {'Fields': [st.Field('probe_items', st.Array(ty.Byte))]})
        a, b = rec(), rec()
        x, y = a.probe_items, a.probe_items
        _MODE = 'shared' if (x is y and x is b.probe_items) else 'fresh'
    return _MODE


def reset_globals():
    """every history starts from import-time state of the one piece of class-level mutable data"""
    d = class_level_default()
    if d is not None and len(d):
        del d[:]


# ------------------------------------------------------------------ worlds: python classes for a schema
class World:
    """spec = list of class descriptions in the s-expression shape of the driver:
         ['rec', msgid|'-', fty...]   fty = ['int', w, s, b, dflt|'-'] | ['arr', ety, [w, s, b]] | ['recd', c]
                                      | ['arr', ety, [w, s, b], dflt-tree]  (declared default: a list tree, rows / records inside)
                                      | ['recd', c, dflt-tree]              (declared default on a record-typed field)
                                      ety = ['int', w, s, b] | ['recd', c] | ['arr', ['int', w, s, b], [w, s, b]]  (2-D: rows)
         ['fmsg', h, b, t]            ['fseg', 'g'|'s', ['f', tag, 'int'|'str'] | ['g', tag, cls] ...]"""

    def __init__(self, spec):
        st, ty, itch, fix = lib()
        self.spec = spec
        self.u = f'C18w{os.getpid()}x{next(_UNIQ)}'
        self.py = [None] * len(spec)        # record / segment / fix message class per class id
        self.msg = {}                       # class id of a body record -> binary message class
        self.cid = {}                       # python class -> class id
        self.fix_fields = {}
        self.containers = {}
        self.base = None
        self.default_objs = []              # the python objects given as declared defaults (class-level, must never be handed out)
        self.default_fields = []            # (Field object, tree of its declared default): rebuilt before every history
        if any(c[0] == 'rec' and c[1] != '-' for c in spec):
            ns = {'itch': itch}
            exec(f"class Base(itch.Message, app_name={self.u!r}):\n"
                 f"    def __init_subclass__(cls, **kwargs):\n"
                 f"        kwargs['app_name'] = {self.u!r}\n"
                 f"        super().__init_subclass__(**kwargs)\n", ns)
            self.base = ns['Base']
        for c in range(len(spec)):
            self.build(c)
        self.depth = 2 * len(spec) + 8

    def int_type(self, w, s, b):
        return getattr(lib()[1], INT_TYPES[(w, s, b)])

    def build(self, c):
        if self.py[c] is not None:
            return self.py[c]
        st, ty, itch, fix = lib()
        d = self.spec[c]
        if d[0] == 'rec':
            fields = []
            for i, f in enumerate(d[2:]):
                name = f'c{c}_f{i}'
                if f[0] == 'int':
                    kw = {} if f[4] == '-' else {'default_value': f[4]}
                    fields.append(st.Field(name, self.int_type(*f[1:4]), **kw))
                elif f[0] == 'arr':
                    e = f[1]
                    if e[0] == 'int':
                        et = self.int_type(*e[1:4])
                    elif e[0] == 'arr':
                        et = st.Array(self.int_type(*e[1][1:4]), self.int_type(*e[2]))      # array="double": rows
                    else:
                        et = self.build(e[1])
                    kw = {}
                    if len(f) > 3:
                        kw['default_value'] = self.value(f[3])
                    fields.append(st.Field(name, st.Array(et, self.int_type(*f[2])), **kw))
                    if len(f) > 3:
                        self.default_fields.append((fields[-1], f[3]))
                else:
                    kw = {}
                    rc = self.build(f[1])
                    if len(f) > 2:
                        kw['default_value'] = self.value(f[2])
                    fields.append(st.Field(name, rc, **kw))
                    if len(f) > 2:
                        self.default_fields.append((fields[-1], f[2]))
            if d[1] == '-':
                cls = type(f'{self.u}_R{c}', (st.Record,), {'Fields': fields})
            else:
                ns = {'Base': self.base, 'Record': st.Record, 'FIELDS': fields}
                exec(f"class {self.u}_M{c}(Base, indicator={int(d[1])}):\n"
                     f"    class BodyRecord(Record):\n"
                     f"        Fields = FIELDS\n", ns)
                self.msg[c] = ns[f'{self.u}_M{c}']
                cls = self.msg[c].BodyRecord
                self.cid[self.msg[c]] = c
        elif d[0] == 'fseg':
            entries = []
            for e in d[2:]:
                if e[0] == 'f':
                    entries.append(fix.Entry(self.fix_field(e[1], e[2]), False))
                else:
                    cnt = self.fix_field(e[1], 'int')
                    g = self.build(e[2])
                    ns = {'fix': fix, 'CNT': cnt, 'G': g}
                    exec(f"class {self.u}_C{e[1]}(fix.GroupContainer, CountCls=CNT, GroupCls=G):\n    pass\n", ns)
                    self.containers[e[1]] = ns[f'{self.u}_C{e[1]}']
                    entries.append(fix.Entry(self.containers[e[1]], False))
            cls = type(f'{self.u}_S{c}', (fix.Group if d[1] == 'g' else fix.DataSegment,), {'Entries': entries})
        elif d[0] == 'fmsg':
            ns = {'fix': fix, 'H': self.build(d[1]), 'B': self.build(d[2]), 'T': self.build(d[3])}
            exec(f"class {self.u}_X{c}(fix.Message, Name='{self.u}_X{c}', Type='{self.u}T{c}', Category='B',\n"
                 f"        HeaderCls=H, BodyCls=B, TrailerCls=T, app_name={self.u!r}):\n    pass\n", ns)
            cls = ns[f'{self.u}_X{c}']
        else:
            raise ValueError(d[0])
        self.py[c] = cls
        self.cid[cls] = c
        return cls

    def reset_defaults(self):
        """every history starts from import-time state of the class-level default objects: the declared defaults are built anew and
        put into their Field objects (a new world per history - thousands of classes per run - made the thorough tier quadratic)"""
        self.default_objs = []
        for field, tree in self.default_fields:
            field.default_value = self.value(tree)
            self.default_objs.append(field.default_value)

    def fix_field(self, tag, t):
        fix = lib()[3]
        if tag not in self.fix_fields:
            ns = {'fix': fix, 'T': fix.FixInt if t == 'int' else fix.FixString}
            exec(f"class {self.u}_F{tag}(fix.Field, Tag={tag}, Name='{self.u}_F{tag}', Type=T):\n    pass\n", ns)
            self.fix_fields[tag] = ns[f'{self.u}_F{tag}']
        return self.fix_fields[tag]

    # ---- which class ids can be instantiated as top-level instances
    def top_classes(self):
        return [c for c, d in enumerate(self.spec) if (d[0] == 'rec' and d[1] != '-') or d[0] == 'fmsg']

    def construct(self, c):
        return (self.msg[c] if c in self.msg else self.py[c])()

    def decode(self, c, buf):
        cls = self.base if c in self.msg else self.py[c]
        return cls.from_bytes(buf)[1]

    # ---- trees (op arguments) -> python values
    def value(self, t, as_dict=False):
        if t == 'none':
            return None
        if isinstance(t, int):
            return t
        if t[0] == 's':
            return ''.join(chr(c) for c in t[1:])
        if t[0] == 'l':
            return [self.value(x, as_dict) for x in t[1:]]
        if t[0] == 'o':
            c, d = t[1], self.spec[t[1]]
            if d[0] == 'rec':
                names = [f.name for f in self.py[c].Fields]
                return self.py[c]({names[k]: self.value(v) for k, v in t[2:]})
            dct = {k: self.value(v, True) for k, v in t[2:]}
            return dct if as_dict else self.py[c].from_value(dct)
        raise ValueError(t)


def has_declared_defaults(spec):
    """declared defaults on array / record fields, or 2-D arrays: class-level mutable objects live in the Field objects of the world
    (a world is then used for ONE history), and Model/Heap.lean cannot express the schema (Model/HeapD.lean can)"""
    return any(c[0] == 'rec' and any((f[0] == 'arr' and (len(f) > 3 or f[1][0] == 'arr')) or (f[0] == 'recd' and len(f) > 2) for f in c[2:])
               for c in spec)


def tree_has_record(t):
    return isinstance(t, list) and bool(t) and (t[0] == 'o' or any(tree_has_record(x) for x in t[1:]))


def model_expressible(spec):
    """what `heapd.run` (Model/HeapD.lean + the codec of Model/Heap.lean) covers of the schemas with declared defaults: everything but
    two-dimensional arrays (no row codec in the model); those histories are judged by the oracle alone.  Array defaults that hold
    records are covered since /repo bda6d24 (before, reading them raised: `copy.deepcopy` of a record tripped over `__getattr__`)"""
    for c in spec:
        if c[0] != 'rec':
            continue
        for f in c[2:]:
            if f[0] == 'arr' and f[1][0] == 'arr':
                return False
    return True


def is_mutable(x):
    return not (x is None or isinstance(x, (int, str, float, bytes)))


class Runner:
    """executes operations on the real classes and observes every instance through the public API only"""

    def __init__(self, world):
        self.w = world
        self.insts = []
        self.bufs = []
        self.shared = class_level_default()
        self.polluted = False              # a class-level object was mutated in this history

    # ---- API-level navigation
    def keys(self, obj):
        """declared keys of an object in declaration order, or None if it has no attribute-like reads"""
        st, ty, itch, fix = lib()
        if isinstance(obj, st.CommonMessage):
            return list(range(len(obj.BodyRecord.Fields)))
        if isinstance(obj, st._Record):
            return list(range(len(type(obj).Fields)))
        if isinstance(obj, fix.Message):
            return [0, 1, 2]
        if isinstance(obj, fix.DataSegment):
            return [e.entry_def.Tag for e in type(obj).Entries]
        return None

    def get_fld(self, obj, k):
        st, ty, itch, fix = lib()
        if isinstance(obj, st.CommonMessage):
            fs = obj.BodyRecord.Fields
            if k >= len(fs):
                raise KeyError(k)
            return getattr(obj, fs[k].name)
        if isinstance(obj, st._Record):
            fs = type(obj).Fields
            if k >= len(fs):
                raise KeyError(k)
            return getattr(obj, fs[k].name)
        if isinstance(obj, fix.Message):
            return getattr(obj, ('Header', 'Body', 'Trailer')[k])
        if isinstance(obj, fix.DataSegment):
            return obj[k]
        raise AttributeError('no fields')

    def set_fld(self, obj, k, value):
        st, ty, itch, fix = lib()
        if isinstance(obj, (st.CommonMessage, st._Record)):
            fs = obj.BodyRecord.Fields if isinstance(obj, st.CommonMessage) else type(obj).Fields
            if k >= len(fs):
                raise AttributeError(k)
            setattr(obj, fs[k].name, value)
        elif isinstance(obj, fix.DataSegment):
            obj[k] = value
        else:
            raise AttributeError('no fields')

    def get_idx(self, obj, i):
        fix = lib()[3]
        if isinstance(obj, list):
            return obj[i]
        if isinstance(obj, fix.GroupContainer):
            return obj[i]
        raise AttributeError('not a list')

    def walk_path(self, obj, path):
        for s in path:
            obj = self.get_fld(obj, s[1]) if s[0] == 'f' else self.get_idx(obj, s[1])
        return obj

    def the_list(self, obj):
        fix = lib()[3]
        if isinstance(obj, list):
            return obj
        if isinstance(obj, fix.GroupContainer):
            return obj.groups
        raise AttributeError('not a list')

    # ---- canonical deep value of what reads return (API only), depth-limited like the model's `deref`
    def walk(self, obj, n):
        st, ty, itch, fix = lib()
        if obj is None:
            return 'none'
        if isinstance(obj, bool):
            return ['bool', int(obj)]
        if isinstance(obj, int):
            return obj
        if isinstance(obj, str):
            return ['s'] + [ord(c) for c in obj]
        if isinstance(obj, (bytes, bytearray, memoryview)):
            return bytes(obj)
        if n == 0:
            return 'cut'
        if isinstance(obj, list):
            return ['l'] + [self.walk(x, n - 1) for x in obj]
        if isinstance(obj, fix.GroupContainer):
            return ['l'] + [self.walk(x, n - 1) for x in obj.groups]
        ks = self.keys(obj)
        if ks is not None:
            c = self.w.cid.get(type(obj), 'alien')
            return ['o', c] + [[k, self.walk(self.get_fld(obj, k), n - 1)] for k in ks]
        return ['opaque', type(obj).__name__]

    def view(self, i):
        obj = self.insts[i]
        try:
            d = self.walk(obj, self.w.depth)
        except Exception as e:  # noqa
            d = 'read-raised-' + err_name(e)
        try:
            b = bytes(obj.to_bytes()[1])
            enc = b
        except Exception as e:  # noqa
            enc = 'err-' + err_name(e)
        return ['v', d, enc]

    def views(self):
        return [self.view(i) for i in range(len(self.insts))]

    def reach(self, obj, n, out):
        """identities of the mutable objects reads can reach"""
        fix = lib()[3]
        if not is_mutable(obj) or n == 0 or id(obj) in out:
            return
        out[id(obj)] = obj
        if isinstance(obj, list):
            for x in obj:
                self.reach(x, n - 1, out)
        elif isinstance(obj, fix.GroupContainer):
            self.reach(obj.groups, n - 1, out)
        else:
            ks = self.keys(obj)
            if ks is not None:
                for k in ks:
                    try:
                        self.reach(self.get_fld(obj, k), n - 1, out)
                    except Exception:  # noqa
                        pass

    # ---- one operation: (status, read value or '-')
    def apply(self, op):
        kind = op[0]
        rd = '-'
        try:
            if kind == 'new':
                self.insts.append(self.w.construct(op[1]))
            elif kind == 'read':
                v = self.walk_path(self.insts[op[1]], op[2])
                rd = self.walk(v, self.w.depth)
            elif kind == 'assign':
                obj = self.walk_path(self.insts[op[1]], op[2])
                if not is_mutable(obj):
                    raise AttributeError('assignment through a scalar / None')
                d = None
                c = self.w.cid.get(type(obj))
                fixseg = c is not None and self.w.spec[c][0] == 'fseg'
                val = self.w.value(op[4], as_dict=fixseg)
                self.note_write(obj)
                self.set_fld(obj, op[3], val)
            elif kind == 'append':
                obj = self.walk_path(self.insts[op[1]], op[2])
                if not is_mutable(obj):
                    raise AttributeError('append on a scalar / None')
                lst = self.the_list(obj)
                self.note_write(lst)
                lst.append(self.w.value(op[3]))
            elif kind == 'setidx':
                obj = self.walk_path(self.insts[op[1]], op[2])
                if not is_mutable(obj):
                    raise AttributeError('item assignment on a scalar / None')
                lst = self.the_list(obj)
                val = self.w.value(op[4])
                if op[3] >= len(lst):
                    raise IndexError(op[3])
                self.note_write(lst)
                lst[op[3]] = val
            elif kind == 'encode':
                self.insts[op[1]].to_bytes()
            elif kind == 'mkbuf':
                self.bufs.append(bytearray(self.insts[op[1]].to_bytes()[1]))
            elif kind == 'decode':
                self.insts.append(self.w.decode(op[1], self.bufs[op[2]]))
            elif kind == 'scribble':
                b = self.bufs[op[1]]
                b[:] = b'\xff' * len(b)
            elif kind == 'cutbuf':
                # a frame that ends early: a new buffer of the caller holding the first n bytes of buffer b
                if op[1] >= len(self.bufs):
                    raise KeyError(op[1])
                self.bufs.append(bytearray(self.bufs[op[1]][:op[2]]))
            elif kind == 'copy':
                # obj = read b path_b ; obj[k] = <object read from instance a by path_a>   (FIX: the library copies deeply)
                fix = lib()[3]
                obj = self.walk_path(self.insts[op[1]], op[2])
                if not is_mutable(obj):
                    raise AttributeError('assignment through a scalar / None')
                src = self.walk_path(self.insts[op[4]], op[5])
                if isinstance(src, fix.GroupContainer) and (op[3] + len(op[5])) % 2 == 1:
                    src = src.groups                  # the list of Group objects instead of the container: same conversion
                if not isinstance(obj, (fix.DataSegment, list, fix.GroupContainer)):
                    # binary __setattr__ stores the reference as given (aliasing made by the caller): not exercised
                    raise TypeError('copy-assign is exercised on FIX segments only')
                self.note_write(obj)
                self.set_fld(obj, op[3], src)
            elif kind == 'clone':
                fix = lib()[3]
                a = self.insts[op[1]]
                if not isinstance(a, fix.Message):
                    raise TypeError('clone is exercised on FIX messages only')
                cls = type(a)
                self.insts.append(cls({seg: cls.SegmentCls[seg].from_value(getattr(a, seg.value))
                                       for seg in fix.MessageSegments}))
            else:
                raise ValueError(kind)
            return 'ok', rd
        except Exception as e:  # noqa
            return err_name(e), '-'

    def note_write(self, obj):
        if self.shared is not None and obj is self.shared:
            self.polluted = True


def op_target(op, n_before):
    """instance an operation is about; None: nobody (every instance must stay as it is)"""
    k = op[0]
    if k in ('new', 'decode', 'clone'):
        return n_before
    if k in ('scribble', 'cutbuf'):
        return None
    return op[1]


# ------------------------------------------------------------------ s-expressions of specs / ops / results
def spec_sx(spec):
    return sx(['schema', 'fresh'] + spec)      # model pinned to the repaired get_field_value (/repo fcb8b8f)


def ops_sx(ops):
    return sx(ops)


def typed(t):
    """parsed s-expression (strings) -> ints where they look like ints"""
    if isinstance(t, list):
        return [typed(x) for x in t]
    try:
        return int(t)
    except ValueError:
        return t


def impl_result_sx(status, rd, views):
    return sx([status, rd] + views)


def model_line(ctx, spec, ops):
    """the request for the model driver, or None when the model is not asked about this history"""
    if not ctx.driver.available:
        return None
    if has_declared_defaults(spec) and not (HEAPD and model_expressible(spec)):
        return None
    if any(op[0] == 'cutbuf' for op in ops):
        # histories that cut buffers: Model/HeapCut.lean (a layer over HeapD, hence over Heap; declared defaults allowed)
        return f'heapc.run {spec_sx(spec)} {ops_sx(ops)}' if model_expressible(spec) else None
    return f'{"heapd.run" if has_declared_defaults(spec) else "heap.run"} {spec_sx(spec)} {ops_sx(ops)}'


def model_results(ctx, spec, ops):
    line = model_line(ctx, spec, ops)
    if line is None:
        return None
    ans = ctx.driver.ask([line])[0]
    return parse_sx(ans)[0] if ans != 'bad-request' else 'bad-request'


def unparse(t):
    return t if isinstance(t, str) else '(' + ' '.join(unparse(x) for x in t) + ')'


def same_result(model, impl):
    """model result [status, safe, rd, views...] vs implementation result [status, rd, views...] (parsed s-expressions);
    the model's `other` / `err-other` stands for "some exception" (wrong kind of value reached a packer)"""
    ms, mrd, mv = model[0], model[2], model[3:]
    is_, ird, iv = impl[0], impl[1], impl[2:]
    if ms != is_ and not (ms == 'other' and is_ != 'ok'):
        return f'status: model {ms} vs implementation {is_}'
    if unparse(mrd) != unparse(ird):
        return f'value read: model {unparse(mrd)[:120]} vs implementation {unparse(ird)[:120]}'
    if len(mv) != len(iv):
        return f'number of instances: model {len(mv)} vs implementation {len(iv)}'
    for i, (a, b) in enumerate(zip(mv, iv)):
        if unparse(a[1]) != unparse(b[1]):
            return f'reads of instance {i}: model {unparse(a[1])[:160]} vs implementation {unparse(b[1])[:160]}'
        if a[2] != b[2] and not (a[2] == 'err-other' and str(b[2]).startswith('err-')):
            return f'encoding of instance {i}: model {str(a[2])[:80]} vs implementation {str(b[2])[:80]}'
    return None


# ------------------------------------------------------------------ executing a history with the oracle
def execute(spec, ops, world=None):
    """run `ops` on fresh instances; returns (results, findings) — findings = oracle failures
    [(op index, kind, description)] where kind is the known-finding kind or 'cross-instance-change' / 'shared-object' / …"""
    reset_globals()
    w = world or World(spec)
    w.reset_defaults()
    r = Runner(w)
    pristine = {}
    if has_declared_defaults(spec):
        # declared defaults are class-level objects of THIS world: what a pristine instance reads / encodes is recorded before any
        # operation has run
        for c in w.top_classes():
            pristine[c] = pristine_view(w, c, r)
    results, findings = [], []
    prev = []
    first_decode = {}
    for idx, op in enumerate(ops):
        n_before = len(r.insts)
        status, rd = r.apply(op)
        views = r.views()
        results.append([status, rd] + views)
        tgt = op_target(op, n_before)
        root = 'shared-array-default' if r.polluted else None
        # (1) nobody but the target changes
        for b in range(min(len(prev), len(views))):
            if b != tgt and sx(prev[b]) != sx(views[b]):
                what = 'reads' if sx(prev[b][1]) != sx(views[b][1]) else 'encoding'
                findings.append((idx, root or 'cross-instance-change',
                                 f'op {idx} {sx(op)[:100]} (about instance {tgt}) changed the {what} of instance {b}: '
                                 f'{sx(prev[b])[:120]} -> {sx(views[b])[:120]}'))
                break
        # (2) an instance created later is independent of the history
        if status == 'ok' and op[0] == 'new':
            if op[1] not in pristine:
                pristine[op[1]] = pristine_view(w, op[1], r)
            if pristine[op[1]] is not None and sx(views[-1]) != sx(pristine[op[1]]):
                findings.append((idx, root or 'fresh-instance-depends-on-history',
                                 f'op {idx}: a new instance of class {op[1]} reads/encodes {sx(views[-1])[:140]}, '
                                 f'a pristine one {sx(pristine[op[1]])[:140]}'))
        # (2b) a decoded instance is a function of the bytes: decoding the same bytes again — after earlier decoded messages were
        # changed in place, after anything — reads and encodes what the first decode of these bytes read and encoded
        if status == 'ok' and op[0] == 'decode' and op[2] < len(r.bufs):
            key = (op[1] if op[1] not in w.msg else 'bin', bytes(r.bufs[op[2]]))
            if key in first_decode and sx(first_decode[key][1]) != sx(views[-1]):
                findings.append((idx, root or 'decode-depends-on-history',
                                 f'op {idx} {sx(op)[:60]}: decoding the bytes that op {first_decode[key][0]} decoded now gives '
                                 f'{sx(views[-1])[:140]}, then {sx(first_decode[key][1])[:140]}'))
            first_decode.setdefault(key, (idx, views[-1]))
        # (3) no mutable object is reachable from two instances / a class-level default / a buffer
        if op[0] in ('new', 'decode', 'assign', 'append', 'setidx', 'copy', 'clone') and status == 'ok':
            f = sharing(r)
            if f is not None:
                findings.append((idx, f[0], f'after op {idx} {sx(op)[:80]}: {f[1]}'))
        # (4) what an instance encodes is a function of what it reads: an instance built afterwards from the values the target
        # reads now encodes the same bytes (nothing remembered from before an in-place change takes part in the encoding)
        if op[0] in ('assign', 'append', 'setidx') and status == 'ok' and tgt is not None and tgt < len(views):
            f = twin_differs(r, tgt, views[tgt])
            if f is not None:
                findings.append((idx, 'encoding-depends-on-history', f'after op {idx} {sx(op)[:80]}: {f}'))
        prev = views
    return results, findings, r


def pristine_view(w, c, r):
    """view of an instance of class `c` built while the class-level default is in its import-time state"""
    d = class_level_default()
    saved = list(d) if d is not None else None
    try:
        if d is not None:
            del d[:]
        r2 = Runner(w)
        r2.insts.append(w.construct(c))
        return r2.view(0)
    except Exception:  # noqa
        return None
    finally:
        if d is not None:
            d[:] = saved


def plain_tree(t):
    """a read (Runner.walk) that World.value can turn back into values: ints, lists, records of the binary kind"""
    if isinstance(t, int) and not isinstance(t, bool):
        return True
    if isinstance(t, list) and t and t[0] == 'l':
        return all(plain_tree(x) for x in t[1:])
    if isinstance(t, list) and t and t[0] == 'o' and isinstance(t[1], int):
        return all(plain_tree(v) for _k, v in t[2:])
    return False


def twin_differs(r, i, view):
    """binary instances only: a new instance of the same class, every field assigned the value instance i reads now, must encode
    what instance i encodes now"""
    w = r.w
    obj = r.insts[i]
    c = w.cid.get(type(obj))
    d = view[1]
    if c is None or c not in w.msg or not (isinstance(d, list) and d and d[0] == 'o') or not plain_tree(d):
        return None
    try:
        twin = w.construct(c)
        for k, t in d[2:]:
            r.set_fld(twin, k, w.value(t))
    except Exception:  # noqa  (a value that reads fine but is refused on assignment: nothing to compare)
        return None
    try:
        enc = bytes(twin.to_bytes()[1])
    except Exception as e:  # noqa
        enc = 'err-' + err_name(e)
    if sx(enc) != sx(view[2]):
        return (f'instance {i} encodes {sx(view[2])[:80]}, an instance built now from the values it reads encodes {sx(enc)[:80]} '
                f'(reads: {sx(d)[:120]})')
    return None


def class_default_ids(w, r):
    """identities of the declared default objects of the world and of every mutable object inside them"""
    out = {}
    st = lib()[0]

    def go(x, n):
        if not is_mutable(x) or n == 0 or id(x) in out:
            return
        out[id(x)] = x
        if isinstance(x, list):
            for y in x:
                go(y, n - 1)
        elif isinstance(x, st._Record):
            for y in x.values.values():
                go(y, n - 1)
    for o in w.default_objs:
        go(o, w.depth)
    return out


def sharing(r):
    sets = []
    for obj in r.insts:
        out = {}
        r.reach(obj, r.w.depth, out)
        sets.append(out)
    shared = class_level_default()
    declared = class_default_ids(r.w, r) if r.w.default_objs else {}
    for i, s in enumerate(sets):
        if shared is not None and id(shared) in s:
            return ('shared-array-default', f'instance {i} reads the class-level list Array.default_value itself '
                                            f'(a mutable object shared with every other instance)')
        hit = set(s) & set(declared)
        if hit:
            o = declared[next(iter(hit))]
            return ('shared-declared-default', f'instance {i} reaches a mutable {type(o).__name__} object that belongs to a declared '
                                               f'default of a field (a class-level object shared with every other instance)')
        for j in range(i):
            common_ids = set(s) & set(sets[j])
            if common_ids:
                o = s[next(iter(common_ids))]
                return ('shared-object', f'instances {j} and {i} both reach the same mutable {type(o).__name__} object')
        for bi, b in enumerate(r.bufs):
            if id(b) in s:
                return ('shared-with-buffer', f'instance {i} reaches decode buffer {bi}')
    return None


# ------------------------------------------------------------------ generators
def gen_int_ty(rng):
    return list(rng.choice(list(INT_TYPES)))


def gen_bin_spec(rng):
    spec = []
    n_rec = rng.choice([0, 1, 1, 2, 3])
    for c in range(n_rec):
        spec.append(['rec', '-'] + gen_fields(rng, c, rng.randint(1, 3)))
    ids = rng.sample(range(33, 127), 3)
    for m in range(rng.choice([1, 2, 2, 3])):
        c = len(spec)
        fs = gen_fields(rng, n_rec, rng.randint(1, 5))
        if not any(f[0] == 'arr' for f in fs) and rng.random() < 0.8:
            fs.insert(rng.randrange(len(fs) + 1), gen_field(rng, n_rec, 'arr'))
        spec.append(['rec', ids[m]] + fs)
    return spec


def gen_field(rng, n_lower, kind=None):
    kind = kind or rng.choice(['int', 'int', 'arr', 'arr', 'recd'])
    if kind == 'recd' and n_lower == 0:
        kind = 'arr'
    if kind == 'int':
        t = gen_int_ty(rng)
        d = '-' if rng.random() < 0.6 else rng.randint(0, 100)
        return ['int'] + t + [d]
    if kind == 'arr':
        cnt = rng.choice([[2, 0, 0], [2, 0, 1], [2, 1, 0]])
        if n_lower and rng.random() < 0.45:
            return ['arr', ['recd', rng.randrange(n_lower)], cnt]
        return ['arr', ['int'] + gen_int_ty(rng), cnt]
    return ['recd', rng.randrange(n_lower)]


def add_declared_defaults(rng, spec, plain=False):
    """the same schema with DECLARED defaults: on array fields (lists of ints, of records, of rows for two-dimensional arrays), on
    record-typed fields (a record that holds lists and records itself), at the top level and on fields inside nested records;
    some one-dimensional int arrays become two-dimensional"""
    out = []
    for c, d in enumerate(spec):
        fs = []
        for f in d[2:]:
            f = list(f)
            if f[0] == 'arr' and f[1][0] == 'int' and rng.random() < 0.3 and not plain:
                f[1] = ['arr', f[1], rng.choice([[2, 0, 0], [2, 0, 1], [2, 1, 0]])]
            if f[0] == 'arr' and rng.random() < 0.6:
                f = f[:3] + [['l'] + [gen_tree_for_ety(rng, out + [d], f[1]) for _ in range(rng.choice([1, 1, 2, 3]))]]
            elif f[0] == 'recd' and rng.random() < 0.6:
                f = f[:2] + [gen_record_tree(rng, out, f[1])]
            fs.append(f)
        out.append(d[:2] + fs)
    return out


def gen_fields(rng, n_lower, n):
    return [gen_field(rng, n_lower) for _ in range(n)]


def gen_fix_spec(rng):
    spec = []
    tags = iter(rng.sample(range(100, 900), 60))

    def entries(n, groups):
        es = []
        for _ in range(n):
            if groups and rng.random() < 0.35:
                es.append(['g', next(tags), rng.choice(groups)])
            else:
                es.append(['f', next(tags), rng.choice(['int', 'int', 'str'])])
        return es
    groups = []
    for _ in range(rng.choice([1, 2, 2, 3])):
        es = entries(rng.randint(0, 2), groups if rng.random() < 0.5 else [])
        if groups and not any(e[0] == 'g' for e in es) and rng.random() < 0.6:
            es.append(['g', next(tags), rng.choice(groups)])              # a nested repeating group
        es.insert(0, ['f', next(tags), rng.choice(['int', 'str'])])      # the delimiter field of the group
        spec.append(['fseg', 'g'] + es)
        groups.append(len(spec) - 1)
    hdr = len(spec)
    spec.append(['fseg', 's'] + entries(rng.randint(1, 3), []))
    trl = len(spec)
    spec.append(['fseg', 's'] + entries(rng.randint(1, 2), []))
    for _ in range(rng.choice([1, 2])):
        body = len(spec)
        es = entries(rng.randint(2, 5), groups)
        if not any(e[0] == 'g' for e in es):
            es.append(['g', next(tags), rng.choice(groups)])
        spec.append(['fseg', 's'] + es)
        spec.append(['fmsg', hdr, body, trl])
    return spec


def gen_int_value(rng, w, s, b):
    lo, hi = (-(1 << (8 * w - 1)), (1 << (8 * w - 1)) - 1) if s else (0, (1 << (8 * w)) - 1)
    c = rng.random()
    if c < 0.04:
        return rng.choice([lo - 1, hi + 1])          # does not fit: the encoding of this instance raises
    if c < 0.2:
        return rng.choice([lo, hi, 0, 1])
    return rng.randint(max(lo, -1000), min(hi, 1000))


def gen_tree_for_ety(rng, spec, e):
    if e[0] == 'int':
        return gen_int_value(rng, *e[1:4])
    if e[0] == 'arr':
        return ['l'] + [gen_int_value(rng, *e[1][1:4]) for _ in range(rng.choice([0, 1, 2, 2, 3]))]
    return gen_record_tree(rng, spec, e[1])


def gen_record_tree(rng, spec, c):
    """a fresh record of class c with every field assigned"""
    out = ['o', c]
    for k, f in enumerate(spec[c][2:]):
        out.append([k, gen_tree_for_fty(rng, spec, f)])
    return out


def gen_tree_for_fty(rng, spec, f):
    if f[0] == 'int':
        return gen_int_value(rng, *f[1:4])
    if f[0] == 'arr':
        return ['l'] + [gen_tree_for_ety(rng, spec, f[1]) for _ in range(rng.choice([0, 1, 1, 2, 3]))]
    return gen_record_tree(rng, spec, f[1])


def gen_fix_scalar(rng, t):
    if t == 'int':
        return rng.choice([0, 1, -1, 7, 42, 100000, rng.randint(-10**6, 10**12)])
    n = rng.randint(1, 6)
    return ['s'] + [rng.choice(b'ABCDEFGHIJKLMNOPQRSTUVWXYZabcxyz0123456789 .-_/') for _ in range(n)]


def gen_group_tree(rng, spec, g, depth=0):
    es = spec[g][2:]
    chosen = [e for e in es[1:] if rng.random() < 0.7]
    if rng.random() < 0.93:
        chosen.append(es[0])        # without its first field a group instance cannot be told from its neighbour when decoding
    elif not chosen:
        chosen = [es[0]]
    rng.shuffle(chosen)
    out = ['o', g]
    for e in chosen:
        out.append([e[1], gen_fix_entry_tree(rng, spec, e, depth + 1)])
    return out


def gen_fix_entry_tree(rng, spec, e, depth=0):
    if e[0] == 'f':
        return gen_fix_scalar(rng, e[2])
    return ['l'] + [gen_group_tree(rng, spec, e[2], depth) for _ in range(rng.choice([1, 1, 2, 3]) if depth < 3 else 1)]


def nodes(r, obj, path, n, out):
    """mutable objects reachable through reads with the path that reaches them"""
    fix = lib()[3]
    if not is_mutable(obj) or n == 0 or len(out) > 60:
        return
    out.append((path, obj))
    if isinstance(obj, list):
        for i, x in enumerate(obj):
            nodes(r, x, path + [['i', i]], n - 1, out)
    elif isinstance(obj, fix.GroupContainer):
        for i, x in enumerate(obj.groups):
            nodes(r, x, path + [['i', i]], n - 1, out)
    else:
        ks = r.keys(obj)
        if ks is not None:
            for k in ks:
                try:
                    nodes(r, r.get_fld(obj, k), path + [['f', k]], n - 1, out)
                except Exception:  # noqa
                    pass


def key_type(w, obj, k):
    """schema description of key k of a live object (None if unknown)"""
    c = w.cid.get(type(obj))
    if c is None:
        return None
    d = w.spec[c]
    if d[0] == 'rec':
        return d[2 + k] if k < len(d) - 2 else None
    if d[0] == 'fseg':
        for e in d[2:]:
            if e[1] == k:
                return e
    return None


def gen_op(rng, r, allow_default_mutation, max_insts):
    """next operation, chosen by looking at the live instances"""
    w, spec = r.w, r.w.spec
    n = len(r.insts)
    tops = w.top_classes()
    shared = r.shared
    is_fix = any(d[0] == 'fmsg' for d in spec)
    for _ in range(30):
        c = rng.random()
        if n < 2 or (c < 0.08 and n < max_insts):
            return ['new', rng.choice(tops)]
        if is_fix:
            u = rng.random()
            if u < 0.03 and n < max_insts:
                return ['clone', rng.randrange(n)]
            if u < 0.16:
                op = gen_copy(rng, r)
                if op is not None:
                    return op
        a = rng.randrange(n)
        inst = r.insts[a]
        if c < 0.16:
            ns = []
            nodes(r, inst, [], 6, ns)
            path, obj = rng.choice(ns)
            ks = r.keys(obj)
            if ks and rng.random() < 0.8:
                path = path + [['f', rng.choice(ks)]]
            elif not ks and rng.random() < 0.5:
                path = path + [['i', rng.randrange(3)]]
            return ['read', a, path]
        if c < 0.50:
            ns = []
            nodes(r, inst, [], 6, ns)
            cands = [(p, o) for p, o in ns if r.keys(o) and w.cid.get(type(o)) is not None and w.spec[w.cid[type(o)]][0] != 'fmsg']
            if not cands:
                continue
            path, obj = rng.choice(cands)
            k = rng.choice(r.keys(obj))
            kt = key_type(w, obj, k)
            if kt is None:
                continue
            if rng.random() < 0.03:
                tree = rng.choice([5, ['l'], 'none', ['s', 65]])        # possibly the wrong kind: both sides must raise alike
            elif kt[0] in ('int', 'arr', 'recd'):
                tree = gen_tree_for_fty(rng, spec, kt)
            else:
                tree = gen_fix_entry_tree(rng, spec, kt)
            return ['assign', a, path, k, tree]
        if c < 0.72:
            ns = []
            nodes(r, inst, [], 6, ns)
            fix = lib()[3]
            cands = [(p, o) for p, o in ns if isinstance(o, (list, fix.GroupContainer))]
            if not allow_default_mutation:
                cands = [(p, o) for p, o in cands if o is not shared]
            elif shared is not None and any(o is shared for _, o in cands) and rng.random() < 0.6:
                cands = [(p, o) for p, o in cands if o is shared]
            if not cands:
                continue
            path, obj = rng.choice(cands)
            elem = elem_tree(rng, r, inst, path, obj)
            if elem is None:
                continue
            lst = r.the_list(obj)
            if lst and rng.random() < 0.3:
                return ['setidx', a, path, rng.randrange(len(lst) + (1 if rng.random() < 0.1 else 0)), elem]
            return ['append', a, path, elem]
        if c < 0.77:
            return ['encode', a]
        if c < 0.84:
            return ['mkbuf', a]
        if c < 0.87:
            # a frame that ends early: the first k bytes of a live buffer
            live = [i for i, b in enumerate(r.bufs) if len(b) and not all(x == 0xff for x in b)]
            if not live or len(r.bufs) >= 8:
                continue
            bi = rng.choice(live)
            return ['cutbuf', bi, rng.choice(cut_points(r, bi, is_fix))]
        if c < 0.95:
            if not r.bufs or n >= max_insts:
                continue
            live = [i for i, b in enumerate(r.bufs) if not (len(b) and all(x == 0xff for x in b))]
            if not live:
                continue
            cls = w.cid[type(inst)]
            return ['decode', cls, rng.choice(live)]
        if r.bufs:
            return ['scribble', rng.randrange(len(r.bufs))]
    return ['encode', 0]


def has_nested(container):
    fix = lib()[3]
    return any(isinstance(v, fix.GroupContainer) and len(v.groups) for g in container.groups for v in g.values.values()) \
        if all(hasattr(g, 'values') for g in container.groups) else False


def gen_copy(rng, r):
    """FIX: assign to a segment / group of instance b the object reached in instance a (a group container — preferably one
    whose groups hold nested groups —, sometimes a container of another group class, a scalar, or an unset entry)"""
    w, spec = r.w, r.w.spec
    fix = lib()[3]
    n = len(r.insts)
    b = rng.randrange(n)
    a = rng.choice([i for i in range(n) if i != b]) if rng.random() < 0.92 else b
    nb, na = [], []
    nodes(r, r.insts[b], [], 6, nb)
    nodes(r, r.insts[a], [], 6, na)
    targets = [(p, o) for p, o in nb if isinstance(o, fix.DataSegment) and w.cid.get(type(o)) is not None]
    if not targets:
        return None
    conts = [(p, o) for p, o in na if isinstance(o, fix.GroupContainer)]
    good, bad = [], []
    for pb, ob in targets:
        for e in spec[w.cid[type(ob)]][2:]:
            if e[0] == 'g':
                for pa, oa in conts:
                    (good if w.cid.get(oa.GroupCls) == e[2] else bad).append((pb, e[1], pa, oa))
    u = rng.random()
    if good and u < 0.8:
        deep = [c for c in good if has_nested(c[3])]
        pb, k, pa, _ = rng.choice(deep if deep and rng.random() < 0.7 else good)
        return ['copy', b, pb, k, a, pa]
    if bad and u < 0.87:
        pb, k, pa, _ = rng.choice(bad)
        return ['copy', b, pb, k, a, pa]
    # the same entry of a segment of the same class in a: a scalar, a default, a container or an unset group (None)
    pb, ob = rng.choice(targets)
    same = [(p, o) for p, o in na if type(o) is type(ob)]
    if not same:
        return None
    pa, _oa = rng.choice(same)
    e = rng.choice(spec[w.cid[type(ob)]][2:])
    return ['copy', b, pb, e[1], a, pa + [['f', e[1]]]]


def elem_tree(rng, r, inst, path, obj):
    """a fresh element for the list reached by `path` (element type from the schema of the field that holds the list)"""
    w, spec = r.w, r.w.spec
    if len(path) >= 2 and path[-1][0] == 'i' and path[-2][0] == 'f':
        # a row of a two-dimensional array: reached by indexing the list a field holds
        try:
            kt = key_type(w, r.walk_path(inst, path[:-2]), path[-2][1])
        except Exception:  # noqa
            return None
        if kt is not None and kt[0] == 'arr' and kt[1][0] == 'arr':
            return gen_int_value(rng, *kt[1][1][1:4])
        return None
    if not path or path[-1][0] != 'f':
        return None
    try:
        parent = r.walk_path(inst, path[:-1])
    except Exception:  # noqa
        return None
    kt = key_type(w, parent, path[-1][1])
    if kt is None:
        return None
    if kt[0] == 'arr':
        return gen_tree_for_ety(rng, spec, kt[1])
    if kt[0] == 'g':
        return gen_group_tree(rng, spec, kt[2])
    return None


def frame_boundaries(spec, c, tree):
    """binary: the byte offsets of the encoding of message class `c` reading `tree` (Runner.walk of the instance) at which a field,
    an array count, an array element, a row, a nested record starts — at every nesting level — and its end.  Computed from the schema
    and the values alone (neither the library nor the model is asked)."""
    out = {0, 1}

    def rec(c, t, off):
        vals = {k: v for k, v in t[2:]}
        for k, f in enumerate(spec[c][2:]):
            out.add(off)
            off = fld(f, vals[k], off)
        return off

    def fld(f, v, off):
        if f[0] == 'int':
            return off + f[1]
        if f[0] == 'recd':
            return rec(f[1], v, off)
        off += f[2][0]
        for x in v[1:]:
            out.add(off)
            e = f[1]
            if e[0] == 'int':
                off += e[1]
            elif e[0] == 'recd':
                off = rec(e[1], x, off)
            else:
                out.add(off + e[2][0])
                off += e[2][0] + e[1][1] * (len(x) - 1)
        out.add(off)
        return off
    end = rec(c, tree, 1)
    out.add(end)
    return sorted(out), end


def cut_points(r, bi, is_fix):
    """where buffer `bi` may be cut.  Binary: every boundary of its frame (when the buffer is the encoding of a live instance:
    from the schema and that instance's reads), one byte before / after a boundary, any byte.  FIX: after a SOH (a shorter,
    well-formed field sequence); cuts inside a field are malformed text, outside what is compared."""
    buf = bytes(r.bufs[bi])
    if is_fix:
        return sorted({0} | {i + 1 for i, x in enumerate(buf) if x == 1})
    pts = set(range(len(buf) + 1)) if len(buf) <= 12 else {0, 1, len(buf) - 1}
    for i, obj in enumerate(r.insts):
        try:
            v = r.view(i)
            if v[2] != buf:
                continue
            bs, end = frame_boundaries(r.w.spec, r.w.cid[type(obj)], v[1])
            if end == len(buf):
                pts |= set(bs) | {b + d for b in bs for d in (-1, 1) if 0 <= b + d <= len(buf)}
                break
        except Exception:  # noqa  (a value the layout walk does not know: any byte then)
            continue
    else:
        pts |= set(range(len(buf) + 1))
    return sorted(pts)


def boundary_points(r, bi, is_fix):
    """the boundaries proper (no neighbours): what the short-decode histories go through first"""
    buf = bytes(r.bufs[bi])
    if is_fix:
        return cut_points(r, bi, True)
    for i, obj in enumerate(r.insts):
        try:
            v = r.view(i)
            if v[2] == buf:
                bs, end = frame_boundaries(r.w.spec, r.w.cid[type(obj)], v[1])
                if end == len(buf):
                    return bs
        except Exception:  # noqa
            continue
    return list(range(len(buf) + 1))


def gen_short_history(rng, spec, world, todo=None):
    """SHORT-DECODE history: an instance is built and filled, encoded into a buffer; then, for up to 6 cut points of that frame
    (`todo`: boundaries of this world's frame not yet visited — shared by the histories of one world so that together they visit
    every one): cut the buffer there, decode the short frame, change the decoded message's lists in place (append / item
    assignment, also one level down), then create FRESH instances — which the oracle compares with pristine ones, as it
    compares every other live instance with what it read before — and decode the same short frame once more."""
    reset_globals()
    world.reset_defaults()
    r = Runner(world)
    ops = []
    is_fix = any(d[0] == 'fmsg' for d in spec)
    fixlib = lib()[3]

    def do(op):
        st = r.apply(op)
        ops.append(op)
        return st[0]
    tops = world.top_classes()
    if todo is not None:
        # the same filled instance and frame as in the previous short-decode history of this world: go on with its boundaries
        for op in todo[0]:
            do(op)
        c0 = ops[0][1]
    else:
        c0 = rng.choice(tops)
        do(['new', c0])
        do(['new', rng.choice(tops)])
        for _ in range(rng.randint(3, 10)):
            op = gen_op(rng, r, False, 2)
            if op[0] in ('mkbuf', 'cutbuf', 'scribble', 'decode', 'clone'):
                continue
            do(op)
        if do(['mkbuf', 0]) != 'ok':
            return ops, None
    src = len(r.bufs) - 1
    if todo is None:
        todo = (list(ops), list(boundary_points(r, src, is_fix)))
    pending = todo[1]
    rng.shuffle(pending)
    cuts = [pending.pop() for _ in range(min(6, len(pending)))]
    allp = cut_points(r, src, is_fix)
    while len(cuts) < 4:
        cuts.append(rng.choice(allp))
    for n in cuts:
        if do(['cutbuf', src, n]) != 'ok':
            continue
        b = len(r.bufs) - 1
        if do(['decode', c0, b]) != 'ok':
            continue
        j = len(r.insts) - 1
        # in-place changes of the lists the decoded message holds
        ns = []
        nodes(r, r.insts[j], [], 6, ns)
        lists = [(p, o) for p, o in ns if isinstance(o, (list, fixlib.GroupContainer))]
        rng.shuffle(lists)
        for path, obj in lists[:rng.choice([1, 2, 2, 3])]:
            elem = elem_tree(rng, r, r.insts[j], path, obj)
            if elem is None:
                continue
            lst = r.the_list(obj)
            if lst and rng.random() < 0.25:
                do(['setidx', j, path, rng.randrange(len(lst)), elem])
            else:
                do(['append', j, path, elem])
        # fresh objects, afterwards
        do(['new', rng.choice(tops)])
        u = rng.random()
        if u < 0.3:
            do(['encode', len(r.insts) - 1])
        elif u < 0.5 and len(r.insts) < 16:
            do(['decode', c0, b])
    for c in tops:
        if len(r.insts) < 18:
            do(['new', c])
    return ops, todo


def gen_history(rng, spec, world, length, allow_default_mutation):
    """generate by executing: returns ops"""
    reset_globals()
    world.reset_defaults()
    r = Runner(world)
    ops = []
    max_insts = rng.choice([2, 3, 4, 4, 5])
    for _ in range(length):
        op = gen_op(rng, r, allow_default_mutation, max_insts)
        r.apply(op)
        ops.append(op)
    return ops


# ------------------------------------------------------------------ shrinking and reporting
def fails_like(spec, ops, kind, world=None):
    try:
        _res, findings, _r = execute(spec, ops, world)
    except Exception:  # noqa
        return None
    for f in findings:
        if f[1] == kind or (kind is None and f[1] not in [k['signature'].get('kind') for k in KNOWN_LOCAL]):
            return f
    return None


def fails_like_fresh(spec, ops, kind, world=None):
    """the same question asked in a fresh interpreter: class-level state left behind by earlier histories of this
    process (which is exactly what a sharing defect produces) cannot make a history look guilty"""
    import subprocess
    import sys
    try:
        p = subprocess.run([sys.executable, '-W', 'ignore', os.path.abspath(__file__), 'probe'],
                           input=json.dumps({'spec': spec, 'ops': ops, 'kind': kind}), capture_output=True, text=True, timeout=120)
        out = json.loads(p.stdout.strip().split('\n')[-1])
        return tuple(out) if out else None
    except Exception:  # noqa
        return None


def shrink(spec, ops, finding, world=None, test=fails_like):
    idx, kind, _ = finding
    ops = ops[:idx + 1]
    f = test(spec, ops, kind, world)
    if f is None:
        return ops, None
    best = f
    ops = ops[:f[0] + 1]
    i = len(ops) - 2
    while i >= 0:
        cand = ops[:i] + ops[i + 1:]
        g = test(spec, cand, kind, world)
        if g is not None:
            ops, best = cand[:g[0] + 1], g
            i = min(i, len(ops) - 1)
        i -= 1
    return ops, best


def registered_ids():
    """ids the coordinator has in known_findings.json, with any status (a registered entry supersedes the local one)"""
    path = os.path.join(VERIF, 'known_findings.json')
    try:
        return {e.get('id') for e in json.load(open(path)).get('findings', [])}
    except Exception:  # noqa
        return set()


def known_hit(ctx, replay):
    from common import load_known, matches_known
    reg = registered_ids()
    for k in [k for k in KNOWN_LOCAL if k['id'] not in reg] + load_known(ctx.prop):
        if matches_known(k, replay):
            if k['id'] not in [x[0] for x in ctx.known_hits]:
                ctx.known_hits.append((k['id'], k['what']))
            return True
    return False


def report(ctx, spec, ops, finding, proto, world=None):
    replay = {'kind': finding[1], 'proto': proto, 'spec': spec_sx(spec), 'ops': ops_sx(ops[:finding[0] + 1]), 'op_index': finding[0]}
    if known_hit(ctx, replay):
        return                                    # already recorded: no need to minimise it again
    if len(ctx.violations) >= 3:
        return
    ops2, f2 = shrink(spec, ops, finding, world)
    fresh = None
    if f2 is not None:
        fresh = fails_like_fresh(spec, ops2, f2[1])
    if fresh is None:
        # the minimised history does not fail on its own in a fresh interpreter (state leaked between histories):
        # minimise again, asking a fresh interpreter each time
        ops3, f3 = shrink(spec, ops, finding, None, fails_like_fresh)
        if f3 is None:
            # not even its own prefix fails alone: look for any failure of the whole history in a fresh interpreter
            g = fails_like_fresh(spec, ops, finding[1]) or fails_like_fresh(spec, ops, None)
            if g is not None:
                ops3, f3 = shrink(spec, ops, g, None, fails_like_fresh)
        if f3 is not None:
            ops2, f2, fresh = ops3, f3, f3
    if f2 is None:
        ops2, f2 = ops[:finding[0] + 1], finding
    replay = {'kind': f2[1], 'proto': proto, 'spec': spec_sx(spec), 'ops': ops_sx(ops2), 'op_index': f2[0],
              'reproduces_in_fresh_interpreter': fresh is not None}
    ctx.violation(f2[2], replay)


def check_history(ctx, spec, ops, proto, world=None, defer=None):
    """oracle + correspondence for one history (defer: a list that collects the model questions, asked in one batch by
    `flush_model` - one driver process for many histories)"""
    try:
        results, findings, r = execute(spec, ops, world)
    except Exception as e:  # noqa  (a modified library may break class construction itself)
        ctx.violation(f'executing a history raised {type(e).__name__}: {e}',
                      {'kind': 'harness-exception', 'proto': proto, 'spec': spec_sx(spec), 'ops': ops_sx(ops)})
        return
    for op, res in zip(ops, results):
        ctx.count(f'{proto}:{op[0]}:{res[0]}')
    seen = set()
    for f in findings:
        if f[1] not in seen:
            seen.add(f[1])
            report(ctx, spec, ops, f, proto, world)
    if r.polluted:
        ctx.count(f'{proto}:history-mutating-class-level-default')
    line = model_line(ctx, spec, ops)
    if has_declared_defaults(spec):
        ctx.count(f'{proto}:' + ('compared-with-heapd.run' if line is not None else 'oracle-only(2-D array)'))
    if line is None:
        return
    impl = [impl_result_sx(res[0], res[1], res[2:]) for res in results]
    if defer is not None:
        defer.append((line, spec, ops, proto, impl, r.polluted))
        return
    ans = ctx.driver.ask([line])[0]
    compare_with_model(ctx, ans, spec, ops, proto, impl, r.polluted)


def flush_model(ctx, deferred):
    if deferred:
        for ans, d in zip(ctx.driver.ask([d[0] for d in deferred]), deferred):
            compare_with_model(ctx, ans, *d[1:])
        del deferred[:]


def compare_with_model(ctx, ans, spec, ops, proto, impl_lines, polluted):
    model = parse_sx(ans)[0] if ans != 'bad-request' else 'bad-request'
    results = impl_lines
    if model == 'bad-request' or len(model) != len(results):
        ctx.disagree('heap.run: the driver rejected the request', {'kind': 'correspondence', 'proto': proto, 'spec': spec_sx(spec), 'ops': ops_sx(ops)})
        return
    for i, (m, res) in enumerate(zip(model, results)):
        impl = parse_sx(res)[0]
        d = same_result(m, impl)
        if d is not None:
            ctx.disagree(f'{proto} history, op {i} {sx(ops[i])[:80]}: {d}',
                         {'kind': 'correspondence', 'proto': proto, 'spec': spec_sx(spec), 'ops': ops_sx(ops[:i + 1]), 'op_index': i})
            break
    # the model's ghost flag and the harness' own identity test must agree on which histories touch a class-level object
    unsafe = any(m[1] == '0' for m in model)
    if unsafe != polluted and class_level_default() is not None:
        ctx.disagree(f'{proto} history: model classSafe={not unsafe} but the implementation '
                     f'{"did" if polluted else "did not"} write into Array.default_value',
                     {'kind': 'correspondence', 'proto': proto, 'spec': spec_sx(spec), 'ops': ops_sx(ops)})


def load_corpus():
    out = []
    cdir = os.path.join(VERIF, 'corpus', 'C18')
    if os.path.isdir(cdir):
        for f in sorted(os.listdir(cdir)):
            if f.endswith('.json'):
                out.append(json.load(open(os.path.join(cdir, f))))
    return out


def case_of(rep):
    spec = typed(parse_sx(rep['spec'])[0])[2:]      # (schema <mode> class*): the mode is probed, not replayed
    ops = typed(parse_sx(rep['ops'])[0])
    return spec, ops


def run(ctx):
    rng = ctx.rng
    quick = ctx.tier == 'quick'
    n_worlds = {'bin': 70 if quick else 420, 'bin-defaults': 45 if quick else 300, 'fix': 50 if quick else 320}
    per_world = 4 if quick else 6
    n_short = 2 if quick else 4          # short-decode histories per world (fewer when the frame has few boundaries)
    ctx.cov['rule'] = ('histories of 12-40 operations (new / read / assign / append / setidx / encode / mkbuf / decode / scribble; FIX also '
                       'copy = assign to a segment of one instance an object read from another instance, and clone = a message built '
                       'from from_value copies of another message\'s segments) over 2-5 '
                       'instances of generated binary message types (records with int fields, arrays of ints and of records, nested '
                       'records; ITCH-style application with its own registry) and FIX message types (header/body/trailer segments, '
                       'repeating groups, nested groups); operations are chosen by looking at the live instances; a quarter of the binary '
                       'histories may mutate a list obtained from a never-assigned array field; `cutbuf b n` = a new buffer of the first '
                       'n bytes of buffer b (a frame that ends early), decoded like any other buffer; short-decode histories (per world: an '
                       'instance filled, encoded, the frame cut at every field / count / element / nested-record boundary in turn - FIX: after '
                       'every SOH -, each short frame decoded, the decoded message\'s lists changed in place, fresh instances of every class '
                       'created afterwards); distinct = distinct (schema, history)')
    mode = array_default_mode()
    ctx.notes.append(
        f'library probed: a never-assigned array field reads as {"the one class-level list (code as it is)" if mode == "shared" else "a new list on every read (repaired get_field_value)"}; '
        'the model is PINNED to `(schema fresh …)` (the repaired get_field_value, /repo fcb8b8f): the theorems that apply are the '
        'full-strength ones (C18_frame, C18_encode_frame, C18_observe_pure: every history); a tree with the shared class-level list '
        'disagrees with the model and fails the oracle')
    ctx.notes.append('assign-from-another-instance (`copy`) and `clone` are real operations of the Lean model (deep copy: stored graph -> tree '
                     '-> the conversion of __setitem__ -> fresh cells of the target), covered by the frame theorems and by C18_copy_confined / '
                     'C18_clone_fresh; they are exercised on FIX only — binary __setattr__ stores the reference it is given, which is aliasing '
                     'made by the caller and outside the statement')
    ctx.notes.append('a binary message is identified with its body record and a FIX GroupContainer with its groups list; references held by the '
                     'caller across operations are covered by C18_read_owned + C18_held_reference_frame, not by the generated histories')
    # ---- corpus and the Lean witness first
    cases = []
    for rep in load_corpus():
        if 'spec' in rep and 'ops' in rep:
            cases.append((rep.get('proto', 'bin'),) + case_of(rep))
    if ctx.driver.available:
        wt = ctx.driver.ask(['heap.witness'])[0]
        if wt != 'bad-request':
            p = typed(parse_sx(wt))
            cases.append(('bin', p[0][2:], p[1]))
            ctx.notes.append('the history of Witness/C18.lean (printed by the driver from the Lean term) was replayed on the implementation')
    for proto, spec, ops in cases:
        ctx.case(('corpus', spec_sx(spec), ops_sx(ops)), nontrivial=True)
        ctx.count('corpus')
        check_history(ctx, spec, ops, proto)
    # ---- generated
    deferred = []
    for proto in ('bin', 'bin-defaults', 'fix'):
        for _ in range(n_worlds[proto]):
            spec = gen_fix_spec(rng) if proto == 'fix' else gen_bin_spec(rng)
            if proto == 'bin-defaults':
                # every other schema stays inside what Model/HeapD.lean + the model's codec express (see model_expressible)
                spec = add_declared_defaults(rng, spec, plain=rng.random() < 0.5)
            try:
                world = World(spec)
            except Exception as e:  # noqa
                ctx.violation(f'building classes for a generated schema raised {type(e).__name__}: {e}',
                              {'kind': 'harness-exception', 'proto': proto, 'spec': spec_sx(spec), 'ops': '()'})
                continue
            for _h in range(per_world):
                allow = proto != 'fix' and rng.random() < 0.25
                length = rng.randint(12, 40)
                try:
                    ops = gen_history(rng, spec, world, length, allow)
                except Exception as e:  # noqa
                    ctx.violation(f'generating a history raised {type(e).__name__}: {e}',
                                  {'kind': 'harness-exception', 'proto': proto, 'spec': spec_sx(spec), 'ops': '()'})
                    continue
                ctx.case((spec_sx(spec), ops_sx(ops)), nontrivial=True, sample_every=53)
                check_history(ctx, spec, ops, proto, world, defer=deferred)
                if len(deferred) >= 60:
                    flush_model(ctx, deferred)
            # ---- short frames: decode at every boundary, mutate the decoded lists in place, then fresh objects
            todo = None
            for _h in range(n_short):
                try:
                    ops, todo = gen_short_history(rng, spec, world, todo)
                except Exception as e:  # noqa
                    ctx.violation(f'generating a short-decode history raised {type(e).__name__}: {e}',
                                  {'kind': 'harness-exception', 'proto': proto, 'spec': spec_sx(spec), 'ops': '()'})
                    break
                ctx.case((spec_sx(spec), ops_sx(ops)), nontrivial=True, sample_every=53)
                ctx.count(f'{proto}:short-decode-history')
                check_history(ctx, spec, ops, proto + '-short', world, defer=deferred)
                if len(deferred) >= 60:
                    flush_model(ctx, deferred)
                if todo is None or not todo[1]:
                    break           # every boundary of this world's frame was visited
    flush_model(ctx, deferred)
    reset_globals()


def replay(ctx, path):
    r = json.load(open(path))
    rep = r.get('replay') or (r.get('no_longer_checks') or [{}])[-1].get('case') or r
    ctx.cov['rule'] = 'replay of ' + path
    if 'spec' not in rep:
        print('nothing to replay in', path)
        return
    spec, ops = case_of(rep)
    ctx.case(('replay', rep['spec'], rep['ops']))
    ctx.case('replay-marker')
    results, findings, _r = execute(spec, ops)
    for i, (op, res) in enumerate(zip(ops, results)):
        print(f'op {i}: {sx(op)[:100]}\n   implementation: {impl_result_sx(res[0], res[1], res[2:])[:300]}')
    model = model_results(ctx, spec, ops)
    if model not in (None, 'bad-request'):
        for i, m in enumerate(model):
            print(f'   model op {i}: {unparse(m)[:300]}')
    for f in findings:
        print('oracle:', f)
    check_history(ctx, spec, ops, rep.get('proto', 'bin'))


def probe_main():
    """`python c18.py probe` (stdin: {"spec", "ops", "kind"}) -> the first oracle finding of that kind, as JSON"""
    import sys
    sys.path.insert(0, os.path.dirname(os.path.abspath(__file__)))
    import common
    common.use_repo()
    q = json.load(sys.stdin)
    f = fails_like(q['spec'], q['ops'], q['kind'])
    print(json.dumps(list(f) if f else None))


if __name__ == '__main__':
    import sys
    if len(sys.argv) > 1 and sys.argv[1] == 'probe':
        probe_main()
