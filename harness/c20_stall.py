"""C20 — the blocking facade against a peer that STOPS READING (back-pressure), on real sockets.

The forced-interleaving scenarios of c20.py vary thread schedules and the peer events {reply, eos, disc}; every peer there
consumes what it is sent.  Here the peer is a real loopback TCP server (small SO_RCVBUF) that accepts the login, optionally
reads a bounded number of further bytes, then calls `transport.pause_reading()` and keeps the connection open.  The client
(`soup.connect`, the unpatched classes, no gates) writes until its asyncio transport holds unsent bytes
(`transport.get_write_buffer_size() > 0`, read on the loop thread) plus some more, then 1..2 threads call close() / logout(),
optionally with a receive() blocked in a further thread; variants let the peer resume reading or disconnect later.

Oracle (the statement of C20, no model involved): every call returns or raises within the watchdog, the executor thread has
ended, is_closed() is True, a later call raises StateError at once.  The OS socket buffers and the transport's write buffer
are outside the Lean model (Model/SyncFacade: one coroutine = one loop step, transport.close() is an atomic effect): these
scenarios are oracle-only.

One scenario = one fresh subprocess (`python c20_stall.py --worker`, scenario as JSON on stdin, result as JSON on stdout),
hard timeout in the parent.  `start(ctx)` launches them in the background (they overlap with c20's worker pool), `finish`
collects and evaluates.
"""
import json
import os
import random
import subprocess
import sys
import threading
import time

HERE = os.path.dirname(os.path.abspath(__file__))
CLOSE_OPS = ['close', 'logout']
SEND_OPS = ['unseq', 'debug', 'msg']
PEERS = ['stall', 'stall', 'stall', 'resume', 'disc']     # what the stalled peer does later (weights by repetition)
MAX_BYTES = 48 * 1024 * 1024


# =====================================================================================================================
#  worker: one scenario on the real classes
# =====================================================================================================================
def _run_one(sc):
    import asyncio
    import socket
    from nasdaq_protocols import soup
    from nasdaq_protocols.common import StateError

    watchdog = float(sc.get('watchdog', 8.0))
    srv_loop = asyncio.new_event_loop()
    threading.Thread(target=srv_loop.run_forever, name='stall-server', daemon=True).start()
    state = {'transport': None, 'seen': 0, 'paused': False}

    class StalledServer(asyncio.Protocol):
        """accepts the login, reads `read_before_stall` further bytes, then stops reading and stays connected"""

        def connection_made(self, transport):
            state['transport'] = transport
            self.logged_in = False

        def data_received(self, data):
            if not self.logged_in:
                if data[2:3] == b'L':
                    self.logged_in = True
                    state['transport'].write(soup.LoginAccepted('session', 1).to_bytes()[1])
                    if sc.get('read_before_stall', 0) <= 0:
                        state['transport'].pause_reading()
                        state['paused'] = True
                return
            state['seen'] += len(data)
            if not state['paused'] and state['seen'] >= sc.get('read_before_stall', 0):
                state['transport'].pause_reading()
                state['paused'] = True

    async def _start():
        sock = socket.socket(socket.AF_INET, socket.SOCK_STREAM)
        sock.setsockopt(socket.SOL_SOCKET, socket.SO_REUSEADDR, 1)
        sock.setsockopt(socket.SOL_SOCKET, socket.SO_RCVBUF, int(sc.get('rcvbuf', 8192)))
        sock.bind(('127.0.0.1', 0))
        server = await srv_loop.create_server(StalledServer, sock=sock)
        return server, sock.getsockname()[1]

    _server, port = asyncio.run_coroutine_threadsafe(_start(), srv_loop).result(10)
    res = {'id': sc.get('id'), 'calls': [], 'blocked': []}
    client = soup.connect(('127.0.0.1', port), 'stall', 'pw', 'session',
                          client_heartbeat_interval=1000, server_heartbeat_interval=1000)
    thread = client.bridge._thread          # pylint: disable=protected-access
    res['thread_started'] = thread.is_alive()

    def buffered():
        tr = client.session._transport      # pylint: disable=protected-access
        return client.bridge.execute_sync(lambda: tr.get_write_buffer_size() if tr else -1)

    # ---- fill: write until the transport itself holds unsent bytes, then `extra` more chunks
    chunk = int(sc.get('chunk', 30000))
    kind = sc.get('send', 'unseq')
    if kind == 'debug':
        text = 'x' * chunk

        def send_one():
            client.send_debug(text)
    elif kind == 'msg':
        msg = soup.UnSequencedData(b'y' * chunk)

        def send_one():
            client.send_msg(msg)
    else:
        data = b'x' * chunk

        def send_one():
            client.send_unseq_data(data)
    sent = 0
    extra_left = None
    try:
        while sent < MAX_BYTES:
            for _ in range(8):
                send_one()
                sent += chunk
            if extra_left is None:
                if buffered() > 0:
                    extra_left = int(sc.get('extra', 0))
            if extra_left is not None:
                if extra_left <= 0:
                    break
                extra_left -= 8
    except BaseException as e:  # noqa
        res['send_error'] = f'{type(e).__name__}: {e}'[:200]
    res['sent'] = sent
    try:
        res['buffered'] = buffered()
    except BaseException as e:  # noqa
        res['buffered'] = -1
        res['buffered_error'] = f'{type(e).__name__}: {e}'[:200]

    # ---- the calls under test
    lock = threading.Lock()

    def call(name, op, func):
        t0 = time.monotonic()
        try:
            v = func()
            out = 'returned' if op != 'receive' else f'returned {type(v).__name__}'
        except BaseException as exc:  # noqa
            out = f'raised {type(exc).__name__}'
        with lock:
            res['calls'].append({'name': name, 'op': op, 'outcome': out, 'dt': round(time.monotonic() - t0, 3)})

    threads = []
    if sc.get('receiver'):
        t = threading.Thread(target=call, args=('r', 'receive', client.receive), daemon=True)
        t.start()
        threads.append(('r', 'receive', t))
        time.sleep(0.05)
    started = time.monotonic()
    later = sc.get('peer', 'stall')
    if later in ('resume', 'disc'):
        def peer_later():
            tr = state['transport']
            if tr is not None:
                if later == 'resume':
                    tr.resume_reading()
                else:
                    tr.abort()
        srv_loop.call_soon_threadsafe(srv_loop.call_later, float(sc.get('peer_after', 0.3)), peer_later)
    for k, (op, delay_ms) in enumerate(sc['closers']):
        if delay_ms:
            time.sleep(delay_ms / 1000.0)
        t = threading.Thread(target=call, args=(f'c{k}', op, getattr(client, op)), daemon=True)
        t.start()
        threads.append((f'c{k}', op, t))
    for _n, _o, t in threads:
        t.join(max(0.0, watchdog - (time.monotonic() - started)))
    res['blocked'] = [{'name': n, 'op': o} for n, o, t in threads if t.is_alive()]
    res['elapsed'] = round(time.monotonic() - started, 3)
    thread.join(0.5 if not res['blocked'] else 0.0)
    res['thread_alive'] = thread.is_alive()
    res['is_closed'] = bool(client.is_closed())
    if not res['blocked']:
        late = {}
        box = []

        def late_call():
            try:
                client.send_debug('late')
                box.append('returned')
            except StateError:
                box.append('StateError')
            except BaseException as exc:  # noqa
                box.append(f'raised {type(exc).__name__}')
        lt = threading.Thread(target=late_call, daemon=True)
        lt.start()
        lt.join(3.0)
        late = box[0] if box else 'blocked'
        res['late'] = late
    return res


def worker_main():
    sys.path.insert(0, HERE)
    import common
    common.use_repo()
    import logging
    logging.disable(logging.CRITICAL)
    import warnings
    warnings.simplefilter('ignore')
    sc = json.loads(sys.stdin.readline())
    try:
        r = _run_one(sc)
    except BaseException as e:  # noqa
        import traceback
        r = {'id': sc.get('id'), 'fatal': 'harness exception: ' + repr(e)[:300], 'tb': traceback.format_exc()[-1500:]}
    sys.stdout.write(json.dumps(r, default=repr) + '\n')
    sys.stdout.flush()
    os._exit(0)


# =====================================================================================================================
#  parent: generation, execution, oracle, shrinking, replay
# =====================================================================================================================
def gen(rng, tier):
    n = 2 if tier == 'quick' else 14
    out = []
    for k in range(n):
        ncl = rng.choice([1, 1, 2])
        closers = [[rng.choice(CLOSE_OPS), rng.choice([0, 0, 5, 50, 200])] for _ in range(ncl)]
        sc = {'rcvbuf': rng.choice([4096, 8192, 65536]),
              'read_before_stall': rng.choice([0, 0, 1000, 200000]),
              'send': rng.choice(SEND_OPS) if k else 'unseq',
              'chunk': rng.choice([4000, 16000, 32000]),
              'extra': rng.choice([0, 8, 64, 200]),
              'closers': closers,
              'receiver': rng.random() < 0.4,
              'peer': 'stall' if k == 0 else rng.choice(PEERS),
              'peer_after': rng.choice([0.05, 0.3, 1.0]),
              'watchdog': 8.0 if tier == 'quick' else 15.0}
        out.append(sc)
    return out


def desc(sc):
    cl = ' '.join(f"{op}+{d}ms" for op, d in sc['closers'])
    return (f"stalled peer (SO_RCVBUF {sc['rcvbuf']}, stops reading {sc['read_before_stall']} B after the login, later: {sc['peer']}"
            + (f" after {sc['peer_after']} s" if sc['peer'] != 'stall' else '') + f"), client sends {sc['send']} x {sc['chunk']} B until the "
            f"transport buffers + {sc['extra']} more, then [{cl}]" + (' with a receive() blocked in another thread' if sc.get('receiver') else ''))


def run_many(scs, parallel=4):
    """each scenario in its own process; a process that does not answer is the observation `process_timeout`"""
    results = [None] * len(scs)
    it = iter(list(enumerate(scs)))
    lock = threading.Lock()

    def feed():
        while True:
            with lock:
                nxt = next(it, None)
            if nxt is None:
                return
            k, sc = nxt
            env = dict(os.environ)
            env['PYTHONPATH'] = HERE
            p = subprocess.Popen([sys.executable, '-W', 'ignore', os.path.abspath(__file__), '--worker'], stdin=subprocess.PIPE,
                                 stdout=subprocess.PIPE, stderr=subprocess.DEVNULL, env=env, text=True)
            t0 = time.monotonic()
            try:
                out, _ = p.communicate(json.dumps(sc) + '\n', timeout=float(sc.get('watchdog', 8.0)) + 25.0)
                line = out.strip().splitlines()[-1] if out.strip() else ''
                results[k] = json.loads(line) if line else {'process_timeout': True}
            except Exception:  # noqa
                p.kill()
                results[k] = {'process_timeout': True}
            results[k]['wall'] = round(time.monotonic() - t0, 2)
    ths = [threading.Thread(target=feed, daemon=True) for _ in range(max(1, min(parallel, len(scs))))]
    for t in ths:
        t.start()
    for t in ths:
        t.join()
    return results


def findings(sc, r):
    """the property statement on what the implementation did; [] when the scenario could not be set up"""
    out = []
    rep = {'kind': 'stall', 'stall': {k: v for k, v in sc.items() if k != 'id'}}
    if r.get('process_timeout'):
        return [('the scenario process did not answer: ' + desc(sc), rep)]
    if r.get('fatal') or r.get('send_error'):
        return []
    state = f"(transport held {r.get('buffered')} unsent bytes of {r.get('sent')} written when the calls began)"
    if r.get('blocked'):
        done = {c['name']: c['outcome'] for c in r.get('calls', [])}
        out.append((f"{', '.join(b['op'] + '()' for b in r['blocked'])} still blocked {sc.get('watchdog', 8.0):.0f} s after the call {state}; "
                    f"other calls: {done}; executor thread alive {r.get('thread_alive')}, is_closed() {r.get('is_closed')}: " + desc(sc), rep))
        return out
    if r.get('thread_alive'):
        out.append((f"close()/logout() returned and the executor thread is still alive {state}: " + desc(sc), rep))
    if not r.get('is_closed'):
        out.append((f"close()/logout() returned and is_closed() is False {state}: " + desc(sc), rep))
    if r.get('late') != 'StateError':
        out.append((f"a call after close()/logout() returned: {r.get('late')} instead of StateError {state}: " + desc(sc), rep))
    for c in r.get('calls', []):
        if c['op'] in CLOSE_OPS and c['outcome'] != 'returned':
            out.append((f"{c['op']}() {c['outcome']} {state}: " + desc(sc), rep))
    return out


def shrink(sc):
    """simpler scenarios of the same class, all tried at once; the simplest one that still fails"""
    first = sc['closers'][0][0]
    cands = []
    for closers in ([['close', 0]], [[first, 0]], [list(sc['closers'][0])], sc['closers']):
        for extra in (0, sc['extra']):
            c = dict(sc, closers=[list(x) for x in closers], receiver=False, extra=extra, read_before_stall=0)
            if c not in cands and c != sc:
                cands.append(c)
    c = dict(sc, receiver=False)
    if c not in cands and c != sc:
        cands.append(c)
    res = run_many(cands, parallel=len(cands))
    for c, r in zip(cands, res):
        f = findings(c, r)
        if f:
            return f[0]
    return None


class _Handle:
    def __init__(self):
        self.scs = []
        self.results = []
        self.thread = None
        self.wall = 0.0


def start(ctx):
    """draws the scenarios (own generator seeded from ctx.seed: the stream of ctx.rng is left as it was) and runs them in the background"""
    h = _Handle()
    rng = random.Random(f'C20-stall-{ctx.seed}')
    h.scs = gen(rng, ctx.tier)
    for k, s in enumerate(h.scs):
        s['id'] = f'stall-{k}'

    def go():
        t0 = time.monotonic()
        h.results = run_many(h.scs, parallel=2 if ctx.tier == 'quick' else 4)
        h.wall = time.monotonic() - t0
    h.thread = threading.Thread(target=go, daemon=True)
    h.thread.start()
    return h


def evaluate(ctx, scs, results, do_shrink=True):
    first = None
    for sc, r in zip(scs, results):
        real = not (r.get('process_timeout') or r.get('fatal') or r.get('send_error')) and (r.get('buffered') or 0) > 0
        ctx.case('stall ' + json.dumps({k: v for k, v in sc.items() if k != 'id'}, sort_keys=True), nontrivial=real)
        ctx.count('stall:' + ('back-pressure' if real else 'no-back-pressure'))
        ctx.count('stall-peer:' + sc['peer'])
        for op, _d in sc['closers']:
            ctx.count('stall-op:' + op)
        if sc.get('receiver'):
            ctx.count('stall-op:receive-blocked')
        if r.get('fatal') or r.get('send_error'):
            ctx.notes.append('C20 stall: scenario could not be set up: ' + str(r.get('fatal') or r.get('send_error'))[:200])
        f = findings(sc, r)
        for what, rep in f:
            ctx.count('oracle:stall')
            if first is None and not ctx.violations:
                first = sc
            ctx.violation(what, rep)
    if first is not None and do_shrink and ctx.violations and ctx.violations[0][1].get('kind') == 'stall':
        try:
            small = shrink(first)
            if small:
                ctx.violations[0] = (small[0] + '  [minimised from: ' + desc(first) + ']', small[1])
        except Exception as e:  # noqa
            ctx.notes.append('C20 stall: shrinking failed: ' + repr(e)[:200])


def finish(ctx, h):
    h.thread.join()
    ctx.cov['rule'] = (ctx.cov.get('rule', '') + '; plus back-pressure scenarios on real sockets: a loopback peer with a small SO_RCVBUF that '
                       'stops reading (pause_reading) 0 / 1000 / 200000 bytes after the login reply and stays connected (later: nothing / resumes / '
                       'aborts), the client writes send_unseq_data / send_debug / send_msg until its transport holds unsent bytes and 0..200 chunks '
                       'more, then close() / logout() from 1..2 threads (gaps 0..200 ms), optionally with a receive() blocked in a third; '
                       'non-trivial = the transport write buffer was non-empty when the calls began')
    ctx.notes.append('C20: the back-pressure scenarios (peer that stops reading, c20_stall.py) are oracle-only — kernel socket buffers and the '
                     'transport\'s write buffer are outside Model/SyncFacade, where transport.close() is one atomic effect of the close coroutine; '
                     f'{len(h.scs)} scenario(s), {h.wall:.1f} s wall in the background of the worker pool')
    evaluate(ctx, h.scs, h.results)


def replay(ctx, rep):
    sc = dict(rep['stall'], id='stall-0')
    r = run_many([sc], parallel=1)[0]
    print('scenario      :', desc(sc))
    print('implementation:', {k: v for k, v in r.items() if k not in ('id', 'tb')})
    evaluate(ctx, [sc], [r], do_shrink=False)
    ctx.case('replay-marker')


if __name__ == '__main__':
    if '--worker' in sys.argv:
        worker_main()
