"""C15 — code generated from an ITCH/OUCH/SQF XML specification implements exactly that specification.

A grammar-based generator produces specifications (abstract syntax, JSON-able dicts).  Each one is written as an XML file into a
fresh temp directory (outside /verif and /repo, removed afterwards) and given to the real `generate` click entry point of
itch/ouch/sqf `codegen.py` in a worker subprocess (the library's registries are process-global; every spec of a batch has its own
application name, module name and output directory; anything suspicious is re-run alone in a fresh process before it is
reported).  The worker returns
  (a) the generated file, parsed with `ast` into the *abstract generated code* (class statements, `Field(...)` entries with
      their type expressions, literals as written, annotations, `__all__`);
  (b) the outcome of importing the file and the classes found by introspection (enums with member values, records and
      messages with their `Fields` in order — type objects mapped back to datatype ids by identity — defaults, message ids,
      directions, `__all__`);
  (c) for value sets chosen by the parent: the bytes `to_bytes()` produced from messages built through the generated classes
      (unset fields — every message once with ALL defaulted fields unset, records with unset fields —, enum members as values)
      and what decoding those bytes gave.  Enum generators include character enums whose member NAMES overlap their VALUES
      (`gen_overlap_members`, `gen_enum_default_spec`; model side: Props/C15Enum.lean, Witness/C15Enum.lean).
      Def-references: the new name of a renaming reference is drawn from fresh names AND from the names that already mean
      something in the file — ANOTHER reusable definition of different meaning, a record, an enum — and the definition of
      that name is referenced before and after the renaming element, in the same and in other records and messages
      (`gen_def_shadow_spec`, `gen_field`; distribution: `def_ref_stats`; the oracle names the reference whose class field
      has not the type of its definition: `def_ref_notes`; model side: Props/C15Defs.lean, Witness/C15Defs.lean).

 * correspondence (Model/GenSoupApp.lean through drv_C15): (a) = `gen`, (b) = `evalModule (gen spec)` including the phase and
   class of a failure — on well-formed specs, on the known-defect shapes and on a stream of malformed specs;
 * oracle (no model involved), on well-formed specs only: (b) equals the reference schema computed here directly from the XML
   text, and (c) equals a reference codec written here from the DATATYPES documentation (independent of the library's codec);
   decoding gives back the values.  The Lean `denote` is cross-checked against the Python reference schema as well.
"""
import json
import os
import shutil
import string
import subprocess
import sys
import tempfile
import time
from concurrent.futures import ThreadPoolExecutor
from xml.sax.saxutils import escape as xml_escape, quoteattr

DRIVER = 'drv_C15'
HERE = os.path.abspath(__file__)
PY = sys.executable
IMPLS = ['itch', 'ouch', 'sqf']

# defects found by this check (see /verif/fixes/C15-*.md); while one is open its signature is listed here
KNOWN_LOCAL = []      # all C15 defects are repaired in /repo (5aeb18b, 77e6d60, 6e4eeaa, 8ed2437); recorded as `fixed`
FORMER_DEFECTS = ['array-of-fixed-string', 'html-escaped-enum-value', 'html-escaped-default-value', 'unescaped-quote-in-literal']

# ------------------------------------------------------------------------------------------------ the documented datatypes
# id -> (kind, size, signed, big-endian, iso) — read from the DATATYPES block of tools/templates/soup_app_xml.mustache
DOC_TYPES = {
    'boolean': ('bool',), 'byte': ('int', 1, False, False),
    'int_2': ('int', 2, True, False), 'int_2_be': ('int', 2, True, True),
    'uint_2': ('int', 2, False, False), 'uint_2_be': ('int', 2, False, True),
    'int_4': ('int', 4, True, False), 'int_4_be': ('int', 4, True, True),
    'uint_4': ('int', 4, False, False), 'uint_4_be': ('int', 4, False, True),
    'int_8': ('int', 8, True, False), 'int_8_be': ('int', 8, True, True),
    'uint_8': ('int', 8, False, False), 'uint_8_be': ('int', 8, False, True),
    'char_ascii': ('char', False), 'char_iso-8859-1': ('char', True),
    'str_ascii': ('str', False), 'str_iso-8859-1': ('str', True),
    'str_ascii_n': ('fixed', False), 'str_iso-8859-1_n': ('fixed', True),
}
INT_IDS = [k for k, v in DOC_TYPES.items() if v[0] == 'int']
CHAR_IDS = ['char_ascii', 'char_iso-8859-1']
SCALAR_IDS = [k for k, v in DOC_TYPES.items() if v[0] != 'fixed']
FIXED_IDS = ['str_ascii_n', 'str_iso-8859-1_n']
PY_KEYWORDS = {'False', 'None', 'True', 'and', 'as', 'assert', 'async', 'await', 'break', 'class', 'continue', 'def', 'del',
               'elif', 'else', 'except', 'finally', 'for', 'from', 'global', 'if', 'import', 'in', 'is', 'lambda', 'nonlocal',
               'not', 'or', 'pass', 'raise', 'return', 'try', 'while', 'with', 'yield'}
ESCAPED = '&"<>'
UNQUOTABLE = "'\\"


def cps(s):
    return [ord(c) for c in s]


def sx(x):
    if isinstance(x, bool):
        return 'true' if x else 'false'
    if isinstance(x, int):
        return str(x)
    if isinstance(x, str):
        return x
    return '(' + ' '.join(sx(e) for e in x) + ')'


def ostr(s):
    """optional text -> s-expression"""
    return 'none' if s is None else cps(s)


# ------------------------------------------------------------------------------------------------ spec -> XML, spec -> sexp
def field_xml(f):
    order = [('name', 'name'), ('def', 'def'), ('type', 'type'), ('ref', 'ref'), ('array', 'array'), ('length', 'length'),
             ('default', 'default'), ('endian', 'endian')]
    return '<field' + ''.join(f' {a}={quoteattr(f[k])}' for k, a in order if f.get(k) is not None) + '/>'


def spec_xml(spec):
    out = ['<?xml version="1.0" encoding="UTF-8"?>', '<root>', ' <enums-root>']
    for e in spec['enums']:
        t = '' if e['type'] is None else f' type={quoteattr(e["type"])}'
        out.append(f'  <enum id={quoteattr(e["name"])}{t}>')
        for v in e['values']:
            out.append(f'   <value name={quoteattr(v["name"])} description="d">{xml_escape(v["value"])}</value>')
        out.append('  </enum>')
    out.append(' </enums-root>')
    out.append(' <fielddef-root>')      # always present: resets FieldDef.Definitions (its leaking between runs is C17's subject)
    for f in spec['fielddefs']:
        out.append('  ' + field_xml(f))
    out.append(' </fielddef-root>')
    out.append(' <records-root>')
    for r in spec['records']:
        out.append(f'  <record id={quoteattr(r["name"])}>')
        out.append('   <fields>' + ''.join(field_xml(f) for f in r['fields']) + '</fields>')
        out.append('  </record>')
    out.append(' </records-root>')
    out.append(' <messages-root>')
    for m in spec['messages']:
        attrs = f' id={quoteattr(m["name"])} message-id={quoteattr(m["msgid"])}'
        if m.get('group') is not None:
            attrs += f' message-group={quoteattr(m["group"])}'
        if m.get('direction') is not None:
            attrs += f' direction={quoteattr(m["direction"])}'
        out.append(f'  <message{attrs}>')
        out.append('   <fields>' + ''.join(field_xml(f) for f in m['fields']) + '</fields>')
        out.append('  </message>')
    out.append(' </messages-root>')
    out.append('</root>')
    return '\n'.join(out) + '\n'


def field_sx(f):
    return ['f'] + [ostr(f.get(k)) for k in ('name', 'def', 'type', 'ref', 'array', 'length', 'default', 'endian')]


def spec_sx(spec):
    return ['spec',
            [['enum', cps(e['name']), ostr(e['type']), [[cps(v['name']), cps(v['value'])] for v in e['values']]]
             for e in spec['enums']],
            [field_sx(f) for f in spec['fielddefs']],
            [['rec', cps(r['name']), [field_sx(f) for f in r['fields']]] for r in spec['records']],
            [['msg', cps(m['name']), cps(m['msgid']), ostr(m.get('group')), ostr(m.get('direction')),
              [field_sx(f) for f in m['fields']]] for m in spec['messages']]]


# ------------------------------------------------------------------------------------------------ reference semantics (Python)
class RefError(Exception):
    pass


def ref_schema_from_xml(xml_text, impl):
    """the schema an XML specification describes, read with this file's own ElementTree walk (nothing of the library is used).
    Returns the canonical schema (same shape as the model's / the introspection's) plus a richer form for the reference codec."""
    from xml.etree import ElementTree as ET
    root = ET.fromstring(xml_text)
    sect = {c.tag: c for c in root}
    enums, defs, records = {}, {}, {}

    def canon_int(text):
        body = text[1:] if text.startswith('-') else text
        if not body or not all(c in '0123456789' for c in body) or (body[0] == '0' and any(c != '0' for c in body)):
            raise RefError(f'not a canonical decimal integer: {text!r}')
        return int(text)

    def const(tid, text):
        kind = DOC_TYPES[tid][0]
        if kind == 'int':
            return ['int', canon_int(text)]
        if kind in ('char', 'str', 'fixed'):
            return ['str', cps(text)]
        raise RefError('no constants for ' + tid)

    for e in sect.get('enums-root', []):
        tid = e.get('type')
        if tid not in DOC_TYPES or DOC_TYPES[tid][0] not in ('int', 'char', 'str'):
            raise RefError('enum type ' + repr(tid))
        enums[e.get('id')] = {'type': tid, 'members': [(v.get('name'), const(tid, v.text or '')) for v in e]}
    for f in sect.get('fielddef-root', []):
        defs[f.get('name')] = f

    def attrs_of(f):
        if f.get('def'):
            base = defs.get(f.get('def'))
            if base is None:
                raise RefError('unknown def ' + f.get('def'))
            a = dict(base.attrib)
            if f.get('name') is not None:
                a['name'] = f.get('name')
            return a
        return dict(f.attrib)

    def field(f):
        a = attrs_of(f)
        t = a.get('type')
        if t is None or a.get('name') is None:
            raise RefError('field without type/name')
        if t.startswith('enum:'):
            en = enums.get(t[5:])
            if en is None:
                raise RefError('unknown enum ' + t)
            ty, rich, dom = ['prim', cps(en['type'])], ('prim', en['type'], t[5:]), en['type']
        elif t.startswith('record:'):
            if t[7:] not in record_names:
                raise RefError('unknown record ' + t)
            ty, rich, dom = ['record', cps(t[7:])], ('record', t[7:]), None
        elif t in DOC_TYPES and DOC_TYPES[t][0] == 'fixed':
            n = canon_int(a.get('length') or '')
            iso = DOC_TYPES[t][1]
            ty, rich, dom = ['fixed', 'iso' if iso else 'ascii', n], ('fixed', iso, n), t
        elif t in DOC_TYPES:
            ty, rich, dom = ['prim', cps(t)], ('prim', t, None), t
        else:
            raise RefError('unknown datatype ' + t)
        dflt = 'none'
        if a.get('array') is not None:
            cnt = 'uint_2_be' if a.get('endian') == 'big' else 'uint_2'
            ty, rich = ['array', ty, ['prim', cps(cnt)]], ('array', rich, cnt)
            if a.get('default') is not None:
                raise RefError('default on an array')
        elif a.get('default') is not None:
            if dom is None:
                raise RefError('default on a record')
            dflt = const(dom, a.get('default'))
        return ['f', cps(a['name']), ty, dflt], {'name': a['name'], 'ty': rich, 'default': dflt}

    record_names = [r.get('id') for r in sect.get('records-root', [])]
    canon_recs, canon_msgs = [], []
    rich = {'records': {}, 'messages': [], 'enums': enums}
    for r in sect.get('records-root', []):
        fs = [field(f) for f in (r[0] if len(r) else [])]
        canon_recs.append(['rec', cps(r.get('id')), [c for c, _ in fs]])
        rich['records'][r.get('id')] = [x for _, x in fs]
    for m in sect.get('messages-root', []):
        mid = m.get('message-id')
        if mid.isascii() and mid.isdigit():
            ind = canon_int(mid)
        elif len(mid) == 1:
            ind = ord(mid)
        else:
            raise RefError('message-id ' + repr(mid))
        fs = [field(f) for f in (m[0] if len(m) else [])]
        d = m.get('direction')
        if impl != 'itch' and d is None:
            raise RefError('no direction')
        canon_msgs.append(['msg', cps(m.get('id')), ind, 'none' if impl == 'itch' else cps(d), [c for c, _ in fs]])
        rich['messages'].append({'name': m.get('id'), 'id': ind, 'direction': d, 'fields': [x for _, x in fs]})
    names = list(enums) + record_names + [m.get('id') for m in sect.get('messages-root', [])]
    canon = ['schema', ['exports'] + [cps(n) for n in ['Message', 'ClientSession', 'connect_async'] + names],
             ['enums'] + [['enum', cps(n), [[cps(k), v] for k, v in e['members']]] for n, e in enums.items()],
             ['records'] + canon_recs, ['messages'] + canon_msgs]
    return canon, rich


# ---- reference codec, from the DATATYPES documentation
def ref_encode_value(rich, ty, v):
    k = ty[0]
    if k == 'prim':
        d = DOC_TYPES[ty[1]]
        if d[0] == 'bool':
            return b'\x01' if v else b'\x00'
        if d[0] == 'int':
            _, size, signed, big = d
            lo, hi = (-(1 << (8 * size - 1)), (1 << (8 * size - 1)) - 1) if signed else (0, (1 << (8 * size)) - 1)
            assert lo <= v <= hi, (ty, v)
            u = v % (1 << (8 * size))
            bs = [(u >> (8 * i)) & 0xff for i in range(size)]
            return bytes(reversed(bs) if big else bs)
        enc = 'iso-8859-1' if d[1] else 'ascii'
        if d[0] == 'char':
            assert len(v) == 1
            return v.encode(enc)
        b = v.encode(enc)                                   # variable length string: 2 byte little-endian length, then the text
        return bytes([len(b) & 0xff, len(b) >> 8]) + b
    if k == 'fixed':
        b = v.encode('iso-8859-1' if ty[1] else 'ascii')
        assert len(b) <= ty[2]
        return b + b' ' * (ty[2] - len(b))
    if k == 'record':
        return b''.join(ref_encode_value(rich, f['ty'], v[f['name']]) for f in rich['records'][ty[1]])
    if k == 'array':
        n = len(v)
        cnt = bytes([n >> 8, n & 0xff]) if ty[2] == 'uint_2_be' else bytes([n & 0xff, n >> 8])
        return cnt + b''.join(ref_encode_value(rich, ty[1], e) for e in v)
    raise ValueError(k)


def ref_decode_value(rich, ty, b, o):
    k = ty[0]
    if k == 'prim':
        d = DOC_TYPES[ty[1]]
        if d[0] == 'bool':
            return o + 1, b[o] == 1
        if d[0] == 'int':
            _, size, signed, big = d
            return o + size, int.from_bytes(b[o:o + size], 'big' if big else 'little', signed=signed)
        enc = 'iso-8859-1' if d[1] else 'ascii'
        if d[0] == 'char':
            return o + 1, b[o:o + 1].decode(enc)
        n = b[o] + 256 * b[o + 1]
        return o + 2 + n, b[o + 2:o + 2 + n].decode(enc)
    if k == 'fixed':
        return o + ty[2], b[o:o + ty[2]].decode('iso-8859-1' if ty[1] else 'ascii').rstrip(' ')
    if k == 'record':
        out = {}
        for f in rich['records'][ty[1]]:
            o, out[f['name']] = ref_decode_value(rich, f['ty'], b, o)
        return o, out
    if k == 'array':
        n = (b[o] * 256 + b[o + 1]) if ty[2] == 'uint_2_be' else (b[o] + 256 * b[o + 1])
        o += 2
        out = []
        for _ in range(n):
            o, e = ref_decode_value(rich, ty[1], b, o)
            out.append(e)
        return o, out
    raise ValueError(k)


def dval_py(d):
    """canonical default -> python value"""
    if d == 'none':
        return None
    return d[1] if d[0] == 'int' else ''.join(chr(c) for c in d[1])


def ref_encode_message(rich, msg, plain_values):
    """plain_values: field name -> plain python value; an absent name means 'unset' (declared default)"""
    out = bytes([msg['id']])
    for f in msg['fields']:
        v = plain_values[f['name']] if f['name'] in plain_values else dval_py(f['default'])
        out += ref_encode_value(rich, f['ty'], v)
    return out


# ------------------------------------------------------------------------------------------------ random values
ASCII_TEXT = string.ascii_letters + string.digits + '_-.@#$%^*()[]{}?/|~`+=,;:!&<>"\'\\'
ISO_EXTRA = ''.join(chr(c) for c in range(0xa1, 0x100))


def gen_value(rng, rich, ty, depth=0):
    """(plain value, transport form for the worker).  Transport: ints/str/bool/list as they are, records as
    {'__rec__': name, 'fields': {...}}, enum members as {'__enum__': enum, 'member': name}."""
    k = ty[0]
    if k == 'prim':
        d = DOC_TYPES[ty[1]]
        if len(ty) > 2 and ty[2] is not None and depth == 0 and rng.random() < 0.7:
            name, val = rng.choice(rich['enums'][ty[2]]['members'])
            return dval_py(val), {'__enum__': ty[2], 'member': name}
        if len(ty) > 2 and ty[2] is not None and rng.random() < 0.8:
            v = dval_py(rng.choice(rich['enums'][ty[2]]['members'])[1])
            return v, v
        if d[0] == 'bool':
            v = rng.random() < 0.5
            return v, v
        if d[0] == 'int':
            _, size, signed, _big = d
            lo, hi = (-(1 << (8 * size - 1)), (1 << (8 * size - 1)) - 1) if signed else (0, (1 << (8 * size)) - 1)
            c = rng.random()
            v = rng.choice([lo, hi, 0, 1, hi - 1, lo + 1, 255, 256]) if c < 0.3 else rng.randint(lo, hi)
            v = min(max(v, lo), hi)
            return v, v
        alphabet = ASCII_TEXT + (ISO_EXTRA if d[1] else '')
        if d[0] == 'char':
            v = rng.choice(alphabet + ' ')
            return v, v
        v = ''.join(rng.choice(alphabet + ' ') for _ in range(rng.choice([0, 1, 2, 5, 17, 300]) if rng.random() < 0.3 else rng.randint(0, 9)))
        return v, v
    if k == 'fixed':
        alphabet = ASCII_TEXT + (ISO_EXTRA if ty[1] else '')
        n = rng.choice([0, ty[2], max(ty[2] - 1, 0)]) if rng.random() < 0.4 else rng.randint(0, ty[2])
        v = ''.join(rng.choice(alphabet + ' ') for _ in range(n)).strip(' ')
        return v, v
    if k == 'record':
        plain, tr = {}, {}
        p_unset = rng.choice([0.0, 0.4, 0.4, 1.0])
        for f in rich['records'][ty[1]]:
            if f['default'] != 'none' and rng.random() < p_unset:
                plain[f['name']] = dval_py(f['default'])    # left unset in the record object: must encode the declared default
                continue
            plain[f['name']], tr[f['name']] = gen_value(rng, rich, f['ty'], depth)
        return plain, {'__rec__': ty[1], 'fields': tr}
    if k == 'array':
        n = rng.choice([0, 1, 2, 3]) if rng.random() < 0.9 else rng.choice([255, 256, 300])
        if ty[1][0] in ('record', 'array') and n > 3:
            n = 3
        items = [gen_value(rng, rich, ty[1], depth + 1) for _ in range(n)]
        return [p for p, _ in items], [t for _, t in items]
    raise ValueError(k)


def gen_message_values(rng, rich, msg, p_unset=0.5):
    plain, tr = {}, {}
    for f in msg['fields']:
        if f['default'] != 'none' and rng.random() < p_unset:
            continue                                        # left unset: must encode the declared default
        plain[f['name']], tr[f['name']] = gen_value(rng, rich, f['ty'])
    return plain, tr


def full_values(rich, msg, plain):
    """what decoding must give back: defaults filled in"""
    return {f['name']: (plain[f['name']] if f['name'] in plain else dval_py(f['default'])) for f in msg['fields']}


# ------------------------------------------------------------------------------------------------ spec generator
class Names:
    def __init__(self, rng, reserved):
        self.rng, self.used = rng, set(reserved) | PY_KEYWORDS

    def fresh(self, prefix, upper=False):
        rng = self.rng
        while True:
            body = ''.join(rng.choice(string.ascii_letters + string.digits + '_') for _ in range(rng.randint(0, 6)))
            if rng.random() < 0.15:
                body += rng.choice(['Char', 'String', 'Array', 'list', 'enum', 'record'])
            n = prefix + body
            if n not in self.used and n.isidentifier():
                self.used.add(n)
                return n


RESERVED_CLASS = set()      # filled from the model's table in run()
FIELD_RESERVED = set()


def plain_chars(iso, edge=False):
    """characters that need no escaping; edge=True adds the ones that are legal but odd (tab, DEL, C1 controls, NBSP)"""
    base = [c for c in (string.ascii_letters + string.digits + ' _-.@#$%^*()[]{}?/|~`+=,;:!&<>"\'\\')]
    if edge:
        base += ['\t', '\x7f']
    if iso:
        base += [chr(c) for c in range(0xa1, 0x100)]
        if edge:
            base += ['\x80', '\x85', '\x9f', '\xa0']
    return base


def gen_const(rng, tid, special=None):
    """a constant of datatype `tid` in canonical notation"""
    d = DOC_TYPES[tid]
    if d[0] == 'int':
        _, size, signed, _big = d
        lo, hi = (-(1 << (8 * size - 1)), (1 << (8 * size - 1)) - 1) if signed else (0, (1 << (8 * size)) - 1)
        v = rng.choice([lo, hi, 0, 1, 9, 10]) if rng.random() < 0.3 else rng.randint(max(lo, -1000), min(hi, 1000))
        return str(v)
    iso = d[1]
    edge = d[0] != 'fixed' and rng.random() < 0.15      # fixed strings are stripped on decode (C01): keep them plain
    if d[0] == 'char':
        return special if special else rng.choice(plain_chars(iso, edge))
    n = rng.randint(0, 6)
    s = ''.join(rng.choice(plain_chars(iso, edge)) for _ in range(n))
    if special:
        s = s[:2] + special + s[2:]
    return s


def usable_field_name(n):
    return n.isidentifier() and n.isascii() and not n.startswith('_') and n not in PY_KEYWORDS and n not in FIELD_RESERVED and n != 'mro'


def taken_names(ctx_):
    """names that already mean something in the specification and are legal field names: the reusable field definitions, the
    records declared so far (`all_records`: every record of the specification) and the enums"""
    out = [d['name'] for d in ctx_['defs']] + list(ctx_.get('all_records', ctx_['records'])) + sorted(ctx_['enums'])
    return [n for n in dict.fromkeys(out) if usable_field_name(n)]


def gen_field(rng, names, ctx_, allow_def=True, in_record=False, force=None):
    """one <field>.  ctx_: {'enums': {name: type}, 'records': [names usable here], 'defs': [fielddef dicts]}"""
    f = {'name': None, 'def': None, 'type': None, 'ref': None, 'array': None, 'length': None, 'default': None, 'endian': None}
    if allow_def and ctx_['defs'] and rng.random() < 0.25 and force is None:
        d = rng.choice(ctx_['defs'])
        f['def'] = d['name']
        if rng.random() < 0.5 or d['name'] in names.local:
            # the new name: a fresh one, or a name that already means something else in this specification — ANOTHER field
            # definition, a record, an enum (a reference renames a copy; it defines nothing)
            pool = [n for n in taken_names(ctx_) if n != d['name'] and n not in names.local]
            if pool and rng.random() < 0.3:
                f['name'] = rng.choice(pool)
                names.local.add(f['name'])
            else:
                f['name'] = names.fresh_field()
        else:
            names.local.add(d['name'])
        return f
    f['name'] = names.fresh_field()
    kinds = ['prim'] * 6 + ['fixed'] * 2 + (['enum'] * 3 if ctx_['enums'] else []) + (['record'] * 3 if ctx_['records'] else [])
    kind = force or rng.choice(kinds)
    dom = None
    if kind == 'prim':
        f['type'] = dom = rng.choice(SCALAR_IDS)
    elif kind == 'fixed':
        f['type'] = dom = rng.choice(FIXED_IDS)
        f['length'] = str(rng.choice([1, 2, 3, 8, 16, 32]) if rng.random() < 0.7 else rng.randint(1, 40))
    elif kind == 'enum':
        en = rng.choice(sorted(ctx_['enums']))
        f['type'] = 'enum:' + en
        dom = ctx_['enums'][en]
    else:
        f['type'] = 'record:' + rng.choice(ctx_['records'])
    if rng.random() < 0.3:
        f['array'] = rng.choice(['true', 'true', 'single', '1', 'yes'])
        c = rng.random()
        f['endian'] = 'big' if c < 0.45 else ('little' if c < 0.6 else None)
    elif rng.random() < 0.1:
        f['endian'] = rng.choice(['big', 'little'])           # irrelevant without an array
    if f['array'] is None and dom is not None and DOC_TYPES[dom][0] != 'bool' and rng.random() < 0.35:
        if kind == 'fixed':
            f['default'] = gen_const(rng, dom)[:int(f['length'])].strip(' ')
        elif kind == 'enum' and rng.random() < 0.8:
            # a member's value — or, where a member's NAME is itself a legal constant of the datatype, that name
            f['default'] = rng.choice(ctx_.get('enum_consts', ctx_['enum_values'])[f['type'][5:]])
        else:
            f['default'] = gen_const(rng, dom)
    return f


class FieldNames:
    def __init__(self, rng):
        self.rng, self.local = rng, set()

    def fresh_field(self):
        rng = self.rng
        while True:
            n = rng.choice(string.ascii_letters) + ''.join(rng.choice(string.ascii_letters + string.digits + '_')
                                                           for _ in range(rng.randint(0, 7)))
            if rng.random() < 0.1:
                n = rng.choice(['type', 'name', 'str', 'list', 'int', 'id', 'self', 'cls', 'length', 'Side']) + n[:1]
            if n not in self.local and n not in PY_KEYWORDS and n not in FIELD_RESERVED and n != 'mro':
                self.local.add(n)
                return n


OVERLAP_SHAPES = ['swap', 'perm', 'identity', 'chain', 'single', 'mixed', 'mixed']


def gen_overlap_members(rng, tid, mn, shape=None):
    """members of a CHARACTER enum whose names are drawn from the same small alphabet as their values (a letter is both an
    identifier and a legal character constant): `swap` N->Y, Y->N; `perm` names are a permutation of the values (fixed points
    = a member named like its own value); `identity` every member named like its value; `chain` A->B, B->C (the last value is
    nobody's name, the first name nobody's value); `single` one member whose name is a constant but not its value; `mixed`
    single-letter and long names over values from the letters and other characters, repeats (aliases) allowed"""
    shape = shape or rng.choice(OVERLAP_SHAPES)
    letters = rng.sample(string.ascii_letters, rng.randint(2, 5))
    mn.local.update(letters)
    if shape == 'swap':
        names, values = letters[:2], [letters[1], letters[0]]
    elif shape == 'perm':
        names, values = letters, rng.sample(letters, len(letters))
    elif shape == 'identity':
        names, values = letters, list(letters)
    elif shape == 'chain':
        names, values = letters[:-1], letters[1:]
    elif shape == 'single':
        names, values = letters[:1], letters[1:2]
    else:
        names = list(letters)
        for _ in range(rng.randint(1, 2)):
            names.insert(rng.randrange(len(names) + 1), mn.fresh_field())
        pool = letters + [gen_const(rng, tid) for _ in range(2)]
        values = [rng.choice(pool) for _ in names]
    return [{'name': n, 'value': v} for n, v in zip(names, values)], shape


def enum_consts(vals, tid):
    """the default texts worth declaring on a field of this enum: every member's value and, for character enums, every
    member name that is a legal constant of the datatype (one character)"""
    out = [v['value'] for v in vals]
    if DOC_TYPES[tid][0] == 'char':
        out += [v['name'] for v in vals if len(v['name']) == 1]
    return out


def gen_wf_spec(rng, tier):
    """a specification inside the property's quantifier"""
    impl = rng.choice(IMPLS)
    names = Names(rng, RESERVED_CLASS)
    spec = {'enums': [], 'fielddefs': [], 'records': [], 'messages': []}
    enum_types, enum_values, consts = {}, {}, {}
    for _ in range(rng.choice([0, 1, 1, 2, 3])):
        tid = rng.choice(INT_IDS + CHAR_IDS * 4)
        en = names.fresh(rng.choice(['E', 'Side', 'e']))
        mn = FieldNames(rng)
        if tid in CHAR_IDS and rng.random() < 0.35:
            vals, _shape = gen_overlap_members(rng, tid, mn)
        else:
            vals, seen = [], set()
            for _ in range(rng.randint(1, 5)):
                v = gen_const(rng, tid)
                if v in seen and rng.random() < 0.8:
                    continue
                seen.add(v)
                vals.append({'name': mn.fresh_field(), 'value': v})
        spec['enums'].append({'name': en, 'type': tid, 'values': vals})
        enum_types[en] = tid
        enum_values[en] = [v['value'] for v in vals]
        consts[en] = enum_consts(vals, tid)
    ctx_ = {'enums': enum_types, 'enum_values': enum_values, 'enum_consts': consts, 'records': [], 'defs': []}
    dn = FieldNames(rng)
    for _ in range(rng.choice([0, 0, 1, 2, 4])):
        f = gen_field(rng, dn, ctx_, allow_def=False, force=rng.choice(['prim', 'prim', 'fixed'] + (['enum'] if enum_types else [])))
        spec['fielddefs'].append(f)
    ctx_['defs'] = spec['fielddefs']
    for _ in range(rng.choice([0, 1, 1, 2, 3])):
        rn = names.fresh(rng.choice(['R', 'Leg', 'rec_']))
        fn = FieldNames(rng)
        fields = [gen_field(rng, fn, ctx_, in_record=True) for _ in range(rng.choice([0, 1, 2, 3, 4, 5, 1, 2, 3]))]
        spec['records'].append({'name': rn, 'fields': fields})
        ctx_['records'] = ctx_['records'] + [rn]
    used_ids = set()
    used_groups = {}
    for _ in range(rng.choice([1, 1, 2, 3, 5] if tier == 'quick' else [1, 2, 3, 5, 8])):
        mname = names.fresh(rng.choice(['M', 'Order', 'm']))
        direction = rng.choice(['incoming', 'outgoing'])
        twin = None
        if impl == 'ouch' and spec['messages'] and rng.random() < 0.35:
            # OUCH style: the same message id in the other direction (e.g. 'U' Replace Order in, 'U' Replaced out), same group
            cands = [(i, g) for (i, d_), g in used_groups.items() if ((i, 'incoming' if d_ == 'outgoing' else 'outgoing') not in used_ids)]
            if cands:
                twin = rng.choice(cands)
                direction = [d_ for d_ in ('incoming', 'outgoing') if (twin[0], d_) not in used_ids][0]
        while True:
            ind = rng.randrange(256) if twin is None else twin[0]
            key = (ind, direction) if impl == 'ouch' else ind
            if key not in used_ids:
                used_ids.add(key)
                break
        as_char = chr(ind) if (not chr(ind).isdigit() and ind not in (0x0a, 0x0d, 0x09, 0x20) and ind >= 0x20 and ind != 0x7f
                               and not 0x80 <= ind < 0xa0 and rng.random() < 0.5) else None
        fn = FieldNames(rng)
        fields = [gen_field(rng, fn, ctx_) for _ in range(rng.choice([0, 1, 2, 3, 4, 5, 6, 1, 2, 3, 4]))]
        group = rng.choice([None, None, 'g', '2', 'grp-1']) if twin is None else twin[1]
        used_groups[(ind, direction)] = group
        spec['messages'].append({'name': mname, 'msgid': as_char if as_char is not None else str(ind),
                                 'group': group, 'direction': direction, 'fields': fields})
    return impl, spec


def gen_enum_default_spec(rng, tier):
    """inside the quantifier, aimed at 'unset fields encode their declared default' on ENUM-typed fields: character enums of
    both character datatypes whose member names overlap their values (every shape of `gen_overlap_members`), an integer enum
    and a plain character enum next to them; defaults declared inline, in a reusable field definition used as it is and
    renamed, in records (used as a field and as array elements) and in messages"""
    impl = rng.choice(IMPLS)
    names = Names(rng, RESERVED_CLASS)
    spec = {'enums': [], 'fielddefs': [], 'records': [], 'messages': []}
    enum_types, enum_values, consts = {}, {}, {}

    def add_enum(tid, vals):
        en = names.fresh(rng.choice(['E', 'Flag', 'e']))
        spec['enums'].append({'name': en, 'type': tid, 'values': vals})
        enum_types[en], enum_values[en], consts[en] = tid, [v['value'] for v in vals], enum_consts(vals, tid)
        return en
    first = rng.choice(CHAR_IDS)
    over = [add_enum(first, gen_overlap_members(rng, first, FieldNames(rng))[0])]
    if rng.random() < 0.5:
        other = [c for c in CHAR_IDS if c != first][0]
        over.append(add_enum(other, gen_overlap_members(rng, other, FieldNames(rng))[0]))
    plain = []
    if rng.random() < 0.6:
        tid = rng.choice(INT_IDS)
        mn = FieldNames(rng)
        plain.append(add_enum(tid, [{'name': mn.fresh_field(), 'value': v}
                                    for v in sorted({gen_const(rng, tid) for _ in range(rng.randint(1, 4))})]))
    if rng.random() < 0.4:
        tid = rng.choice(CHAR_IDS)
        mn = FieldNames(rng)
        plain.append(add_enum(tid, [{'name': mn.fresh_field() + 'x', 'value': gen_const(rng, tid)} for _ in range(rng.randint(1, 3))]))
    ctx_ = {'enums': enum_types, 'enum_values': enum_values, 'enum_consts': consts, 'records': [], 'defs': []}

    def enum_field(fn, name=None):
        en = rng.choice(over * 3 + plain)
        f = blank_field(name or fn.fresh_field(), type='enum:' + en)
        c = rng.random()
        if c < 0.8:
            f['default'] = rng.choice(consts[en])
        elif c < 0.9:
            f['default'] = gen_const(rng, enum_types[en])       # a constant of the datatype that is no member's value
        elif c < 0.95:
            f['array'], f['endian'] = 'true', rng.choice([None, 'big', 'little'])
        return f
    dn = FieldNames(rng)
    for _ in range(rng.randint(1, 3)):
        spec['fielddefs'].append(enum_field(dn))
    if rng.random() < 0.4:
        spec['fielddefs'].append(gen_field(rng, dn, ctx_, allow_def=False, force=rng.choice(['prim', 'fixed'])))
    ctx_['defs'] = spec['fielddefs']

    def some_fields(fn, n):
        out = []
        for _ in range(n):
            c = rng.random()
            if c < 0.4:
                out.append(enum_field(fn))
            elif c < 0.75:
                d = rng.choice(spec['fielddefs'])
                if d['name'] in fn.local or rng.random() < 0.5:
                    out.append(blank_field(fn.fresh_field(), **{'def': d['name']}))
                else:
                    fn.local.add(d['name'])
                    out.append(blank_field(None, **{'def': d['name']}))
            else:
                out.append(gen_field(rng, fn, ctx_, allow_def=False))
        return out
    for _ in range(rng.choice([0, 1, 1, 2])):
        rn = names.fresh(rng.choice(['R', 'Leg']))
        spec['records'].append({'name': rn, 'fields': some_fields(FieldNames(rng), rng.randint(1, 4))})
        ctx_['records'] = ctx_['records'] + [rn]
    used = set()
    for _ in range(rng.choice([1, 1, 2, 3])):
        direction = rng.choice(['incoming', 'outgoing'])
        while True:
            ind = rng.randrange(256)
            if ind not in used:
                used.add(ind)
                break
        fn = FieldNames(rng)
        fields = some_fields(fn, rng.randint(1, 5))
        for rn in ctx_['records']:
            if rng.random() < 0.7:
                arr = rng.random() < 0.6
                fields.insert(rng.randrange(len(fields) + 1),
                              blank_field(fn.fresh_field(), type='record:' + rn, array='true' if arr else None,
                                          endian=rng.choice([None, 'big', 'little']) if arr else None))
        spec['messages'].append({'name': names.fresh(rng.choice(['M', 'Order'])), 'msgid': str(ind), 'group': None,
                                 'direction': direction, 'fields': fields})
    return impl, spec


def enum_default_stats(spec):
    """input distribution: how enum members' names relate to their values, and what the declared default of every enum-typed
    field is with respect to them (where it is declared: inline / def / renamed def; in a record / a message)"""
    enums = {e['name']: e for e in spec['enums']}
    defs = {d['name']: d for d in spec['fielddefs']}
    for e in spec['enums']:
        names, values = {v['name'] for v in e['values']}, {v['value'] for v in e['values']}
        kind = 'char' if e['type'] in CHAR_IDS else 'int'
        if names & values:
            yield f'enum:{kind}:names-overlap-values' + (':own-value' if any(v['name'] == v['value'] for v in e['values']) else '')
        else:
            yield f'enum:{kind}:names-disjoint-from-values'
    for sec in ('records', 'messages'):
        for cont in spec[sec]:
            for f in cont['fields']:
                how = 'inline'
                if f.get('def'):
                    how, f = ('def-renamed' if f.get('name') else 'def'), defs.get(f['def'], {})
                ty = f.get('type') or ''
                if not ty.startswith('enum:') or f.get('default') is None or ty[5:] not in enums:
                    continue
                e = enums[ty[5:]]
                by_name = {v['name']: v['value'] for v in e['values']}
                d = f['default']
                rel = ('name-of-another-value' if d in by_name and by_name[d] != d else
                       'name-of-its-own-value' if d in by_name else
                       'a-value' if d in by_name.values() else 'no-member')
                yield f'enum-default:{e["type"]}:{how}:{sec[:-1]}:{rel}'


def def_sig(f, enum_types):
    """what a field definition means on the wire and in the class (its name apart): two definitions with different
    signatures give different `Field(...)` entries"""
    t = f.get('type') or ''
    if t.startswith('enum:'):
        t = 'enum-of:' + str(enum_types.get(t[5:]))
    arr = f.get('array') is not None
    return (t, f.get('length'), arr, (f.get('endian') == 'big') if arr else None, f.get('default'))


def gen_def_shadow_spec(rng, tier):
    """inside the quantifier, aimed at 'a def-reference gives the field the type of the definition it names' whatever else the
    file says: two to five reusable definitions with pairwise DIFFERENT meaning (datatype, length, array, count endian,
    default), some of them named like a record or an enum of the file; records and messages in which
      * `<field name="Y" def="X"/>` renames a copy of X to the name of ANOTHER definition Y (or of a record / an enum),
      * Y itself is referenced — `<field def="Y"/>` and `<field name="z" def="Y"/>` — BEFORE and AFTER that element: earlier
        and later in the same record / message (renamed: one class has no two fields called Y), in earlier and later records,
        in earlier and later messages,
      * X keeps being referenced too, and the records are used by the messages (alone and as array elements).
    A reference defines nothing: every field declared by reference has the type of the definition the `fielddef-root`
    section gives for that name, wherever the element stands."""
    impl = rng.choice(IMPLS)
    names = Names(rng, RESERVED_CLASS)
    spec = {'enums': [], 'fielddefs': [], 'records': [], 'messages': []}
    enum_types, enum_values, consts = {}, {}, {}
    for _ in range(rng.choice([0, 1, 1, 2])):
        tid = rng.choice(INT_IDS + CHAR_IDS * 3)
        en = names.fresh(rng.choice(['E', 'Side', 'e']))
        mn = FieldNames(rng)
        vals = [{'name': mn.fresh_field(), 'value': v} for v in sorted({gen_const(rng, tid) for _ in range(rng.randint(1, 4))})]
        spec['enums'].append({'name': en, 'type': tid, 'values': vals})
        enum_types[en], enum_values[en], consts[en] = tid, [v['value'] for v in vals], enum_consts(vals, tid)
    rec_names = [names.fresh(rng.choice(['R', 'Leg', 'rec_'])) for _ in range(rng.choice([0, 1, 1, 2, 3]))]
    class_names = [n for n in rec_names + sorted(enum_types) if usable_field_name(n)]
    ctx_ = {'enums': enum_types, 'enum_values': enum_values, 'enum_consts': consts, 'records': [], 'defs': [],
            'all_records': rec_names}
    # ---- the definitions: pairwise different meaning
    dn, sigs = FieldNames(rng), set()
    n_defs = rng.choice([2, 2, 3, 3, 4, 5])
    while len(spec['fielddefs']) < n_defs:
        f = gen_field(rng, dn, ctx_, allow_def=False, force=rng.choice(['prim'] * 4 + ['fixed'] + (['enum'] if enum_types else [])))
        sig = def_sig(f, enum_types)
        if sig in sigs:
            dn.local.discard(f['name'])
            continue
        sigs.add(sig)
        free = [n for n in class_names if n not in dn.local]
        if free and rng.random() < 0.25:                   # a definition named like a record / an enum of the file
            dn.local.discard(f['name'])
            f['name'] = rng.choice(free)
            dn.local.add(f['name'])
        spec['fielddefs'].append(f)
    ctx_['defs'] = spec['fielddefs']
    def_names = [d['name'] for d in spec['fielddefs']]
    # ---- the containers in document order: records, then messages
    n_msgs = rng.choice([2, 2, 3, 4])
    conts = [('records', n) for n in rec_names] + [('messages', i) for i in range(n_msgs)]
    plans, local = [[] for _ in conts], [FieldNames(rng) for _ in conts]

    def ref(ci, d, plain):
        fn = local[ci]
        if plain and d not in fn.local:
            fn.local.add(d)
            return blank_field(None, **{'def': d})
        return blank_field(fn.fresh_field(), **{'def': d})

    def index_of(ci, f):
        return [i for i, g in enumerate(plans[ci]) if g is f][0]

    for _ in range(rng.choice([1, 1, 1, 2, 3])):
        # X renamed to Y
        y = rng.choice(def_names) if (rng.random() < 0.8 or not class_names) else rng.choice(class_names)
        xs = [n for n in def_names if n != y]
        x = rng.choice(xs)
        cands = [ci for ci in range(len(conts)) if y not in local[ci].local]
        if not cands:
            continue
        ci = rng.choice(cands)
        ren = blank_field(y, **{'def': x})
        local[ci].local.add(y)
        plans[ci].insert(rng.randrange(len(plans[ci]) + 1), ren)
        if y not in def_names:
            continue                                        # named like a class only: nothing is shadowed, the rename is legal
        after = 0
        for cj in range(len(conts)):
            if cj == ci:
                if rng.random() < 0.5:
                    plans[ci].insert(rng.randrange(index_of(ci, ren) + 1), ref(ci, y, False))
                if rng.random() < 0.6:
                    plans[ci].insert(rng.randrange(index_of(ci, ren) + 1, len(plans[ci]) + 1), ref(ci, y, False))
                    after += 1
            elif rng.random() < (0.6 if cj < ci else 0.75):
                plans[cj].insert(rng.randrange(len(plans[cj]) + 1), ref(cj, y, rng.random() < 0.6))
                after += cj > ci
        if not after:                                       # at least one reference to Y after the renaming element
            cj = rng.choice(range(ci, len(conts)))
            if cj == ci:
                plans[ci].insert(rng.randrange(index_of(ci, ren) + 1, len(plans[ci]) + 1), ref(ci, y, False))
            else:
                plans[cj].insert(rng.randrange(len(plans[cj]) + 1), ref(cj, y, rng.random() < 0.6))
        for cj in range(len(conts)):                        # X stays in use under its own name / other names
            if rng.random() < 0.25:
                plans[cj].insert(rng.randrange(len(plans[cj]) + 1), ref(cj, x, rng.random() < 0.5))
    # ---- assemble; other fields around them
    used = rng.sample(range(256), n_msgs)
    for ci, (sec, key) in enumerate(conts):
        fields, fn = plans[ci], local[ci]
        for _ in range(rng.choice([0, 0, 1, 2, 3])):
            fields.insert(rng.randrange(len(fields) + 1), gen_field(rng, fn, ctx_, in_record=sec == 'records'))
        if sec == 'records':
            spec['records'].append({'name': key, 'fields': fields})
            ctx_['records'] = ctx_['records'] + [key]
        else:
            for rn in rec_names:
                if rng.random() < 0.6:
                    arr = rng.random() < 0.5
                    fields.insert(rng.randrange(len(fields) + 1),
                                  blank_field(fn.fresh_field(), type='record:' + rn, array='true' if arr else None,
                                              endian=rng.choice([None, 'big', 'little']) if arr else None))
            spec['messages'].append({'name': names.fresh(rng.choice(['M', 'Order', 'm'])), 'msgid': str(used[key]), 'group': None,
                                     'direction': rng.choice(['incoming', 'outgoing']), 'fields': fields})
    return impl, spec


def def_ref_stats(spec):
    """input distribution of the def-references: what the new name of a renaming reference is (fresh / the name of another
    definition of different meaning / of a record / of an enum) and, for a name that is another definition's, where that
    definition is referenced relative to the renaming element (document order; records come before messages)"""
    enum_types = {e['name']: e['type'] for e in spec['enums']}
    defs = {d['name']: d for d in spec['fielddefs']}
    recs, enums = {r['name'] for r in spec['records']}, set(enum_types)
    elems = []                                              # (container index, section, position, field)
    for ci, (sec, cont) in enumerate([('record', r) for r in spec['records']] + [('message', m) for m in spec['messages']]):
        for pos, f in enumerate(cont['fields']):
            if f.get('def'):
                elems.append((ci, sec, pos, f))
    for ci, sec, pos, f in elems:
        if f.get('name') is None or f['name'] == f['def']:
            yield f'def-ref:{sec}:as-it-is'
            continue
        y = f['name']
        if y in defs and f['def'] in defs:
            same = def_sig(defs[y], enum_types) == def_sig(defs[f['def']], enum_types)
            yield f'def-ref:{sec}:renamed-to-another-definition' + (':same-meaning' if same else '')
            for cj, sec2, pos2, g in elems:
                if g['def'] != y:
                    continue
                when = 'before' if (cj, pos2) < (ci, pos) else 'after'
                where = 'same-' + sec if cj == ci else ('other-' + sec2)
                yield f'shadowed-definition-referenced:{when}:{where}:{"renamed" if g.get("name") else "as-it-is"}'
        elif y in recs or y in enums:
            yield f'def-ref:{sec}:renamed-to-a-{"record" if y in recs else "enum"}-name'
        else:
            yield f'def-ref:{sec}:renamed-fresh'


def blank_field(name, **kw):
    f = {'name': name, 'def': None, 'type': None, 'ref': None, 'array': None, 'length': None, 'default': None, 'endian': None}
    f.update(kw)
    return f


def gen_known_spec(rng, tier, kind):
    """a well-formed specification plus one instance of a shape the unchanged tree gets wrong (see fixes/C15-*.md)"""
    impl, spec = gen_wf_spec(rng, tier)
    m = rng.choice(spec['messages'])
    if kind == 'array-of-fixed-string':
        m['fields'].append(blank_field('fxarr', type=rng.choice(FIXED_IDS), length=str(rng.randint(1, 9)), array='true',
                                       endian=rng.choice([None, 'big'])))
    elif kind == 'html-escaped-enum-value':
        tid = rng.choice(CHAR_IDS)
        spec['enums'].append({'name': 'EscE', 'type': tid, 'values': [{'name': 'Plain', 'value': 'p'},
                                                                      {'name': 'Special', 'value': rng.choice(ESCAPED)}]})
        m['fields'].append(blank_field('escf', type='enum:EscE'))
    elif kind == 'html-escaped-default-value':
        tid = rng.choice(['char_ascii', 'char_iso-8859-1', 'str_ascii', 'str_iso-8859-1', 'str_ascii_n'])
        f = blank_field('escd', type=tid, default=gen_const(rng, tid, special=rng.choice(ESCAPED)))
        if tid.endswith('_n'):
            f['length'] = '12'
            # a fixed-width value has no pad character at either end (C01's wf: `strip(' ')` is how the field is read back)
            f['default'] = f['default'].strip(' ') or 'x' + rng.choice(ESCAPED)
        m['fields'].append(f)
    elif kind == 'unescaped-quote-in-literal':
        if rng.random() < 0.5:
            spec['enums'].append({'name': 'QuoE', 'type': rng.choice(CHAR_IDS),
                                  'values': [{'name': 'Plain', 'value': 'p'}, {'name': 'Special', 'value': rng.choice(UNQUOTABLE)}]})
            m['fields'].append(blank_field('quof', type='enum:QuoE'))
        else:
            m['fields'].append(blank_field('quod', type=rng.choice(CHAR_IDS), default=rng.choice(UNQUOTABLE)))
    return impl, spec


MALFORMED_KINDS = ['double-array', 'unknown-type', 'unknown-enum', 'unknown-record', 'missing-def', 'type-and-ref', 'no-type',
                   'dup-key-no-override', 'dup-key-override', 'dup-id-import', 'leading-zero-id', 'long-msg-id',
                   'forward-record', 'empty-enum', 'noncanonical-default', 'fixed-no-length', 'int-enum-bad-value',
                   'dup-member', 'array-of-fixed-double', 'bad-default-name', 'enum-of-fixed', 'empty-ref', 'no-direction']


def gen_malformed_spec(rng, tier, kind):
    """outside the property's quantifier: model and implementation are compared, the oracle is not consulted"""
    impl, spec = gen_wf_spec(rng, tier)
    override = True
    m = rng.choice(spec['messages'])
    if kind == 'double-array':
        m['fields'].append(blank_field('dbl', type=rng.choice(SCALAR_IDS), array='double', endian=rng.choice([None, 'big'])))
    elif kind == 'array-of-fixed-double':
        m['fields'].append(blank_field('dblfx', type=rng.choice(FIXED_IDS), length='3', array='double'))
    elif kind == 'unknown-type':
        m['fields'].append(blank_field('unk', type=rng.choice(['int_3', 'INT_4', 'string', 'enum', 'record', ''])))
    elif kind == 'unknown-enum':
        m['fields'].append(blank_field('unk', type='enum:Nope'))
    elif kind == 'unknown-record':
        m['fields'].append(blank_field('unk', type='record:Nope'))
    elif kind == 'missing-def':
        m['fields'].append(blank_field(rng.choice([None, 'x1']), **{'def': 'nodef'}))
    elif kind == 'type-and-ref':
        m['fields'].append(blank_field('tr', type='int_4', ref='Short'))
    elif kind == 'no-type':
        m['fields'].append(blank_field('nt'))
    elif kind == 'empty-ref':
        m['fields'].append(blank_field('er', ref=''))
    elif kind in ('dup-key-no-override', 'dup-key-override'):
        override = kind == 'dup-key-override'
        m2 = json.loads(json.dumps(m))
        m2['name'] = m['name'] + 'Ext'
        m2['fields'].append(blank_field('extra9', type='int_2'))
        spec['messages'].append(m2)
    elif kind == 'dup-id-import':
        m2 = json.loads(json.dumps(m))
        m2['name'] = m['name'] + 'Dup'
        m2['group'] = 'othergroup'
        if impl != 'ouch' and rng.random() < 0.5:
            m2['direction'] = 'incoming' if m['direction'] == 'outgoing' else 'outgoing'
        spec['messages'].append(m2)
    elif kind == 'leading-zero-id':
        m['msgid'] = rng.choice(['007', '00', '01', '000', '0255'])
    elif kind == 'long-msg-id':
        m['msgid'] = rng.choice(['AB', '', 'A1', '-1', '1.5', ' 7'])
    elif kind == 'forward-record':
        spec['records'].insert(0, {'name': 'Fwd', 'fields': [blank_field('later', type='record:Later')]})
        spec['records'].append({'name': 'Later', 'fields': [blank_field('x', type='byte')]})
    elif kind == 'empty-enum':
        spec['enums'].append({'name': 'Empty', 'type': rng.choice(CHAR_IDS + INT_IDS), 'values': []})
    elif kind == 'noncanonical-default':
        m['fields'].append(blank_field('ncd', type=rng.choice(INT_IDS), default=rng.choice(['05', '00', '-0', '', 'x', '007', '0x', '1_'])))
    elif kind == 'bad-default-name':
        m['fields'].append(blank_field('bdn', type='boolean', default=rng.choice(['True', 'False', 'true', '1'])))
    elif kind == 'fixed-no-length':
        m['fields'].append(blank_field('fnl', type=rng.choice(FIXED_IDS), length=rng.choice([None, '03', '', 'n'])))
    elif kind == 'int-enum-bad-value':
        spec['enums'].append({'name': 'BadV', 'type': rng.choice(INT_IDS), 'values': [{'name': 'A', 'value': rng.choice(['', '01', 'x', '1x'])}]})
    elif kind == 'dup-member':
        spec['enums'].append({'name': 'DupM', 'type': 'char_ascii', 'values': [{'name': 'A', 'value': 'a'}, {'name': 'A', 'value': 'b'}]})
    elif kind == 'enum-of-fixed':
        spec['enums'].append({'name': 'FxE', 'type': rng.choice(FIXED_IDS + ['str_ascii', 'boolean', 'nope', None]),
                              'values': [{'name': 'A', 'value': '1'}]})
        m['fields'].append(blank_field('fxe', type='enum:FxE'))
    elif kind == 'no-direction':
        m['direction'] = None
    return impl, spec, override


# ------------------------------------------------------------------------------------------------ worker (implementation side)
def worker_main():
    """stdin: one JSON job list; stdout: one JSON result list.  Runs the real generator and imports what it wrote."""
    job = json.load(sys.stdin)
    sys.dont_write_bytecode = True
    import logging
    import warnings
    warnings.simplefilter('ignore')
    src = os.path.join(job['repo'], 'src')
    sys.path.insert(0, src)
    import nasdaq_protocols
    assert os.path.realpath(nasdaq_protocols.__file__).startswith(os.path.realpath(src))
    logging.disable(logging.CRITICAL)
    sys.path.insert(0, os.path.dirname(HERE))
    from common import err_name
    out = []
    for case in job['cases']:
        try:
            out.append(worker_case(case, err_name))
        except BaseException as e:     # noqa  — never lose the batch
            out.append({'id': case['id'], 'crash': f'{type(e).__name__}: {e}'})
    real_stdout.write(json.dumps(out))
    real_stdout.flush()


def worker_case(case, err_name):
    import contextlib
    import importlib
    import importlib.util
    import io
    res = {'id': case['id'], 'gen': None, 'code': None, 'imp': None, 'schema': None, 'values': []}
    tmp = tempfile.mkdtemp(prefix='c15-')
    try:
        spec_file = os.path.join(tmp, 'spec.xml')
        with open(spec_file, 'w', encoding='utf-8') as fh:
            fh.write(case['xml'])
        op_dir = os.path.join(tmp, 'out')
        os.mkdir(op_dir)
        cg = importlib.import_module(f'nasdaq_protocols.{case["impl"]}.codegen')
        try:
            with contextlib.redirect_stdout(io.StringIO()):
                cg.generate.callback(spec_file=spec_file, app_name=case['app'], prefix=case.get('prefix', ''), op_dir=op_dir,
                                     override_messages=case['override'], init_file=case.get('init_file', False))
            res['gen'] = 'ok'
        except Exception as e:   # noqa
            res['gen'] = 'err ' + err_name(e).split(':')[0]
            res['gen_detail'] = f'{type(e).__name__}: {e}'[:300]
            return res
        stem = (case['prefix'] + '_' if case.get('prefix') else '') + f'{case["impl"]}_{case["app"]}'
        path = os.path.join(op_dir, stem + '.py')
        if case.get('init_file'):
            try:
                init = open(os.path.join(op_dir, '__init__.py'), encoding='utf-8').read()
            except OSError:
                init = ''
            res['init_ok'] = init.strip() == f'from .{stem} import *'      # (C17 owns the file-level behaviour)
        text = open(path, encoding='utf-8').read()
        res['text_tail'] = text[text.find('# Enums'):][:6000]
        res['code'] = abstract_code(text)
        modname = f'c15gen_{case["impl"]}_{case["app"]}'
        try:
            spec_ = importlib.util.spec_from_file_location(modname, path)
            mod = importlib.util.module_from_spec(spec_)
            sys.modules[modname] = mod
            spec_.loader.exec_module(mod)
            res['imp'] = 'ok'
        except BaseException as e:   # noqa
            if isinstance(e, (KeyboardInterrupt, SystemExit)):
                raise
            res['imp'] = 'err ' + err_name(e).split(':')[0]
            res['imp_detail'] = f'{type(e).__name__}: {e}'[:300]
            return res
        res['schema'] = introspect(mod, case['impl'])
        if case.get('want_namespace'):
            res['namespace'] = sorted(n for n in vars(mod) if not n.startswith('__'))
        for vs in case.get('values', []):
            res['values'].append(run_values(mod, case['impl'], vs, err_name))
        return res
    finally:
        shutil.rmtree(tmp, ignore_errors=True)


def abstract_code(text):
    """the generated file -> abstract generated code (canonical s-expression of the model's `Module`), or a syntax error marker"""
    import ast
    try:
        tree = ast.parse(text)
    except SyntaxError as e:
        return {'syntax_error': str(e)[:200]}
    seg = lambda node: ast.get_source_segment(text, node)

    def lit(node):
        s = seg(node)
        if s[:1] == "'" and s[-1:] == "'" and len(s) >= 2:
            return ['q', cps(s[1:-1])]
        return ['r', cps(s)]

    def tyexpr(node):
        if isinstance(node, ast.Name):
            return ['cls', cps(node.id)]
        if isinstance(node, ast.Call) and isinstance(node.func, ast.Name) and node.func.id == 'Array' and len(node.args) == 2 \
                and not node.keywords:
            return ['array', tyexpr(node.args[0]), tyexpr(node.args[1])]
        if isinstance(node, ast.Call) and not node.args and len(node.keywords) == 1 and node.keywords[0].arg == 'length':
            return ['call', tyexpr(node.func), cps(seg(node.keywords[0].value))]
        return ['unknown', cps(seg(node))]

    def hint(node):
        depth = 0
        while isinstance(node, ast.Subscript) and isinstance(node.value, ast.Name) and node.value.id == 'list':
            depth += 1
            node = node.slice
        return cps(seg(node)), depth

    def fields_of(body):
        fields, hints = [], {}
        order = []
        for st in body:
            if isinstance(st, ast.Assign) and len(st.targets) == 1 and isinstance(st.targets[0], ast.Name) \
                    and st.targets[0].id == 'Fields' and isinstance(st.value, ast.List):
                for call in st.value.elts:
                    name = call.args[0].value
                    dflt = 'none'
                    for kw in call.keywords:
                        if kw.arg == 'default_value':
                            dflt = lit(kw.value)
                    fields.append([name, tyexpr(call.args[1]), dflt])
            elif isinstance(st, ast.AnnAssign) and isinstance(st.target, ast.Name):
                order.append(st.target.id)
                hints[st.target.id] = hint(st.annotation)
        out = []
        for i, (name, ty, dflt) in enumerate(fields):
            hb, hd = hints.get(name, ([], 0)) if i < len(order) and order[i] == name else ([], 0)
            out.append(['fd', cps(name), ty, dflt, hb, hd])
        return out

    exports, enums, records, messages = [], [], [], []
    for st in tree.body:
        if isinstance(st, ast.Assign) and isinstance(st.targets[0], ast.Name) and st.targets[0].id == '__all__':
            exports = [cps(e.value) for e in st.value.elts]
        if not isinstance(st, ast.ClassDef):
            continue
        if any(isinstance(b, ast.Attribute) for b in st.bases):
            continue                                            # the template's own Message / ClientSession
        kws = {k.arg: k.value for k in st.keywords}
        if 'indicator' in kws:
            inner = [b for b in st.body if isinstance(b, ast.ClassDef) and b.name == 'BodyRecord']
            body = (inner[0].body if inner else []) + [b for b in st.body if isinstance(b, ast.AnnAssign)]
            direction = seg(kws['direction']) if 'direction' in kws else "''"
            messages.append(['msg', cps(st.name), cps(seg(kws['indicator'])), cps(direction[1:-1]), fields_of(body)])
        elif len(st.bases) == 1 and isinstance(st.bases[0], ast.Name) and st.bases[0].id == 'Enum':
            enums.append(['enum', cps(st.name), [[cps(b.targets[0].id), lit(b.value)] for b in st.body
                                                 if isinstance(b, ast.Assign)]])
        else:
            base = st.bases[0].id if st.bases and isinstance(st.bases[0], ast.Name) else '?'
            records.append(['rec', cps(st.name), cps(base), fields_of(st.body)])
    return {'module': sx(['module', ['exports'] + exports, ['enums'] + enums, ['records'] + records, ['messages'] + messages])}


def introspect(mod, impl):
    """the imported module -> canonical schema (same shape as the model's `Schema`)"""
    import enum
    import inspect
    from nasdaq_protocols.common.message import structures, types as mtypes
    from nasdaq_protocols.common.types import TypeDefinition
    by_cls = {}
    for tid, cls in TypeDefinition.Definitions.items():
        by_cls[id(cls)] = tid

    def ty(t):
        if inspect.isclass(t):
            if id(t) in by_cls:
                tid = by_cls[id(t)]
                if tid in FIXED_IDS:
                    return ['fixedcls', 'iso' if tid == 'str_iso-8859-1_n' else 'ascii']
                return ['prim', cps(tid)]
            if issubclass(t, structures.Record) and t.__module__ == mod.__name__:
                return ['record', cps(t.__name__)]
            return 'other'
        if isinstance(t, mtypes.FixedAsciiString):
            return ['fixed', 'ascii', 'none' if t.length is None else t.length]
        if isinstance(t, mtypes.FixedIsoString):
            return ['fixed', 'iso', 'none' if t.length is None else t.length]
        if isinstance(t, structures.Array):
            return ['array', ty(t.type), ty(t.length_type)]
        return 'other'

    def dval(v):
        if v is None:
            return 'none'
        if isinstance(v, bool):
            return ['bool', v]
        if isinstance(v, int):
            return ['int', v]
        if isinstance(v, str):
            return ['str', cps(v)]
        return ['other', type(v).__name__]

    def fields(cls):
        return [['f', cps(f.name), ty(f.type), dval(f.default_value)] for f in cls.Fields]

    enums, records, messages = [], [], []
    for name, obj in vars(mod).items():
        if not inspect.isclass(obj) or obj.__module__ != mod.__name__ or name in ('Message', 'ClientSession'):
            continue
        if issubclass(obj, enum.Enum):
            enums.append(['enum', cps(name), [[cps(k), dval(v.value)] for k, v in obj.__members__.items()]])
        elif issubclass(obj, mod.Message):
            mid = obj.MsgId
            d = getattr(mid, 'direction', None)
            messages.append(['msg', cps(name), mid.indicator, 'none' if impl == 'itch' or d is None else cps(d), fields(obj.BodyRecord)])
        elif issubclass(obj, structures.Record):
            records.append(['rec', cps(name), fields(obj)])
    registered = [c.__name__ for c in mod.Message.get_msg_classes()]
    return {'schema': sx(['schema', ['exports'] + [cps(n) for n in mod.__all__], ['enums'] + enums, ['records'] + records,
                          ['messages'] + messages]),
            'registered': registered}


def run_values(mod, impl, vs, err_name):
    """build message `vs['msg']` through the generated classes from transported values; encode; decode"""
    import enum
    out = {'msg': vs['msg']}

    def build(t):
        if isinstance(t, dict) and '__rec__' in t:
            r = getattr(mod, t['__rec__'])()
            for k, v in t['fields'].items():
                setattr(r, k, build(v))
            return r
        if isinstance(t, dict) and '__enum__' in t:
            return getattr(getattr(mod, t['__enum__']), t['member'])
        if isinstance(t, list):
            return [build(e) for e in t]
        return t

    def dump(v):
        if isinstance(v, enum.Enum):
            return {'__enum_member__': str(v)}
        if hasattr(v, 'Fields') and hasattr(v, 'values'):
            return {f.name: dump(getattr(v, f.name)) for f in type(v).Fields}
        if isinstance(v, list):
            return [dump(e) for e in v]
        if isinstance(v, (int, str, bool)) or v is None:
            return v
        return {'__other__': repr(v)[:80]}

    try:
        cls = getattr(mod, vs['msg'])
        m = cls()
        for k, v in vs['fields'].items():
            setattr(m, k, build(v))
        out['readback'] = {f.name: dump(getattr(m, f.name)) for f in cls.BodyRecord.Fields if f.name in vs['fields']}
        n, b = m.to_bytes()
        out['enc'] = ['ok', n, bytes(b).hex()]
    except Exception as e:   # noqa
        out['enc'] = ['err', err_name(e), f'{type(e).__name__}: {e}'[:200]]
        return out
    try:
        if vs.get('app_decode', True):
            n2, m2 = mod.Message.from_bytes(bytes(b) + bytes.fromhex(vs.get('tail', '')))
        else:   # OUCH client decoders only look up 'outgoing' ids (C19): decode the body with the class itself
            n2, rec = cls.BodyRecord.from_bytes(bytes(b)[1:] + bytes.fromhex(vs.get('tail', '')))
            n2, m2 = n2 + 1, cls(rec)
        out['dec'] = ['ok', n2, type(m2).__name__, {f.name: dump(getattr(m2, f.name)) for f in type(m2).BodyRecord.Fields}]
        n3, b3 = m2.to_bytes()
        out['reenc'] = bytes(b3).hex()
    except Exception as e:   # noqa
        out['dec'] = ['err', err_name(e), f'{type(e).__name__}: {e}'[:200]]
    return out


# ------------------------------------------------------------------------------------------------ parent side
def run_worker(repo, cases, timeout=600):
    p = subprocess.run([PY, '-W', 'ignore', HERE, '--worker'], input=json.dumps({'repo': repo, 'cases': cases}),
                       capture_output=True, text=True, timeout=timeout)
    if p.returncode != 0 or not p.stdout.strip():
        raise RuntimeError(f'C15 worker failed rc={p.returncode}: {p.stderr[-2000:]}')
    return json.loads(p.stdout)


def readable(text):
    """decode code point lists inside an s-expression for messages"""
    from common import parse_sx

    def conv(t):
        if isinstance(t, list):
            if t and all(isinstance(x, str) and x.isdigit() for x in t) and not (len(t) == 1 and False):
                try:
                    return '"' + ''.join(chr(int(x)) for x in t) + '"'
                except ValueError:
                    pass
            return '(' + ' '.join(conv(x) for x in t) + ')'
        return t
    try:
        return ' '.join(conv(t) for t in parse_sx(text))
    except Exception:   # noqa
        return text


def first_diff(a, b):
    ra, rb = readable(a), readable(b)
    i = 0
    while i < min(len(ra), len(rb)) and ra[i] == rb[i]:
        i += 1
    return f'…{ra[max(0, i - 60):i + 80]}  ≠  …{rb[max(0, i - 60):i + 80]}'


def report(ctx, what, replay):
    """oracle failure.  Known local findings are reported as KNOWN-FINDING until the coordinator registers them."""
    from common import load_known, matches_known
    if isinstance(ctx, _Probe):
        ctx.dirty = True
        known = any(matches_known(k, replay) for k in load_known(ctx.prop)) or \
            any(all(replay.get(a) == b for a, b in sig.items()) for sig in KNOWN_LOCAL)
        if not known:
            ctx.unknown.append(what)
        return
    if not any(matches_known(k, replay) for k in load_known(ctx.prop)):
        for sig in KNOWN_LOCAL:
            if all(replay.get(a) == b for a, b in sig.items()):
                fid = 'C15-' + sig['kind']
                if fid not in [x[0] for x in ctx.known_hits]:
                    ctx.known_hits.append((fid, what))
                return
    ctx.violation(what, replay)



# ------------------------------------------------------------------------------------------------ known-defect diagnosis
def _html_escape(s):
    s = s.replace('&', '&amp;')
    for a, b in (('"', '&quot;'), ('<', '&lt;'), ('>', '&gt;')):
        s = s.replace(a, b)
    return s


def _escape_consts(canon, enums, defaults):
    """the reference schema with the text constants of enums / defaults HTML-escaped"""
    esc = lambda d: ['str', cps(_html_escape(''.join(chr(c) for c in d[1])))] if isinstance(d, list) and d[0] == 'str' else d
    fld = lambda f: [f[0], f[1], f[2], esc(f[3]) if defaults else f[3]]
    out = list(canon)
    out[2] = ['enums'] + [[e[0], e[1], [[k, esc(v) if enums else v] for k, v in e[2]]] for e in canon[2][1:]]
    out[3] = ['records'] + [[r[0], r[1], [fld(f) for f in r[2]]] for r in canon[3][1:]]
    out[4] = ['messages'] + [[m[0], m[1], m[2], m[3], [fld(f) for f in m[4]]] for m in canon[4][1:]]
    return out


def _text_consts(rich):
    for e in rich['enums'].values():
        for _k, v in e['members']:
            if v[0] == 'str':
                yield ''.join(chr(c) for c in v[1])
    for fs in list(rich['records'].values()) + [m['fields'] for m in rich['messages']]:
        for f in fs:
            if f['default'] != 'none' and f['default'][0] == 'str':
                yield ''.join(chr(c) for c in f['default'][1])


def diagnose(case, res):
    """the narrow signature of a known defect, when the observed failure is exactly that defect; else None"""
    _ref_sx, rich, canon = case.ref
    all_fields = [f for fs in list(rich['records'].values()) + [m['fields'] for m in rich['messages']] for f in fs]
    if res['gen'] == 'ok' and res['imp'] != 'ok':
        detail = res.get('imp_detail') or ''
        if "'Array' object is not callable" in detail and any(f['ty'][0] == 'array' and f['ty'][1][0] == 'fixed' for f in all_fields):
            return 'array-of-fixed-string'
        if detail.startswith('SyntaxError') and any(("'" in t or '\\' in t) for t in _text_consts(rich)):
            return 'unescaped-quote-in-literal'
        return None
    if res['gen'] == 'ok' and res['imp'] == 'ok' and any(c in t for t in _text_consts(rich) for c in ESCAPED):
        got = res['schema']['schema']
        if got == sx(_escape_consts(canon, False, True)):
            return 'html-escaped-default-value'
        if got == sx(_escape_consts(canon, True, False)) or got == sx(_escape_consts(canon, True, True)):
            return 'html-escaped-enum-value'
    return None


class Case:
    def __init__(self, cid, cls, impl, spec, override=True, kind=None):
        self.id, self.cls, self.impl, self.spec, self.override, self.kind = cid, cls, impl, spec, override, kind
        self.app = f'a{cid}'
        self.prefix, self.init_file = '', False
        self.xml = spec_xml(spec)
        self.ref = None            # (canonical sexp text, rich) or RefError text
        self.values = []           # [(msg dict, plain, transport, app_decode)]

    def job(self):
        return {'id': self.id, 'impl': self.impl, 'app': self.app, 'override': self.override, 'xml': self.xml,
                'prefix': self.prefix, 'init_file': self.init_file,
                'values': [{'msg': m['name'], 'fields': tr, 'app_decode': ad, 'tail': tail} for m, _p, tr, ad, tail in self.values]}

    def replay_dict(self, kind=None, **extra):
        d = {'kind': kind or 'spec', 'shape': self.kind, 'class': self.cls, 'impl': self.impl, 'override': self.override,
             'spec': self.spec, 'xml': self.xml}
        d.update(extra)
        return d


def prepare(case, rng, n_values):
    """reference schema from the XML, and value sets for the oracle (well-formed and known-defect specs)"""
    try:
        canon, rich = ref_schema_from_xml(case.xml, case.impl)
        case.ref = (sx(canon), rich, canon)
    except RefError as e:
        case.ref = str(e)
        return
    if case.cls == 'malformed':
        return
    for m in rich['messages']:
        for i in range(n_values):
            # the first value set leaves EVERY field that declares a default unset
            plain, tr = gen_message_values(rng, rich, m, 1.0 if i == 0 else 0.5)
            app_decode = not (case.impl == 'ouch' and m['direction'] != 'outgoing')
            tail = rng.randbytes(rng.choice([0, 0, 1, 5])).hex()
            case.values.append((m, plain, tr, app_decode, tail))


def model_requests(case):
    s = sx(spec_sx(case.spec))
    a = sx(cps(case.app))
    o = 'true' if case.override else 'false'
    return [f'gen.code {case.impl} {a} {o} {s}', f'gen.eval {case.impl} {a} {o} {s}', f'gen.denote {case.impl} {s}',
            f'gen.wf {case.impl} {s}']


def judge(ctx, case, res, model):
    """correspondence and oracle for one case.  Returns True when nothing was reported."""
    clean = True
    if 'crash' in res:
        raise RuntimeError('C15 worker crashed on a case: ' + res['crash'])
    m_code, m_eval, m_denote, m_wf = model if model else (None, None, None, None)
    # ---------------- what the implementation did, in the model's vocabulary
    if res['gen'] != 'ok':
        impl_eval = 'err gen ' + res['gen'][4:]
    elif res['imp'] != 'ok':
        impl_eval = 'err import ' + res['imp'][4:]
    else:
        impl_eval = 'ok ' + res['schema']['schema']
    if res.get('init_ok') is False:
        ctx.count('init-file-not-the-single-import-line')
    ctx.count(f'{case.cls}:{case.kind or "wf"}:{" ".join(impl_eval.split()[:3]) if impl_eval.startswith("err") else "ok"}')
    # ---------------- correspondence
    if model:
        if res['gen'] == 'ok' and 'module' in (res['code'] or {}):
            if m_code != 'ok ' + res['code']['module']:
                clean = False
                ctx.disagree('generated code differs from the model\'s gen: ' + first_diff(m_code, 'ok ' + res['code']['module']),
                             case.replay_dict(what='gen.code'))
        elif res['gen'] != 'ok' and m_code != 'err ' + res['gen'][4:]:
            clean = False
            ctx.disagree(f'generator outcome: model {readable(m_code)[:120]} vs implementation {res["gen"]} ({res.get("gen_detail")})',
                         case.replay_dict(what='gen.code'))
        if m_eval != impl_eval:
            clean = False
            ctx.disagree('import of the generated module: model vs implementation: ' + first_diff(m_eval, impl_eval)
                         + f' ({res.get("gen_detail") or res.get("imp_detail") or ""})', case.replay_dict(what='gen.eval'))
        if isinstance(case.ref, tuple):
            if m_denote != 'ok ' + case.ref[0]:
                clean = False
                ctx.disagree('Lean denote differs from the Python reference schema: ' + first_diff(m_denote, 'ok ' + case.ref[0]),
                             case.replay_dict(what='gen.denote'))
        if case.cls == 'wf' and m_wf != 'true':
            clean = False
            ctx.disagree('the spec generator produced a specification outside the model\'s wfSpec', case.replay_dict(what='gen.wf'))
        if case.cls == 'known' and m_wf != 'false':
            clean = False
            ctx.disagree(f'a {case.cls} specification ({case.kind}) is inside the model\'s wfSpec', case.replay_dict(what='gen.wf'))
    if case.cls == 'malformed':
        return clean
    # ---------------- oracle: the property statement on the implementation (specs inside the quantifier + known-defect shapes)
    if not isinstance(case.ref, tuple):
        raise RuntimeError(f'C15 harness: reference semantics rejected a {case.cls} spec: {case.ref}')
    ref_sx, rich, canon = case.ref
    if res['gen'] != 'ok':
        report(ctx, f'the generator failed on a valid specification: {res.get("gen_detail")}', case.replay_dict())
        return False
    if res['imp'] != 'ok':
        report(ctx, f'the generated module does not import: {res.get("imp_detail")}', case.replay_dict(kind=diagnose(case, res)))
        return False
    if res['schema']['schema'] != ref_sx:
        # the classes differ; when one of the value sets already shows it on the wire, the replay carries that message as well
        extra, more = {}, ''
        for (msg, plain, tr, _ad, _tail), got in zip(case.values, res['values']):
            expected = ref_encode_message(rich, msg, plain)
            if got['enc'][0] == 'ok' and bytes.fromhex(got['enc'][2]) != expected:
                unset = [f['name'] for f in msg['fields'] if f['name'] not in tr]
                extra = {'message': msg['name'], 'values': tr}
                more = (f'; e.g. {msg["name"]} built with {json.dumps(tr)[:200]} (unset: {unset}) encodes as {got["enc"][2]}, '
                        f'the reference codec of the XML gives {expected.hex()}')
                break
        notes = def_ref_notes(case, res['schema']['schema'])
        if notes:
            extra['def_references'] = notes[:6]
            more = '; a field declared by reference has not the type of the definition it names: ' + notes[0] + more
        report(ctx, 'generated classes differ from the specification: ' + first_diff(res['schema']['schema'], ref_sx) + more,
               case.replay_dict(kind=diagnose(case, res), **extra))
        return False
    if sorted(res['schema']['registered']) != sorted(m['name'] for m in rich['messages']):
        report(ctx, f'registered message classes {res["schema"]["registered"]} differ from the specification', case.replay_dict())
        return False
    for (msg, plain, tr, app_decode, tail), got in zip(case.values, res['values']):
        rd = lambda **kw: case.replay_dict(message=msg['name'], values=tr, **kw)
        kind = None
        expected = ref_encode_message(rich, msg, plain)
        full = full_values(rich, msg, plain)
        if got['enc'][0] != 'ok':
            report(ctx, f'{msg["name"]}: building/encoding through the generated class raised {got["enc"][2]}', rd(kind=kind))
            clean = False
            continue
        if got['readback'] != {k: v for k, v in _enum_to_value(plain, tr).items()}:
            report(ctx, f'{msg["name"]}: values read back differ from the values assigned: {got["readback"]} vs {plain}', rd())
            clean = False
        if bytes.fromhex(got['enc'][2]) != expected or got['enc'][1] != len(expected):
            report(ctx, f'{msg["name"]}: bytes differ from the reference codec: {got["enc"][2]} (len {got["enc"][1]}) vs {expected.hex()}', rd())
            clean = False
            continue
        o, back = 1, {}
        for f in msg['fields']:
            o, back[f['name']] = ref_decode_value(rich, f['ty'], expected, o)
        if o != len(expected) or back != full:
            raise RuntimeError(f'C15 harness: reference codec does not round trip: {back} vs {full}')
        if got['dec'][0] != 'ok':
            report(ctx, f'{msg["name"]}: decoding its own encoding raised {got["dec"][2]}', rd())
            clean = False
            continue
        _, n2, cname, vals = got['dec']
        if cname != msg['name'] or n2 != len(expected) or vals != full:
            report(ctx, f'{msg["name"]}: decoded {cname} consumed {n2}/{len(expected)}: {vals} vs {full}', rd())
            clean = False
        elif got.get('reenc') != expected.hex():
            report(ctx, f'{msg["name"]}: re-encoding the decoded message gives other bytes', rd())
            clean = False
    return clean


def def_ref_notes(case, got_text):
    """oracle detail, implementation against the XML only: for every field a record / message declares by `def=`, the (type,
    default) the generated class gives it against the (type, default) of the definition of that name in `fielddef-root`"""
    from common import parse_sx
    _ref_sx, _rich, canon = case.ref
    txt = lambda l: ''.join(chr(int(c)) for c in l)
    try:
        got = parse_sx(got_text)[0]
        have, want = {}, {}
        for table, schema in ((have, got), (want, canon)):
            for idx in (3, 4):
                for cls in schema[idx][1:]:
                    table[(idx, txt(cls[1]))] = {txt(f[1]): (sx(f[2]), sx(f[3])) for f in cls[-1]}
    except Exception:   # noqa  — an unexpected shape of the introspection result: the plain schema difference is reported
        return []
    notes = []
    for idx, sec in ((3, 'records'), (4, 'messages')):
        for cont in case.spec[sec]:
            for pos, f in enumerate(cont['fields']):
                if not f.get('def'):
                    continue
                name = f['name'] or f['def']
                w, h = want.get((idx, cont['name']), {}).get(name), have.get((idx, cont['name']), {}).get(name)
                if w is not None and h is not None and w != h:
                    notes.append(f'{sec[:-1]} {cont["name"]}, element {pos} {field_xml(f)}: the definition {f["def"]!r} declares '
                                 f'{readable(w[0])} default {readable(w[1])}, the generated class has {readable(h[0])} default '
                                 f'{readable(h[1])}')
    return notes


def _enum_to_value(plain, tr):
    """what reading a field back must give: enum members were assigned, their underlying values are stored"""
    return {k: plain[k] for k in tr}


def run_cases(ctx, cases, batch=24, workers=8):
    """run all cases (batched worker subprocesses + one model batch), judge them; suspicious ones are re-run alone"""
    from common import REPO
    lines = []
    for c in cases:
        lines += model_requests(c)
    model = None
    if ctx.driver is not None and ctx.driver.available:
        ans = ctx.driver.ask(lines)
        model = {c.id: ans[4 * i:4 * i + 4] for i, c in enumerate(cases)}
    batches = [cases[i:i + batch] for i in range(0, len(cases), batch)]
    with ThreadPoolExecutor(max_workers=workers) as ex:
        results = list(ex.map(lambda b: run_worker(REPO, [c.job() for c in b]), batches))
    by_id = {r['id']: r for rs in results for r in rs}
    for c in cases:
        probe = _Probe(ctx)
        judge(probe, c, by_id[c.id], model[c.id] if model else None)
        if probe.dirty and (len(ctx.violations) >= 20 or len(ctx.disagreements) >= 20):
            ctx.count('unconfirmed-after-20-reports')       # enough failing inputs already; keep the run inside its time budget
        elif probe.dirty:
            # confirm alone in a fresh process before reporting
            r1 = run_worker(REPO, [c.job()])[0]
            probe = _Probe(ctx)
            judge(probe, c, r1, model[c.id] if model else None)
            if probe.unknown and c.cls == 'wf' and getattr(ctx, 'shrinks_left', 2) > 0:
                ctx.shrinks_left = getattr(ctx, 'shrinks_left', 2) - 1
                c2 = shrink(ctx, c, stage_of(probe.unknown[0]))
                r2 = run_worker(REPO, [c2.job()])[0]
                m2 = ctx.driver.ask(model_requests(c2)) if model else None
                judge(ctx, c2, r2, m2)
            else:
                judge(ctx, c, r1, model[c.id] if model else None)
        else:
            probe.flush_counts()


def stage_of(what):
    """coarse class of an oracle failure, kept fixed while shrinking"""
    for key in ('the generator failed', 'does not import', 'generated classes differ', 'registered message classes',
                'building/encoding', 'values read back', 'bytes differ', 'decoding its own', 'decoded ', 're-encoding'):
        if key in what:
            return key
    return what[:30]


def shrink(ctx, case, stage, budget=45):
    """greedy minimisation of a failing well-formed specification: drop messages, records, enums, field definitions, fields and
    attributes while the reference semantics still accepts the specification and the same kind of failure is observed"""
    import copy
    import random
    from common import REPO
    runs = [0]

    def fails(spec):
        if runs[0] >= budget:
            return None
        c = Case(case.id + 's', 'wf', case.impl, spec, case.override)
        prepare(c, random.Random(1), 4)
        if not isinstance(c.ref, tuple):
            return None
        runs[0] += 1
        r = run_worker(REPO, [c.job()])[0]
        probe = _Probe(ctx)
        try:
            judge(probe, c, r, None)
        except RuntimeError:
            return None
        return c if any(stage_of(w) == stage for w in probe.unknown) else None

    best = fails(case.spec) or case
    spec = best.spec
    changed = True
    while changed and runs[0] < budget:
        changed = False
        cands = []
        for sec in ('messages', 'records', 'enums', 'fielddefs'):
            for i in range(len(spec[sec])):
                if sec == 'messages' and len(spec[sec]) == 1:
                    continue
                s2 = copy.deepcopy(spec)
                del s2[sec][i]
                cands.append(s2)
        for i, en in enumerate(spec['enums']):
            for j in range(len(en['values'])):
                if len(en['values']) > 1:
                    s2 = copy.deepcopy(spec)
                    del s2['enums'][i]['values'][j]
                    cands.append(s2)
        for sec in ('messages', 'records'):
            for i, cont in enumerate(spec[sec]):
                for j in range(len(cont['fields'])):
                    if len(cont['fields']) > 1:
                        s2 = copy.deepcopy(spec)
                        del s2[sec][i]['fields'][j]
                        cands.append(s2)
                    for attr in ('default', 'array', 'endian'):
                        if cont['fields'][j].get(attr) is not None:
                            s2 = copy.deepcopy(spec)
                            s2[sec][i]['fields'][j][attr] = None
                            cands.append(s2)
                    if cont['fields'][j].get('def'):           # write the referenced definition out in place
                        base = [d for d in spec['fielddefs'] if d['name'] == cont['fields'][j]['def']]
                        if base:
                            s2 = copy.deepcopy(spec)
                            s2[sec][i]['fields'][j] = dict(copy.deepcopy(base[0]), name=cont['fields'][j]['name'] or base[0]['name'])
                            cands.append(s2)
        for s2 in cands:
            c = fails(s2)
            if c is not None:
                best, spec, changed = c, s2, True
                break
    return best


class _Probe:
    """a recording stand-in for ctx used for the batched first pass"""

    def __init__(self, ctx):
        self.ctx, self.dirty, self.counts = ctx, False, []
        self.prop, self.known_hits, self.unknown = ctx.prop, [], []

    def count(self, key, n=1):
        self.counts.append((key, n))

    def violation(self, what, replay):
        self.dirty = True

    def disagree(self, what, replay):
        self.dirty = True

    def flush_counts(self):
        for k, n in self.counts:
            self.ctx.count(k, n)

    def __getattr__(self, item):
        return getattr(self.ctx, item)


def load_tables(ctx):
    """the model's tables (datatype ids -> class names / hints, reserved names) against the live library"""
    from common import parse_sx
    global RESERVED_CLASS, FIELD_RESERVED
    txt = lambda l: ''.join(chr(int(c)) for c in l)
    fallback_reserved = {'Array', 'AsciiString', 'Awaitable', 'Boolean', 'Byte', 'Callable', 'CharAscii', 'CharIso8599',
                         'ClientSession', 'CommonMessage', 'Definitions', 'DuplicateMessageException', 'Enum', 'EnumDef', 'EnumVal',
                         'Field', 'FieldDef', 'FixedAsciiString', 'FixedIsoString', 'Generator', 'Int', 'IntBE', 'Iso8859String',
                         'Long', 'LongBE', 'Message', 'MessageDef', 'Parser', 'Record', 'RecordDef', 'RecordWithPresentBit', 'Short',
                         'ShortBE', 'Type', 'UnsignedInt', 'UnsignedIntBE', 'UnsignedLong', 'UnsignedLongBE', 'UnsignedShort',
                         'UnsignedShortBE', 'codegen', 'connect_async', 'logable', 'parser', 'soup', 'structures', 'templates',
                         'types', 'itch', 'ouch', 'sqf', 'int', 'str', 'bool', 'list', 'super', 'ValueError', 'tuple', 'bytes',
                         'classmethod'}
    fallback_fields = {'record', 'values', 'Fields', 'IndexedFields', 'log', 'MsgId', 'MsgIdClass', 'AppName', 'BodyRecord',
                       'MsgIdToClsMap', 'MsgNameToMsgMap', 'Definitions', 'IncomingMsgClasses', 'OutgoingMsgsClasses', 'to_bytes',
                       'from_bytes', 'to_str', 'from_str', 'hint', 'type_cls', 'default_value', 'init_values', 'as_collection',
                       'get_field_value', 'get_value', 'is_record', 'get_msg_classes', 'get_msg_cls_by_name',
                       'get_msg_cls_by_indicator'}
    RESERVED_CLASS, FIELD_RESERVED = set(fallback_reserved), set(fallback_fields)
    if not (ctx.driver is not None and ctx.driver.available):
        return
    t = parse_sx(ctx.driver.ask(['gen.table'])[0])[0]
    tab = {sec[0]: sec[1:] for sec in t[1:]}
    from nasdaq_protocols.common.types import TypeDefinition
    import nasdaq_protocols.common.message  # noqa: F401  (registers the datatypes)
    live = sorted((tid, cls.__name__, cls.hint) for tid, cls in TypeDefinition.Definitions.items())
    model = sorted((txt(a), txt(b), txt(c)) for a, b, c in tab['types'])
    if live != model:
        ctx.disagree(f'datatype table: model {model} vs TypeDefinition.Definitions {live}', {'kind': 'table', 'what': 'gen.table'})
    if sorted(k for k, _c, _h in model) != sorted(DOC_TYPES):
        ctx.disagree('datatype ids of the model differ from the documented ids', {'kind': 'table', 'what': 'gen.table'})
    RESERVED_CLASS = set()
    for impl in IMPLS:
        RESERVED_CLASS |= {txt(n) for n in tab['reserved-' + impl]}
    FIELD_RESERVED = {txt(n) for n in tab['field-reserved']}
    ctx.model_reserved = {impl: {txt(n) for n in tab['reserved-' + impl]} - {txt(n) for n in tab['builtins']} for impl in IMPLS}


def check_namespace(ctx):
    """the names the template binds before the first generated class statement (the model's initial namespace), observed on
    the module generated from an empty specification"""
    from common import REPO
    if not hasattr(ctx, 'model_reserved'):
        return
    empty = {'enums': [], 'fielddefs': [], 'records': [], 'messages': []}
    jobs = [dict(Case(f'ns{impl}', 'namespace', impl, empty).job(), want_namespace=True) for impl in IMPLS]
    for impl, r in zip(IMPLS, run_worker(REPO, jobs)):
        live = set(r.get('namespace') or [])
        missing = ctx.model_reserved[impl] - live
        if r.get('imp') != 'ok' or missing:
            ctx.disagree(f'{impl}: names the model takes as bound by the template are not in the generated module: {sorted(missing)} '
                         f'({r.get("gen_detail") or r.get("imp_detail")})', {'kind': 'table', 'what': 'namespace', 'impl': impl})
        elif live - ctx.model_reserved[impl]:
            # harmless for the theorem (a specification may shadow a name the generated code never uses); the spec generator avoids them
            ctx.notes.append(f'{impl}: module namespace has names unknown to the model: {sorted(live - ctx.model_reserved[impl])}')
            RESERVED_CLASS.update(live)


def sexp_to_spec(t):
    """the driver's (spec …) term -> spec dict"""
    txt = lambda l: ''.join(chr(int(c)) for c in l)
    opt = lambda x: None if x == 'none' else txt(x)

    def fld(f):
        return dict(zip(('name', 'def', 'type', 'ref', 'array', 'length', 'default', 'endian'), [opt(x) for x in f[1:]]))
    return {'enums': [{'name': txt(e[1]), 'type': opt(e[2]), 'values': [{'name': txt(k), 'value': txt(v)} for k, v in e[3]]}
                      for e in t[1]],
            'fielddefs': [fld(f) for f in t[2]],
            'records': [{'name': txt(r[1]), 'fields': [fld(f) for f in r[2]]} for r in t[3]],
            'messages': [{'name': txt(m[1]), 'msgid': txt(m[2]), 'group': opt(m[3]), 'direction': opt(m[4]),
                          'fields': [fld(f) for f in m[5]]} for m in t[4]]}


def lean_witnesses(ctx):
    """the specifications of Witness/C15.lean, printed by the driver from the Lean definitions themselves"""
    from common import parse_sx
    if not (ctx.driver is not None and ctx.driver.available):
        return []
    t = parse_sx(ctx.driver.ask(['witness C15'])[0])[0]
    return [(kind, impl, sexp_to_spec(spec)) for kind, impl, spec in t]


def run(ctx):
    rng = ctx.rng
    quick = ctx.tier == 'quick'
    n_wf = 260 if quick else 12000
    n_mal = 3 if quick else 30                 # per malformed kind
    n_known = 4 if quick else 40               # per known-defect shape
    n_enum = 60 if quick else 2500             # enum-typed fields with declared defaults over overlapping member names / values
    n_shadow = 120 if quick else 4000          # def-references renamed to names that already mean something, referenced before/after
    n_values = 3 if quick else 6
    ctx.cov['rule'] = ('grammar-based XML specifications (itch/ouch/sqf; enums of every integer/char datatype; reusable field '
                       'definitions referenced with and without rename; records in records, messages and arrays; every documented '
                       'datatype id; fixed-length strings; arrays with big/little/absent endian; defaults; numeric and character '
                       'message ids; character enums whose member names overlap their values — swap, permutation, a member named '
                       'like its own / another member\'s value — with defaults on enum-typed fields declared inline, through a '
                       'field definition, renamed, in records and messages, the default text drawn from the values AND the '
                       'one-character names; every message encoded once with all defaulted fields unset, records with unset '
                       'fields; def-references whose new name is the name of ANOTHER field definition of different meaning / of a '
                       'record / of an enum, with references to the definition of that name before and after the renaming '
                       'element, in the same and in other records and messages) -> real generate entry point -> ast of the generated file + import + introspection, compared '
                       'with gen / evalModule of the Lean model and with a reference schema and codec written from the XML '
                       'documentation; distinct = distinct (impl, spec); malformed and known-defect shapes are compared with the '
                       'model only / reported as known findings')
    load_tables(ctx)
    check_namespace(ctx)
    cases = []
    # ---- corpus first
    from common import VERIF
    cdir = os.path.join(VERIF, 'corpus', 'C15')
    if os.path.isdir(cdir):
        for i, f in enumerate(sorted(os.listdir(cdir))):
            r = json.load(open(os.path.join(cdir, f)))
            cases.append(Case(f'c{i}', r.get('class', 'wf'), r['impl'], r['spec'], r.get('override', True), r.get('kind_hint')))
    for i, (kind, impl, spec) in enumerate(lean_witnesses(ctx)):
        cases.append(Case(f'lw{i}', 'wf', impl, spec, kind=kind))
        ctx.count('lean-witness:' + kind)
    k = 0
    for _ in range(n_wf):
        impl, spec = gen_wf_spec(rng, ctx.tier)
        c = Case(f'w{k}', 'wf', impl, spec)
        c.prefix, c.init_file = rng.choice(['', '', 'pfx']), rng.random() < 0.3
        cases.append(c)
        k += 1
    for _ in range(n_enum):
        impl, spec = gen_enum_default_spec(rng, ctx.tier)
        cases.append(Case(f'e{k}', 'wf', impl, spec, kind='enum-defaults'))
        k += 1
    for _ in range(n_shadow):
        impl, spec = gen_def_shadow_spec(rng, ctx.tier)
        cases.append(Case(f's{k}', 'wf', impl, spec, kind='def-shadow'))
        k += 1
    for kind in FORMER_DEFECTS:                 # the shapes of the repaired defects, as ordinary well-formed input
        for _ in range(n_known):
            impl, spec = gen_known_spec(rng, ctx.tier, kind)
            cases.append(Case(f'k{k}', 'wf', impl, spec, kind=kind))
            k += 1
    for kind in MALFORMED_KINDS:
        for _ in range(n_mal):
            impl, spec, ovr = gen_malformed_spec(rng, ctx.tier, kind)
            cases.append(Case(f'm{k}', 'malformed', impl, spec, override=ovr, kind=kind))
            k += 1
    for c in cases:
        prepare(c, rng, n_values)
        ctx.case((c.impl, c.override, json.dumps(c.spec, sort_keys=True)), nontrivial=True, sample_every=0)
        for m in c.spec['messages']:
            for f in m['fields']:
                ctx.count('field:' + ('def' if f['def'] else (f['type'] or 'none').split(':')[0])
                          + (':array' if f['array'] else '') + (':default' if f['default'] is not None else ''))
        if c.cls == 'wf':
            for key in enum_default_stats(c.spec):
                ctx.count(key)
            for key in def_ref_stats(c.spec):
                ctx.count(key)
    ctx.cov['samples'] = [c.xml[:1500] for c in cases[:3]]
    run_cases(ctx, cases, workers=min(8, os.cpu_count() or 2))
    ctx.notes.append('XML parsing (ElementTree) and text rendering (chevron) are exercised on the implementation side only; the model '
                     'starts from the element tree and ends at the ast of the generated file')
    ctx.notes.append('OUCH incoming messages are decoded through their own class (the application decoder only resolves outgoing ids, C19)')


def replay(ctx, path):
    r = json.load(open(path))
    rep = r.get('replay') or (r.get('no_longer_checks') or [{}])[-1].get('case') or r
    ctx.cov['rule'] = 'replay of ' + path
    load_tables(ctx)
    c = Case('r0', rep.get('class', 'wf'), rep['impl'], rep['spec'], rep.get('override', True),
             rep.get('kind') if rep.get('kind') not in (None, 'spec') else None)
    prepare(c, ctx.rng, 4)
    if rep.get('values') is not None and isinstance(c.ref, tuple):
        rich = c.ref[1]
        msg = [m for m in rich['messages'] if m['name'] == rep['message']][0]
        plain = {k: _plain_of(v, rich) for k, v in rep['values'].items()}
        c.values.insert(0, (msg, plain, rep['values'], not (c.impl == 'ouch' and msg['direction'] != 'outgoing'), ''))
    ctx.case('replay ' + path)
    ctx.case('replay-marker')
    from common import REPO
    res = run_worker(REPO, [c.job()])[0]
    model = ctx.driver.ask(model_requests(c)) if ctx.driver.available else None
    print('generator:', res['gen'], res.get('gen_detail', ''))
    print('import:', res['imp'], res.get('imp_detail', ''))
    print((res.get('text_tail') or '')[:3000])
    if model:
        print('model gen.eval:', readable(model[1])[:1500])
    judge(ctx, c, res, model)


def _plain_of(t, rich):
    if isinstance(t, dict) and '__rec__' in t:
        return {f['name']: (_plain_of(t['fields'][f['name']], rich) if f['name'] in t['fields'] else dval_py(f['default']))
                for f in rich['records'][t['__rec__']]}
    if isinstance(t, dict) and '__enum__' in t:
        return dval_py(dict(rich['enums'][t['__enum__']]['members'])[t['member']])
    if isinstance(t, list):
        return [_plain_of(e, rich) for e in t]
    return t


if __name__ == '__main__' and '--worker' in sys.argv:
    real_stdout = sys.stdout
    sys.stdout = sys.stderr
    worker_main()
