"""entry point: python run.py <Cxx> [--tier quick|thorough] [--replay FILE]"""
import argparse
import importlib
import os
import sys
import traceback

sys.path.insert(0, os.path.dirname(os.path.abspath(__file__)))
import common  # noqa: E402


def main():
    ap = argparse.ArgumentParser()
    ap.add_argument('prop')
    ap.add_argument('--tier', default=os.environ.get('VERIF_TIER', 'quick'), choices=['quick', 'thorough'])
    ap.add_argument('--replay', default=None)
    a = ap.parse_args()
    seed = int(os.environ.get('VERIF_SEED', '0') or 0)
    ctx = common.Ctx(a.prop, a.tier, seed)
    try:
        try:      # optional per-property extraction from the live library, before the Lean build (harness/extract_<id>.py)
            ex = importlib.import_module('extract_' + a.prop.lower())
        except ModuleNotFoundError:
            ex = None
        if ex is not None:
            try:
                ex.prebuild()
            except Exception as e:      # noqa  -- the library under test could not be probed: the generated table is stale / missing
                ctx.notes.append(f'extraction failed: {type(e).__name__}: {str(e)[:200]}')
                ctx.extract_error = repr(e)
        mod = importlib.import_module(a.prop.lower())
        exe = getattr(mod, 'DRIVER', f'drv_{a.prop}')
        targets = getattr(mod, 'LEAN_TARGETS', None) or [f'NasdaqModel.Props.{a.prop}', exe]
        for _sub, m, _path in ctx.lean.modules_of(a.prop):      # every theorem module of the property (Props/Cxx*.lean, Witness/Cxx*.lean)
            if m not in targets:
                targets.append(m)
        ctx.lean.build(targets)
        if ctx.lean.build_ok:
            ctx.lean.run_audit(a.prop)
            if a.tier == 'thorough' and not a.replay:
                ctx.lean.run_leanchecker(a.prop)
        ctx.driver = common.Driver(exe)
        common.use_repo()
        try:
            if a.replay:
                mod.replay(ctx, a.replay)
            else:
                mod.run(ctx)
        except (MemoryError, KeyboardInterrupt):
            raise
        except Exception as e:      # noqa
            # Build, audit and driver are fine, yet the harness could not digest what the library did (on the unchanged tree this
            # never happens, for any seed): the tie between model and code is broken on this tree — reported as such, with the
            # traceback as the replay; the cases evaluated so far keep their verdicts (an oracle failure found earlier still wins).
            tb = traceback.format_exc()
            print(tb, file=sys.stderr)
            ctx.disagree(f'the harness could not process the behaviour of the library under test: {type(e).__name__}: {str(e)[:200]}',
                         {'kind': 'harness-exception', 'traceback': tb[-3000:]})
        return common.finish(ctx)
    except Exception:      # infrastructure failure: never exit 1
        traceback.print_exc()
        print(f'{a.prop}: infrastructure error (exit 2)')
        return 2


if __name__ == '__main__':
    sys.exit(main())
