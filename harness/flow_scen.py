"""C06 and C05 on a transport with WRITE flow control — scenarios and oracles (property statements on the implementation alone).

(C05, `oracle_close`: every close trigger — close, initiate_close, logout / end_session, peer end-of-stream, a logout frame, a
tripped monitor, close awaited from a message callback — issued WHILE the transport has writing paused, after it resumed, or with
resume_writing / connection_lost delivered around the close: the session reports closed, the transport is closed once, the close
callback runs exactly once after it, the close calls return normally.  Props/C05Flow.lean: the callbacks are stutter steps of the
session machine and the sync triggers create the closing task in ANY state.  C06, `oracle`: below.)

The session-machine scenarios of sess_gen / sess_checks run on a transport that never talks back.  A real asyncio transport does:
when the peer stops reading it buffers what the session writes, calls `protocol.pause_writing()` once the buffer is above its
high-water mark, and `protocol.resume_writing()` once the peer has read the buffer down again — from a loop callback, at a moment the
peer chooses, **also after the session has closed the transport** (`close()` with a non-empty buffer keeps flushing; selector
transport `_write_ready` -> `_maybe_resume_protocol`), followed by `connection_lost(None)`.  C06 quantifies over "all lifetimes":
these callbacks are part of a lifetime.

A scenario (JSON-able dict):
    {'role': 'soup-client' | 'soup-server' | 'fix-client', 'hw': <high-water mark, bytes>, 'lw': <low-water mark>,
     'remote': <remote heartbeat interval in local intervals>, 'has_cb': bool, 'cb': 'ret' | ['await', k] | ['sleep', x],
     'lost': bool (the transport reports connection_lost(None) once it is closed and flushed),
     'script': [item, ...]}
with times in units of the session's LOCAL heartbeat interval (HB seconds of virtual time), login at 0, items
    ['at', x]           sleep until x local intervals after login
    ['turns', k]        k loop turns, no time
    ['wstop', k]        the peer stops reading (the kernel still takes k bytes)
    ['wgo'] | ['wgo', n]  the peer reads everything and keeps reading | reads n buffered bytes
    ['send']            one application message
    ['in', tok]         the peer sends a frame: 'hb' | 'logout' | ['msg', n]   (message 9: the application's callback awaits close())
    ['close'] | ['iclose'] | ['logout'] | ['eof']      close triggers: awaited close(), initiate_close(), logout()/end_session(), connection_lost
    ['silence']         the peer stays silent until the remote monitor trips (at most 2.2 remote intervals)
After the script the run goes on for SETTLE local intervals ("observed for several heartbeat intervals after the close").

Everything the session and the harness do is appended to ONE ordered log (writes, transport close, callback enter/exit, every task
the loop creates, flow-control callbacks); the oracle reads the statement off that log:
(C06) once the close has completed (close callback returned; without one: transport closed) — no `transport.write` of the session's own
making (a message the script's application sends itself after the close is the application's doing), no message / close callback, **no task started for the session**; at the end every task the library started has finished, none with an exception
nobody retrieved, nothing reached the loop's exception handler.
The Lean session machine has no event for these callbacks: `AsyncSession` inherits `pause_writing` / `resume_writing` from
`asyncio.BaseProtocol` (empty bodies), so for the unchanged code they are stutter steps (Model/MonitorFlow.lean states that for the
monitors); the scenarios are judged by the oracle only, like the extended scenarios of sess_checks.
"""
import asyncio
import json
import os
import random

import common
import sess_common as SC
from vloop import VirtualLoop, FakeTransport

HB = 0.004          # local heartbeat interval, virtual seconds
SETTLE = 3.6        # local intervals observed after the script
CLOSER = 9          # the message number whose callback awaits close()


def _login_bytes(role, codec, rng):
    return codec.frame(('msg', 0), rng)


class Run:
    def __init__(self, sc):
        self.sc = sc
        self.log = []           # the one ordered log: tuples (kind, …)
        self.in_app_send = False
        self.rng = random.Random(0)
        role = sc['role']
        self.codec = SC.ServerCodec() if role == 'soup-server' else SC.FixCodec() if role == 'fix-client' else SC.SoupCodec()

    # ---- callbacks handed to the library
    async def on_msg(self, m):
        n = self.codec.number(m)
        self.log.append(('msgEnter', n))
        try:
            if n == CLOSER:
                await self.s.close()
        finally:
            self.log.append(('msgExit', n))

    async def on_close(self):
        self.log.append(('cbEnter',))
        cb = self.sc.get('cb', 'ret')
        if isinstance(cb, (list, tuple)) and cb[0] == 'await':
            for _ in range(cb[1] + 1):
                await asyncio.sleep(0)
        elif isinstance(cb, (list, tuple)) and cb[0] == 'sleep':
            await asyncio.sleep(cb[1] * HB)
        self.log.append(('cbExit',))

    def build(self):
        from nasdaq_protocols import soup
        sc, run = self.sc, self
        role = sc['role']
        remote = sc.get('remote', 100) * HB
        on_close = self.on_close if sc.get('has_cb', True) else None
        if role == 'soup-client':
            return soup.SoupClientSession(on_msg_coro=self.on_msg, on_close_coro=on_close,
                                          client_heartbeat_interval=HB, server_heartbeat_interval=remote)
        if role == 'fix-client':
            from nasdaq_protocols.fix import session as fix_session
            self.codec.env()
            return fix_session.Fix44Session(on_msg_coro=self.on_msg, on_close_coro=on_close,
                                            client_heartbeat_interval=HB, server_heartbeat_interval=remote)
        if role == 'soup-server':
            from nasdaq_protocols.soup import session as soup_session

            class Server(soup_session.SoupServerSession):
                async def on_login(self, msg):
                    return soup.LoginAccepted('sess', 1)

                async def on_unsequenced(self, msg):
                    await run.on_msg(msg)
            return Server(client_heartbeat_interval=remote, server_heartbeat_interval=HB)
        raise ValueError(role)

    def app_msg(self):
        from nasdaq_protocols import soup
        role = self.sc['role']
        if role == 'fix-client':
            return self.codec.app_msg()
        return soup.UnSequencedData(b'payload') if role == 'soup-client' else soup.SequencedData(b'payload')

    # ---- the run
    def run(self):
        sc, log = self.sc, self.log
        loop = VirtualLoop()
        harness_tasks = set()

        def factory(lp, coro, **kw):
            t = asyncio.Task(coro, loop=lp, **kw)
            lp.tasks_created.append(t)
            log.append(('task', t))          # (asyncio names the task after the factory returns: resolved when the log is frozen)
            return t
        loop.set_task_factory(factory)

        class T(FakeTransport):
            def write(tself, data):
                # 'app': written from inside the script's own `send` item — the application's doing, whenever it happens
                log.append(('w', SC.classify_write(data), 'app' if self.in_app_send else 'session'))
                FakeTransport.write(tself, data)

            def close(tself):
                log.append(('tclose', tself.is_write_paused()))
                FakeTransport.close(tself)

            def _call_protocol(tself, name, *args):
                log.append(('flow', name))
                FakeTransport._call_protocol(tself, name, *args)

        result = {}

        async def main():
            me = asyncio.current_task()
            harness_tasks.add(id(me))
            s = self.s = self.build()
            tr = self.tr = T()
            tr.enable_write_flow(high=sc.get('hw', 0), low=sc.get('lw'), connection_lost=bool(sc.get('lost', True)))
            tr.protocol = s
            s.connection_made(tr)
            role = sc['role']
            # ---- login (before time 0; the transport is not yet under back-pressure)
            if role == 'soup-server':
                tr.feed(_login_bytes(role, self.codec, self.rng))
                for _ in range(60):
                    if tr.writes:
                        break
                    await asyncio.sleep(0.00005)
            else:
                from nasdaq_protocols import soup
                req = self.codec.login_msg() if role == 'fix-client' else soup.LoginRequest('u', 'p', 's', '1')
                lt = asyncio.get_running_loop().create_task(s.login(req), name='harness:login')
                harness_tasks.add(id(lt))
                for _ in range(3):
                    await asyncio.sleep(0)
                tr.feed(_login_bytes(role, self.codec, self.rng))
                await asyncio.wait_for(lt, 0.01)
            t0 = loop.time() if role != 'soup-server' else tr.writes[-1][0]
            log.append(('loggedIn',))
            last_in = t0
            users = []
            for item in sc['script']:
                k = item[0]
                try:
                    if k == 'at':
                        d = t0 + item[1] * HB - loop.time()
                        if d > 0:
                            await asyncio.sleep(d)
                    elif k == 'turns':
                        for _ in range(item[1]):
                            await asyncio.sleep(0)
                    elif k == 'wstop':
                        tr.peer_stops_reading(item[1] if len(item) > 1 else 0)
                    elif k == 'wgo':
                        tr.peer_reads(item[1] if len(item) > 1 else None)
                    elif k == 'send':
                        self.in_app_send = True
                        try:
                            s.send_msg(self.app_msg())
                        finally:
                            self.in_app_send = False
                    elif k == 'in':
                        tok = item[1] if isinstance(item[1], str) else ('msg', int(item[1][1]))
                        if tok == 'logout' or tok == ('msg', CLOSER):
                            log.append(('trigger', 'peer-logout' if tok == 'logout' else 'cb-close', tr.is_write_paused()))
                        tr.feed(self.codec.frame(tok, self.rng))
                        last_in = loop.time()
                    elif k == 'close':
                        log.append(('trigger', 'close', tr.is_write_paused()))

                        async def closer():
                            try:
                                await s.close()
                                log.append(('ret', 'close', 'ok'))
                            except BaseException as e:      # noqa
                                log.append(('ret', 'close', common.err_name(e)))
                                raise
                        ut = asyncio.get_running_loop().create_task(closer(), name='harness:close')
                        harness_tasks.add(id(ut))
                        users.append(ut)
                    elif k == 'iclose':
                        log.append(('trigger', 'iclose', tr.is_write_paused()))
                        s.initiate_close()
                    elif k == 'logout':
                        log.append(('trigger', 'logout', tr.is_write_paused()))
                        if role == 'soup-client':
                            s.logout()
                        elif role == 'soup-server':
                            s.end_session()
                        else:
                            s.initiate_close()        # FixSession has no logout call
                    elif k == 'eof':
                        log.append(('trigger', 'eof', tr.is_write_paused()))
                        s.connection_lost(None)
                    elif k == 'silence':
                        log.append(('trigger', 'silence', tr.is_write_paused()))
                        end = last_in + 2.2 * sc.get('remote', 100) * HB
                        while not s.is_closed() and loop.time() < end:
                            await asyncio.sleep(HB / 8)
                    else:
                        raise ValueError(k)
                except (ValueError, asyncio.TimeoutError):
                    raise
                except Exception as e:      # noqa — a raising synchronous API call is an observation
                    log.append(('raised', k, common.err_name(e)))
            await asyncio.sleep(SETTLE * HB)
            result['closed'] = bool(s.is_closed())
            result['tcloses'] = len(tr.closes)
            result['alive'] = sorted(t.get_name() for t in loop.tasks_created if not t.done() and id(t) not in harness_tasks)
            bad = []
            for t in loop.tasks_created:
                if t.done() and not t.cancelled() and id(t) not in harness_tasks and t.exception() is not None:
                    bad.append((t.get_name(), common.err_name(t.exception())))
            result['task_exceptions'] = bad
            result['vtime'] = round((loop.time() - t0) / HB, 3)
            # (what loop.shutdown() does afterwards is the harness's own business)
            result['log'] = [('task', e[1].get_name(), id(e[1])) if e[0] == 'task' else e for e in log]

        try:
            loop.run(main())
        finally:
            result['loop_exceptions'] = [str(c.get('message')) + (':' + common.err_name(c['exception']) if c.get('exception') else '')
                                         for c in loop.loop_exceptions]
            loop.shutdown()
        result['harness_tasks'] = harness_tasks
        result.setdefault('log', [('task', e[1].get_name(), id(e[1])) if e[0] == 'task' else e for e in log])
        return result


def run_scenario(sc):
    return Run(sc).run()


# ------------------------------------------------------------------ oracle
def oracle(sc, res):
    """failures of the C06 statement on one run (empty list: holds, or the session never closed)"""
    if not res.get('closed'):
        return []
    out = []
    log = res['log']
    if res['alive']:
        out.append(f"library tasks still running {SETTLE} heartbeat intervals after the script: {res['alive'][:4]}")
    if res['task_exceptions']:
        out.append(f"task ended with an exception nobody retrieved: {res['task_exceptions'][0]}")
    if res['loop_exceptions']:
        out.append(f"exception reached the event loop: {res['loop_exceptions'][0]}")
    has_cb = sc.get('has_cb', True) and sc['role'] != 'soup-server'      # (a server session's close callback is its own close())
    marks = [i for i, e in enumerate(log) if e[0] == ('cbExit' if has_cb else 'tclose')]
    if not marks and has_cb:
        marks = [i for i, e in enumerate(log) if e[0] == 'cbEnter'] or [i for i, e in enumerate(log) if e[0] == 'tclose']
    if not marks:
        return out
    after = log[marks[0] + 1:]
    flows = [e[1] for e in after if e[0] == 'flow']
    ctxt = f" (the transport called {', '.join(flows)} after the close)" if flows else ''
    for e in after:
        if e[0] == 'w' and e[2] != 'app':      # (a message the application itself sends on a closed session is its own doing)
            out.append(f"a {'heartbeat' if e[1] == 'hb' else e[1] + ' message'} was written to the transport after the session had closed" + ctxt)
            break
    for e in after:
        if e[0] == 'task' and e[2] not in res['harness_tasks']:
            out.append(f"a task was started for the session after it had closed: {e[1][:60]}" + ctxt)
            break
    for e in after:
        if e[0] == 'msgEnter':
            out.append(f'message callback for {e[1]} invoked after the session had closed')
            break
        if e[0] == 'cbEnter':
            out.append('close callback invoked again after the close had completed')
            break
    return out


CLOSE_CALLS = {'close': 'close()', 'iclose': 'initiate_close()', 'logout': 'logout() / end_session()', 'eof': 'connection_lost()'}


def oracle_close(sc, res):
    """failures of the C05 statement on one run: every way of ending the session (local close / initiate_close / logout /
    end_session, peer end-of-stream, a logout frame, a tripped monitor, close awaited from a callback) — whatever the transport's
    write side is doing at that moment — leaves the session reporting closed, its transport closed once, the close callback run
    exactly once after the transport close; the close calls themselves return normally."""
    out = []
    log = res['log']
    trig = [e for e in log if e[0] == 'trigger']
    state = lambda e: ' while the transport had writing paused (peer not reading)' if e[2] else ''
    for i, e in enumerate(log):
        if e[0] == 'raised' and e[1] in CLOSE_CALLS:
            t = [x for x in log[:i] if x[0] == 'trigger' and x[1] == e[1]]
            out.append(f'{CLOSE_CALLS[e[1]]} raised {e[2]}' + (state(t[-1]) if t else ''))
        if e[0] == 'ret' and e[1] == 'close' and e[2] != 'ok':
            out.append(f'awaited close() ended with {e[2]} instead of returning')
    if any(e[1] == 'close' for e in trig) and not any(e[0] == 'ret' and e[1] == 'close' for e in log):
        out.append(f'awaited close() had not returned {SETTLE} heartbeat intervals after the script')
    if not trig and not res.get('closed'):
        return out
    if not res.get('closed'):
        out.append(f'close trigger {trig[0][1]} occurred{state(trig[0])} but the session does not report closed '
                   f'{SETTLE} heartbeat intervals after the script')
        return out
    if res['tcloses'] < 1:
        out.append('session reports closed but the transport was never closed')
    elif res['tcloses'] > 1:
        out.append(f'transport closed {res["tcloses"]} times')
    has_cb = sc.get('has_cb', True) and sc['role'] != 'soup-server'      # (a server session's close callback is its own close())
    ent = [i for i, e in enumerate(log) if e[0] == 'cbEnter']
    ext = [i for i, e in enumerate(log) if e[0] == 'cbExit']
    if has_cb:
        if len(ent) != 1 or len(ext) != 1:
            out.append(f'close callback entered {len(ent)} times and completed {len(ext)} times (expected exactly once)')
        else:
            tc = [i for i, e in enumerate(log) if e[0] == 'tclose']
            if not tc or tc[0] > ent[0]:
                out.append('close callback entered before the transport was closed')
            late = [e for e in log[ent[0]:] if e[0] == 'msgEnter']
            if late:
                out.append(f'message callback for {late[0][1]} started after the close callback was entered')
    elif ent or ext:
        out.append('close callback observed although none is configured')
    return out


ORACLES = {'C05': oracle_close, 'C06': oracle}
JUDGED = {'C05': 'every close trigger ends the session completely and once — reports closed, transport closed once, close callback exactly '
                 'once after it; close(), initiate_close(), logout(), end_session() never raise, whatever the write side of the transport is doing',
          'C06': 'no write, no callback, no new task after the close completed; all tasks finished, no unretrieved exception'}


# ------------------------------------------------------------------ generators
ROLES = ('soup-client', 'soup-server', 'fix-client')
TRIGGERS = ('close', 'iclose', 'logout', 'eof', 'peer-logout', 'silence', 'cb-close')
HWS = {'soup-client': [0, 20], 'soup-server': [0, 20], 'fix-client': [0, 150]}


def scenario(role, hw, n_sends, t_close, trigger, gap, resume, has_cb=True, cb='ret', lost=True, lw=None):
    """peer stops reading at 0.25 -> (application sends at 0.5, which may fill the buffer) -> heartbeats fall due at the ticks 2, 3, …
    -> the session closes at `t_close` through `trigger` -> `gap` -> the peer reads again (`resume`: 'after' the close, 'before' it,
    'partial' = some bytes only, 'never')"""
    script = [['at', 0.25], ['wstop', 0]]
    if n_sends:
        script.append(['at', 0.5])
        script += [['send']] * n_sends
    remote = 100
    if trigger == 'silence':
        # the remote monitor trips at two remote intervals: choose the interval so that this is `t_close`, off the local ticks
        remote = t_close / 2
        script.append(['silence'])
    else:
        if resume == 'before':
            script += [['at', t_close - 0.2], ['wgo']]
        script.append(['at', t_close])
        script.append({'close': ['close'], 'iclose': ['iclose'], 'logout': ['logout'], 'eof': ['eof'],
                       'peer-logout': ['in', 'logout'], 'cb-close': ['in', ['msg', CLOSER]]}[trigger])
    script.append(list(gap))
    if resume == 'after':
        script.append(['wgo'])
    elif resume == 'partial':
        script += [['wgo', 2], ['turns', 2], ['wgo']]
    sc = {'role': role, 'hw': hw, 'remote': remote, 'has_cb': has_cb, 'cb': cb, 'lost': lost, 'script': script,
          'shape': [trigger, resume, t_close, n_sends]}
    if lw is not None:
        sc['lw'] = lw
    return sc


def all_scenarios():
    out = []
    for role in ROLES:
        for hw in HWS[role]:
            for n_sends in ((0,) if hw == 0 else (0, 6)):
                for t_close in (1.5, 2.5, 3.5, 4.5):
                    for trigger in TRIGGERS:
                        for gap in (['turns', 0], ['turns', 3], ['at', t_close + 0.6]):
                            for resume in ('after', 'before', 'partial', 'never'):
                                if resume == 'before' and trigger == 'silence':
                                    continue
                                out.append(scenario(role, hw, n_sends, t_close, trigger, gap, resume))
    return out


def random_scenario(rng):
    role = rng.choice(ROLES)
    hw = rng.choice(HWS[role] + [HWS[role][-1] * 3])
    sc = scenario(role, hw, rng.choice([0, 0, 1, 3, 6, 12]), rng.choice([1.5, 2.25, 2.5, 3.5, 4.5, 6.5]), rng.choice(TRIGGERS),
                  rng.choice([['turns', 0], ['turns', 1], ['turns', 2], ['turns', 5], ['at', 7.3]]), rng.choice(['after', 'after', 'before', 'partial', 'never']),
                  has_cb=rng.random() < 0.85, cb=rng.choice(['ret', ['await', 1], ['sleep', 0.3], ['sleep', 1.4]]), lost=rng.random() < 0.7,
                  lw=rng.choice([None, None, 0, hw]))
    # extra traffic: inbound heartbeats / messages and application sends sprinkled before the close
    extra = []
    for _ in range(rng.choice([0, 0, 1, 2, 4])):
        extra.append([['in', 'hb'], ['in', ['msg', rng.randrange(1, 8)]], ['send'], ['turns', 1]][rng.randrange(4)])
    if extra and sc['remote'] == 100:
        # … before the close trigger (the item that follows the last `at` of the prefix)
        trig = max(i for i, it in enumerate(sc['script']) if it[0] in ('close', 'iclose', 'logout', 'eof', 'in'))
        k = rng.randrange(2, trig + 1)
        sc['script'][k:k] = extra
    return sc


# ------------------------------------------------------------------ check entry points
def shrink(sc, key, orc=None):
    orc = orc or oracle
    cur = dict(sc, script=list(sc['script']))
    changed, tries = True, 0
    while changed and tries < 40:
        changed = False
        for i in range(len(cur['script']) - 1, -1, -1):
            cand = dict(cur, script=cur['script'][:i] + cur['script'][i + 1:])
            tries += 1
            try:
                v = orc(cand, run_scenario(cand))
            except Exception:       # noqa
                continue
            if any(x[:40] == key for x in v):
                cur, changed = cand, True
                break
    return cur


def describe(sc):
    return f"{sc['role']} hw={sc.get('hw')} remote={sc.get('remote')} cb={sc.get('cb')} lost={sc.get('lost')} {json.dumps(sc['script'])}"


def run_flow(ctx, prop='C06', n_sample=350, n_random=250):
    orc = ORACLES[prop]
    rng = random.Random(ctx.rng.random())
    quick = ctx.tier == 'quick'
    sys_all = all_scenarios()
    cases = [('corpus', c) for c in load_corpus(prop)]
    # quick: a seeded sample of the systematic product (every (role, trigger, resume) combination is in it at least once), thorough: all of it
    if quick:
        by = {}
        for sc in sys_all:
            by.setdefault((sc['role'], sc['hw'], sc['shape'][0], sc['shape'][1]), []).append(sc)
        pick = [rng.choice(v) for v in by.values()]
        cases += [('systematic', c) for c in pick + rng.sample(sys_all, n_sample)]
    else:
        cases += [('systematic', c) for c in sys_all]
    cases += [('random', random_scenario(rng)) for _ in range(n_random if quick else 6000)]
    for tag, sc in cases:
        rep = {'kind': 'flow', 'flow_scenario': sc}
        try:
            res = run_scenario(sc)
        except Exception as e:      # noqa — the (possibly modified) library broke the run itself: an observation
            ctx.violation(f'running the flow-control scenario raised {type(e).__name__}: {e}', rep)
            continue
        ctx.case({'flow': sc}, nontrivial=True, sample_every=397)
        ctx.count('flow:' + tag)
        ctx.count('flow:' + ('closed' if res['closed'] else 'open'))
        log = res['log']
        fl = [e[1] for e in log if e[0] == 'flow']
        if 'pause_writing' in fl:
            i_p = next(i for i, e in enumerate(log) if e == ('flow', 'pause_writing'))
            tc = [i for i, e in enumerate(log) if e[0] == 'tclose']
            ctx.count('flow:paused-before-close' if tc and i_p < tc[0] else 'flow:paused')
            if tc and any(e == ('flow', 'resume_writing') for e in log[tc[0]:]) and any(e == ('w', 'hb') for e in log[i_p + 1:tc[0]]):
                ctx.count('flow:pause-heartbeat-close-resume')
        for e in log:
            if e[0] == 'trigger':
                ctx.count(f'flow:trigger-{e[1]}' + ('-while-write-paused' if e[2] else ''))
                ctx.count(f'flow:{sc["role"]}:trigger' + ('-while-write-paused' if e[2] else ''))
            elif e[0] == 'tclose' and len(e) > 1 and e[1]:
                ctx.count('flow:transport-closed-while-write-paused')
        v = orc(sc, res)
        if v:
            small = shrink(sc, v[0][:40], orc) if len(ctx.violations) < 3 else sc
            ctx.violation(v[0] + '  [transport flow-control scenario]', {'kind': 'flow', 'flow_scenario': small})
    ctx.notes.append('transport write flow control (harness/flow_scen.py): the peer stops reading, the transport buffers and calls pause_writing(), '
                     'heartbeats fall due, the session closes through each of 7 triggers, the peer reads again before / after / partly / never '
                     '(resume_writing() and connection_lost(None) after the close, as asyncio delivers them); judged by the property oracle only '
                     '(' + JUDGED[prop] + ')')


def load_corpus(prop):
    out = []
    d = os.path.join(common.VERIF, 'corpus', prop + '-flow')
    if os.path.isdir(d):
        for f in sorted(os.listdir(d)):
            if f.endswith('.json'):
                c = json.load(open(os.path.join(d, f)))
                out.append(c.get('flow_scenario') or (c.get('replay') or {}).get('flow_scenario') or c)
    return out


def replay_flow(ctx, prop, rep):
    sc = rep['flow_scenario']
    ctx.cov['rule'] = 'replay of a transport flow-control scenario'
    res = run_scenario(sc)
    ctx.case({'flow': sc})
    print('scenario:', describe(sc))
    print('log     :', [e[:2] for e in res['log']])
    print('closed', res['closed'], 'alive', res['alive'], 'task exceptions', res['task_exceptions'], res['loop_exceptions'])
    for v in ORACLES[prop](sc, res):
        print('ORACLE:', v)
        ctx.violation(v + '  [transport flow-control scenario]', dict(rep))
